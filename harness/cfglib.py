"""Shared by the C06 / C11 / C19 checks: operation histories over real `invoke.config.Config` objects.

* `Impl`   runs a history on the REAL objects (public interface only) and renders every operation's
           outcome and the deep plain view of every object in the driver's canonical form;
* `line()` renders the same history for the Lean driver `drv_config`;
* `Ref`    is the ORACLE: a plain nested Python dict that receives the same operations on top of the
           current merge of the levels (DESIGN.md C06 reference semantics): after a reload the
           reference is the replay of the journal of edits over the fresh merge.

An operation is a JSON-serialisable dict:
  {"o": obj, "op": NAME, "path": [[key, attr?], ...], "k": key, "v": value, "d": default, "m": mapping,
   "kw": mapping, "slot": level, "data": dict, "env": {VAR: text}, "into": dict|None, "chosen": key}
"""
import copy
import os

ABSENT = "-"

# --------------------------------------------------------------------------- canonical encoding


def enc(v):
    """protocol encoding, dict order preserved (input to the model)"""
    if isinstance(v, dict):
        return "{" + ",".join("%s:%s" % (k, enc(v[k])) for k in v) + "}"
    if v is None:
        return "n"
    if isinstance(v, bool):
        return "b%d" % v
    if isinstance(v, int):
        return "i%d" % v
    if isinstance(v, (list, tuple)):
        return "l" + "".join("+" + x for x in v)
    return "s" + v


def canon(v):
    """canonical encoding (sorted keys) used for comparing outputs and views"""
    if isinstance(v, dict):
        return "{" + ",".join("%s:%s" % (k, canon(v[k])) for k in sorted(v)) + "}"
    return enc(v)


def path_txt(path):
    return ".".join(("@" if a else "") + k for k, a in path) if path else "-"


def opt(v):
    return ABSENT if v is ABSENT else enc(v)


def op_txt(op):
    n = op["op"]
    p = path_txt(op.get("path", []))
    if n == "NEW":
        return "NEW %s %s" % (enc(op["defaults"]), enc(op["overrides"]))
    if n == "FRESH":  # a fresh instance of a clone target class: its defaults are the class's table
        return "NEW %s {}" % enc(op["into"])
    if n == "NEWF":
        return "NEWF " + " ".join(enc(op[s]) for s in ("defaults", "overrides", "system", "user", "project", "runtime"))
    if n == "LOAD":
        return "LOAD %s %s" % (op["slot"], enc(op["data"]))
    if n == "ENV":
        return "ENV " + (",".join("%s=%s" % kv for kv in op["env"].items()) or "-")
    if n == "HOLD":
        return "LEN %s" % p
    if n == "HOP":
        return "HANDLE%s %s" % (op["h"], op_txt(dict(op["sub"], path=[])))
    if n in ("LOADU", "EDITSRC"):  # a caller-side in-place edit of a level's dict = that level replaced, not yet merged
        return "LOADU %s %s" % (op["slot"], enc(op["data"]))
    if n == "LOADSAME":
        return "LOAD %s %s" % (op["slot"], enc(op["data"]))
    if n == "MERGE":
        return "MERGE"
    if n in ("RUNTIME", "PROJECT"):  # set_runtime_path / set_project_location + load_*: the level is replaced
        return "LOAD %s %s" % (n.lower(), enc(op["data"] or {}))
    if n == "TASK":
        return "TASK %d %s %s" % (1 if op["none"] else 0, "/".join(enc(c) for c in op["cfgs"]) or "-",
                                 ",".join("%s=%s" % kv for kv in op["env"].items()) or "-")
    if n == "CLONE":
        return "CLONE " + (ABSENT if op.get("into") is None else enc(op["into"]))
    if n in ("GI", "GA", "GET", "DI", "DA", "HAS"):
        return "%s %s %s" % (n, p, op["k"])
    if n in ("SI", "SA"):
        return "%s %s %s %s" % (n, p, op["k"], enc(op["v"]))
    if n in ("POP", "SD"):
        return "%s %s %s %s" % (n, p, op["k"], enc(op["d"]) if "d" in op else ABSENT)
    if n == "PI":
        return "PI %s %s" % (p, op.get("chosen") or ABSENT)
    if n in ("CLR", "LEN", "KEYS", "ITEMS"):
        return "%s %s" % (n, p)
    if n == "ITER":
        return "KEYS %s" % p
    if n == "UPD" and op.get("shape") == "proxy" and "m" in op:
        return "UPDP %s %s %s" % (p, enc(op["m"]), enc(op.get("kw", {})))
    if n == "UPD":
        return "UPD %s %s %s" % (p, enc(op["m"]) if "m" in op else ABSENT, enc(op.get("kw", {})))
    raise ValueError("unknown op %r" % (op,))


def line(ops):
    return ";".join("%d:%s" % (op.get("o", 0), op_txt(op)) for op in ops)


MUTATORS = ("SI", "SA", "DI", "DA", "POP", "PI", "CLR", "SD", "UPD")
READS = ("GI", "GA", "GET", "HAS", "LEN", "KEYS", "ITER", "ITEMS")

# --------------------------------------------------------------------------- the real objects


def errname(e):
    from invoke.config import AmbiguousMergeError
    from invoke.exceptions import UncastableEnvVar, AmbiguousEnvVar
    if isinstance(e, AmbiguousMergeError):
        return "E:ambiguousMerge"
    if isinstance(e, UncastableEnvVar):
        return "E:uncastable"
    if isinstance(e, AmbiguousEnvVar):
        return "E:ambiguousEnv"
    for cls, n in ((KeyError, "key"), (AttributeError, "attr"), (TypeError, "typ"), (ValueError, "value")):
        if isinstance(e, cls):
            return "E:" + n
    return "E:" + type(e).__name__


def is_internal(res):
    """an outcome that is neither a value nor the legitimate KeyError/AttributeError of an absent key"""
    return res.startswith("E:") and res not in ("E:key", "E:attr")


def plain(p):
    """deep plain-dict view through the PUBLIC interface (iteration + item access)"""
    from invoke.config import DataProxy
    out = {}
    for k in list(p):
        v = p[k]
        out[k] = plain(v) if isinstance(v, (DataProxy, dict)) else v
    return out


def deplain(v):
    from invoke.config import DataProxy
    return plain(v) if isinstance(v, (DataProxy, dict)) else v


class EnvPatch:
    """os.environ restricted to the given prefixed variables for the duration of one call"""

    def __init__(self, prefix, env):
        self.prefix, self.env = prefix, env

    def __enter__(self):
        self.saved = {k: v for k, v in os.environ.items() if k.startswith(self.prefix)}
        for k in self.saved:
            del os.environ[k]
        for k, v in self.env.items():
            os.environ[self.prefix + k] = v

    def __exit__(self, *a):
        for k in [k for k in os.environ if k.startswith(self.prefix)]:
            del os.environ[k]
        os.environ.update(self.saved)


STALE_TAG = "{stale handle: obtained before a re-merge}"

NOFILES = dict(system_prefix="/nonexistent-verif/sys/", user_prefix="/nonexistent-verif/usr/")


def make_sub(extra, table=None):
    """a Config subclass whose global defaults are `extra` (cloning `into` it); with `table` its global_defaults()
    hands out that ONE dict object every time (a module / class level constant)"""
    from invoke.config import Config

    class Sub(Config):
        @staticmethod
        def global_defaults():
            return table if table is not None else copy.deepcopy(extra)
    return Sub


UPDATE_SHAPES = ("dict", "list", "tuple", "items", "zip", "gen", "iter", "map", "sub", "odict")


def shaped(m, shape):
    """the positional argument of `update()` in one of the shapes `dict.update` accepts (freshly materialised)"""
    pairs = list(m.items())
    if shape == "dict":
        return dict(pairs)
    if shape == "list":
        return [list(p) if i % 2 else p for i, p in enumerate(pairs)]  # (pairs as tuples and as 2-lists)
    if shape == "tuple":
        return tuple(pairs)
    if shape == "items":
        return dict(pairs).items()
    if shape == "zip":
        return zip([k for k, _ in pairs], [v for _, v in pairs])
    if shape == "gen":
        return ((k, v) for k, v in pairs)
    if shape == "iter":
        return iter(pairs)
    if shape == "map":
        return map(lambda kv: (kv[0], kv[1]), pairs)
    if shape == "sub":
        class Settings(dict):
            pass
        return Settings(pairs)
    if shape == "odict":
        import collections
        return collections.OrderedDict(pairs)
    if shape == "proxy":  # another configuration object used as the mapping (dict.update accepts it: it has keys())
        from invoke.config import Config
        return Config(defaults=dict(pairs), lazy=True, **NOFILES)
    raise ValueError("unknown update shape " + shape)


def apply_share(d, share):
    """share = {"pairs": [[src path, dst path], ...], "top": [top-level keys in order]}: the same dict object at
    both paths; the top-level key ORDER is part of the case (it decides which occurrence a merge walks second) and is
    recorded explicitly because replay files are written with sorted keys"""
    if not share:
        return d
    pairs = share["pairs"] if isinstance(share, dict) else share
    if isinstance(share, dict) and share.get("top"):
        for k in [k for k in share["top"] if k in d] + [k for k in list(d) if k not in share["top"]]:
            d[k] = d.pop(k)
    for src, dst in pairs:
        obj = get_path(d, src)
        par = get_path(d, dst[:-1])
        if isinstance(obj, dict) and isinstance(par, dict):
            par[dst[-1]] = obj
    return d


def write_level_file(path_noext, data, share):
    """a config file for one level: JSON, or - when sub-objects are shared - YAML with an anchor and an alias"""
    import json
    os.makedirs(os.path.dirname(path_noext), exist_ok=True)
    if share:
        from invoke.util import yaml
        f = path_noext + ".yaml"
        with open(f, "w") as fd:
            fd.write(yaml.safe_dump(apply_share(copy.deepcopy(data), share)))
    else:
        f = path_noext + ".json"
        with open(f, "w") as fd:
            json.dump(data, fd)
    return f


class Impl:
    """Real Config objects driven by operations.  `sources` keeps every dict handed to a config."""

    def __init__(self, tmpdir=None):
        self.objs = []
        self.sources = []  # (label, held object, deep snapshot at hand-over time)
        self.tmpdir = tmpdir
        self.colls = []  # (root collection, task path, expected configuration)
        self.classes = {}  # clone targets by index
        self.nfiles = 0
        self.level_src = {}  # (object, slot) -> the caller-held dict currently serving as that level
        self.handles = {}   # held proxy handles: id -> {"p": proxy, "o": object, "keys": key path, "alive": bool}
        self.stale = set()  # objects whose view is knowingly unmerged (load_*(merge=False) just happened)
        self.violation = None  # what an edit through a held handle failed to do (see _handle_op)
        self.stale_note = None  # first dict-likeness failure of a handle obtained before a re-merge (known finding)
        self.merges = {}  # object -> number of re-merges so far, counted from the HISTORY (see after_op)
        self._before = None  # root view of the addressed object before the current operation (when handles exist)

    def hand(self, label, data, share=None):
        """caller-held data handed to a configuration; `share` = [[src path, dst path], ...]: the SAME dict object
        sits at both key paths (what one shared Python object, or a YAML anchor + alias, gives)"""
        d = apply_share(copy.deepcopy(data), share)
        self.sources.append((label, d, copy.deepcopy(d)))
        return d

    def from_collection(self, data):
        """route collection settings through a real Collection tree and hand out its configuration()"""
        from invoke import Collection, Task
        root, sub = Collection("root"), Collection("sub")
        given = self.hand("configure-arg", data)
        sub.configure(given)

        def t(c):
            pass
        sub.add_task(Task(t, name="t"))
        root.add_collection(sub)
        handed = root.configuration("sub.t")
        self.sources.append(("collection.configuration()", handed, copy.deepcopy(handed)))
        self.colls.append((root, "sub.t", copy.deepcopy(data)))
        return handed

    def views(self):
        out = []
        for c in self.objs:
            try:
                out.append(canon(plain(c)))
            except Exception as e:  # a broken object
                out.append("!" + errname(e))
        return out

    def nav(self, c, path):
        cur = c
        for k, attr in path:
            cur = getattr(cur, k) if attr else cur[k]
        return cur

    def apply(self, op):
        """returns the canonical result text; never raises"""
        self._before = None
        o = op.get("o", 0)
        if self.handles and o < len(self.objs) and o not in self.stale and op["op"] not in ("NEW", "NEWF", "FRESH"):
            try:
                self._before = plain(self.objs[o])
            except Exception:
                self._before = None
        try:
            r = self._apply(op)
        except Exception as e:
            r = errname(e)
        try:
            self.after_op(op, r)
        except Exception:
            pass
        return r

    def _apply(self, op):
        from invoke.config import Config
        n = op["op"]
        if n == "NEW":
            sh = op.get("share", {})
            d0, o0 = self.hand("defaults", op["defaults"], sh.get("defaults")), self.hand("overrides", op["overrides"], sh.get("overrides"))
            c = Config(defaults=d0, overrides=o0, lazy=True, **NOFILES)
            self.level_src[(len(self.objs), "defaults")], self.level_src[(len(self.objs), "overrides")] = d0, o0
            self.objs.append(c)
            return ABSENT
        if n == "NEWF":
            return self._newf(op)
        if n == "FRESH":
            self.objs.append(self.target_class(op)(lazy=True, **NOFILES))
            return ABSENT
        c = self.objs[op.get("o", 0)]
        if n == "LOAD":
            if op.get("via_coll"):
                d = self.from_collection(op["data"])
            else:
                d = self.hand(op["slot"], op["data"], op.get("share", {}).get("data"))
            self.level_src[(op.get("o", 0), op["slot"])] = d
            {"defaults": c.load_defaults, "overrides": c.load_overrides, "collection": c.load_collection}[op["slot"]](d)
            return ABSENT
        if n == "ENV":
            with EnvPatch(env_prefix(c), op["env"]):
                c.load_shell_env()
            return ABSENT
        if n == "LOADU":
            d = self.hand(op["slot"], op["data"], op.get("share", {}).get("data"))
            self.level_src[(op.get("o", 0), op["slot"])] = d
            {"defaults": c.load_defaults, "overrides": c.load_overrides, "collection": c.load_collection}[op["slot"]](
                d, merge=False)
            return ABSENT
        if n == "EDITSRC":
            # the CALLER edits, in place, the dict it handed over as this level earlier (its own data: legitimate)
            held = self.level_src.get((op.get("o", 0), op["slot"]))
            if held is None:
                return "E:key"
            if "v" in op:
                set_total(held, op["keys"], op["v"])
            else:
                del_total(held, op["keys"])
            for i, (label, h2, snap) in enumerate(self.sources):
                if h2 is held:
                    self.sources[i] = (label, h2, copy.deepcopy(h2))
            return ABSENT
        if n == "LOADSAME":
            held = self.level_src.get((op.get("o", 0), op["slot"]))
            if held is None:
                return "E:key"
            {"defaults": c.load_defaults, "overrides": c.load_overrides, "collection": c.load_collection}[op["slot"]](held)
            return ABSENT
        if n == "MERGE":
            c.merge()
            return ABSENT
        if n in ("RUNTIME", "PROJECT"):
            return self._reload_file(c, n, op["data"], op.get("share", {}).get("data"))
        if n == "CLONE":
            if op.get("into") is None:
                k = c.clone()
            else:
                # the SAME class object for the same "cls" index within a history (clone targets are reused)
                k = c.clone(into=self.target_class(op))
            self.objs.append(k)
            return ABSENT
        if n == "HOLD":
            h = self.nav(c, op.get("path", []))
            r = "N%d" % len(h)
            self.handles[op["h"]] = {"p": h, "o": op.get("o", 0), "keys": [k for k, _ in op.get("path", [])], "alive": True,
                                     "epoch": self.merges.get(op.get("o", 0), 0)}
            return r
        if n == "HOP":
            r = self._handle_op(c, op)
            if self.violation is None and self.stale_note is None:
                try:
                    why = self._dict_like(c, op, r)
                except Exception as e:
                    why = "dict-likeness check could not read the config: %s" % errname(e)
                if why:
                    hd = self.handles.get(op["h"])
                    if hd and self.merges.get(hd["o"], 0) > hd["epoch"]:
                        self.stale_note = why + " " + STALE_TAG
                    else:
                        self.violation = why
            return r
        p = self.nav(c, op.get("path", []))
        return self._proxy_op(p, op)

    def _proxy_op(self, p, op):
        n = op["op"]
        k = op.get("k")
        if n == "GI":
            return "v" + canon(deplain(p[k]))
        if n == "GA":
            return "v" + canon(deplain(getattr(p, k)))
        if n == "GET":
            r = p.get(k, ABSENT)
            return ABSENT if r is ABSENT else "v" + canon(deplain(r))
        if n == "SI":
            p[k] = copy.deepcopy(op["v"])
            return ABSENT
        if n == "SA":
            setattr(p, k, copy.deepcopy(op["v"]))
            return ABSENT
        if n == "DI":
            del p[k]
            return ABSENT
        if n == "DA":
            delattr(p, k)
            return ABSENT
        if n == "POP":
            r = p.pop(k, copy.deepcopy(op["d"])) if "d" in op else p.pop(k)
            return "v" + canon(deplain(r))
        if n == "PI":
            op.pop("chosen", None)
            kk, vv = p.popitem()
            op["chosen"] = kk
            return "P%s=%s" % (kk, canon(deplain(vv)))
        if n == "CLR":
            p.clear()
            return ABSENT
        if n == "SD":
            r = p.setdefault(k, copy.deepcopy(op["d"])) if "d" in op else p.setdefault(k)
            return "v" + canon(deplain(r))
        if n == "UPD":
            kw = copy.deepcopy(op.get("kw", {}))
            if "m" in op:
                p.update(shaped(copy.deepcopy(op["m"]), op.get("shape", "dict")), **kw)
            else:
                p.update(**kw)
            return ABSENT
        if n == "HAS":
            return "B%d" % (k in p)
        if n == "LEN":
            return "N%d" % len(p)
        if n == "KEYS":
            return "K" + ",".join(sorted(p.keys()))
        if n == "ITER":
            return "K" + ",".join(sorted(iter(p)))
        if n == "ITEMS":
            return "v" + canon({a: deplain(b) for a, b in p.items()})
        raise ValueError("unknown op " + n)

    def target_class(self, op):
        """the SAME class object for the same "cls" index within a history; a `const` class hands out one shared
        defaults table, which is caller-supplied data (snapshotted)"""
        key = op.get("cls", "anon%d" % len(self.classes))
        if key not in self.classes:
            table = None
            if op.get("const"):
                table = copy.deepcopy(op["into"])
                self.sources.append(("global_defaults() table of a clone target class", table, copy.deepcopy(table)))
            self.classes[key] = make_sub(op["into"], table)
        return self.classes[key]

    def _handle_op(self, c, op):
        """An operation THROUGH A HELD HANDLE (a proxy obtained earlier and kept across other operations).

        The handle may be detached from the current view (every re-merge rebuilds the view objects), so no
        dict-likeness of what the handle READS is demanded.  Demanded (property text + what the code supports):
        an edit through a handle whose section still exists and that returned normally must be EFFECTIVE AT THE
        ROOT - a key it wrote reads back through the root with that value, a key it deleted / popped / cleared is
        absent at the root (and therefore in any clone made afterwards, checked by the clone comparisons)."""
        hd = self.handles.get(op["h"])
        sub = op["sub"]
        if hd is None:
            return "E:key"  # the HOLD itself failed: no handle
        p = hd["p"]
        try:
            listed = sorted(p.keys())
        except Exception:
            listed = []
        try:
            r = self._proxy_op(p, sub)
        except Exception as e:
            return errname(e)
        n, k = sub["op"], sub.get("k")
        if not hd["alive"] or n not in MUTATORS or hd["o"] in self.stale:
            return r
        sec = get_path(plain(c), hd["keys"])
        if not isinstance(sec, dict):
            return r
        why = None
        if n in ("SI", "SA"):
            if k not in sec or canon(sec[k]) != canon(sub["v"]):
                why = "wrote %s=%s, the root reads %s" % (k, canon(sub["v"]), canon(sec.get(k, "<absent>")))
            elif canon(deplain(p[k])) != canon(sub["v"]):
                why = "wrote %s=%s, the handle itself reads %s" % (k, canon(sub["v"]), canon(deplain(p[k])))
        elif n in ("DI", "DA") or (n == "POP" and k in listed):
            if k in sec:
                why = "removed %s, the root still reads %s" % (k, canon(sec[k]))
        elif n == "PI":
            kk = sub.get("chosen")
            if kk in sec:
                why = "popitem removed %s, the root still reads it" % kk
        elif n == "CLR":
            left = [x for x in listed if x in sec]
            if left:
                why = "cleared keys %s, the root still reads %s" % (listed, left)
        elif n == "SD" and k not in listed:  # (a key the handle already lists is only READ: may be stale)
            if k not in sec or "v" + canon(sec[k]) != r:
                why = "setdefault(%s) returned %s, the root reads %s" % (k, r, canon(sec.get(k, "<absent>")))
        elif n == "UPD":
            for src in (sub.get("m", {}), sub.get("kw", {})):
                for kk, vv in src.items():
                    if kk not in sec or canon(sec[kk]) != canon(vv):
                        why = "update wrote %s=%s, the root reads %s" % (kk, canon(vv), canon(sec.get(kk, "<absent>")))
        if why:
            self.violation = "%s through the handle held on %s of object %d: %s" % (
                op_txt(dict(sub, path=[])), ".".join(hd["keys"]), hd["o"], why)
        return r

    def _dict_like(self, c, op, r):
        """THE PROPERTY for held handles: the result and the effect of an operation through a handle are what a
        plain nested dict gives, i.e. the operation applied to the root's current view at the handle's path.
        Returns a failure text or None."""
        hd = self.handles.get(op["h"])
        if hd is None or not hd["alive"] or hd["o"] in self.stale or self._before is None:
            return None
        if not isinstance(get_path(self._before, hd["keys"]), dict):
            return None
        twin = Ref()
        twin.tree = copy.deepcopy(self._before)
        try:
            exp = twin.apply(dict(copy.deepcopy(op["sub"]), path=[[k, False] for k in hd["keys"]]))
        except RefSkip:
            return None
        if exp != r:
            return "%s through the handle held on %s of object %d returned %s, a held nested dict gives %s" % (
                op_txt(dict(op["sub"], path=[])), ".".join(hd["keys"]), hd["o"], r, exp)
        after = plain(c)
        if canon(after) != canon(twin.tree):
            return "after %s through the handle held on %s of object %d the config reads %s, the nested dict %s" % (
                op_txt(dict(op["sub"], path=[])), ".".join(hd["keys"]), hd["o"], canon(after), canon(twin.tree))
        return None

    def _count_merge(self, op):
        """does this (successful) operation re-merge its object?  Decided from the HISTORY: the kind of the operation
        and what a nested dict holding the root view before it would do - not from the implementation."""
        o = op.get("o", 0)
        src, keys = op, [k for k, _ in op.get("path", [])]
        if op["op"] == "HOP":
            hd = self.handles.get(op["h"])
            if hd is None:
                return
            src, keys = op["sub"], hd["keys"]
        n = src["op"]
        merging = n in ("LOAD", "LOADSAME", "MERGE", "ENV", "RUNTIME", "PROJECT", "SI", "SA", "DI", "DA", "PI")
        sec = get_path(self._before, keys) if self._before is not None else ABSENT
        if n == "SD":
            merging = not (isinstance(sec, dict) and src.get("k") in sec)
        elif n == "POP":
            merging = not isinstance(sec, dict) or src.get("k") in sec
        elif n == "CLR":
            merging = not isinstance(sec, dict) or bool(sec)
        elif n == "UPD":
            merging = bool(src.get("m")) or bool(src.get("kw"))
        if merging:
            self.merges[o] = self.merges.get(o, 0) + 1

    def after_op(self, op, r=ABSENT):
        """bookkeeping after every operation: which objects are knowingly unmerged, which handles' sections still exist"""
        o = op.get("o", 0)
        if op["op"] in ("LOADU", "EDITSRC"):
            self.stale.add(o)  # reads until the next merge are unconstrained
            return
        if r.startswith("E:"):
            return  # an operation that raised (absent key) did not re-merge anything
        if op["op"] == "POP" and "d" in op and r == "v" + canon(op["d"]):
            return  # pop(key, default) of an absent key: nothing happened
        self._count_merge(op)
        if op["op"] not in ("HOLD", "CLONE", "NEW", "NEWF", "FRESH", "HOP") + READS and not (
                op["op"] == "SD" and o in self.stale):
            self.stale.discard(o)
        if o in self.stale or o >= len(self.objs):
            return
        try:
            view = plain(self.objs[o])
        except Exception:
            return
        tgt = None
        src = op["sub"] if op["op"] == "HOP" else op
        if src["op"] in ("SI", "SA", "SD", "UPD"):
            base = self.handles[op["h"]]["keys"] if op["op"] == "HOP" and op["h"] in self.handles else [k for k, _ in op.get("path", [])]
            vals = {src.get("k"): src.get("v", src.get("d"))} if src["op"] != "UPD" else dict(src.get("m", {}), **src.get("kw", {}))
            tgt = [base + [kk] for kk, vv in vals.items() if isinstance(vv, dict)]
        for hd in self.handles.values():
            if hd["o"] != o or not hd["alive"]:
                continue
            if not isinstance(get_path(view, hd["keys"]), dict):
                hd["alive"] = False  # the section was deleted / vanished: a plain dict handle would be detached too
            elif tgt and any(t == hd["keys"][:len(t)] for t in tgt):
                hd["alive"] = False  # the section (or an ancestor) was overwritten by a dict-valued write

    def _reload_file(self, c, kind, data, share=None):
        """point the runtime / project level at a new location and load it from a real file (removed afterwards);
        data None: a runtime path that does not exist"""
        from invoke.config import Config
        self.nfiles += 1
        midfix = Config.file_prefix or Config.prefix
        base = os.path.join(self.tmpdir, "reload%d" % self.nfiles)
        os.makedirs(base, exist_ok=True)
        stem = os.path.join(base, "rt" if kind == "RUNTIME" else midfix)
        f = stem + ".json"
        if data is not None:
            f = write_level_file(stem, data, share)
        if kind == "RUNTIME":
            c.set_runtime_path(f)
            c.load_runtime()
        else:
            c.set_project_location(base)
            c.load_project()
        if os.path.exists(f):
            os.remove(f)
        return ABSENT

    def _newf(self, op):
        """a config whose four file levels are loaded from real files (JSON; YAML with anchors when a level shares
        sub-objects), removed again afterwards"""
        from invoke.config import Config
        base = os.path.join(self.tmpdir, "o%d" % len(self.objs))
        midfix = Config.file_prefix or Config.prefix
        sh = op.get("share", {})
        stems = {"system": os.path.join(base, "sys", midfix), "user": os.path.join(base, "usr", midfix),
                 "project": os.path.join(base, "proj", midfix), "runtime": os.path.join(base, "rt")}
        files = {}
        for s, stem in stems.items():
            if op[s] is not None:
                files[s] = write_level_file(stem, op[s], sh.get(s))
        d0, o0 = self.hand("defaults", op["defaults"], sh.get("defaults")), self.hand("overrides", op["overrides"], sh.get("overrides"))
        self.level_src[(len(self.objs), "defaults")], self.level_src[(len(self.objs), "overrides")] = d0, o0
        c = Config(defaults=d0, overrides=o0,
                   system_prefix=os.path.join(base, "sys", ""), user_prefix=os.path.join(base, "usr", ""),
                   project_location=os.path.join(base, "proj"), runtime_path=files.get("runtime", stems["runtime"] + ".json"),
                   lazy=False)
        c.load_project()
        c.load_runtime()
        for f in files.values():
            if os.path.exists(f):
                os.remove(f)
        self.objs.append(c)
        return ABSENT


def env_prefix(c):
    return ((type(c).env_prefix or type(c).prefix).upper()) + "_"


# --------------------------------------------------------------------------- the oracle: a plain nested dict


def deep_merge(a, b):
    """b on top of a (independent statement of the precedence rule, C03)"""
    out = copy.deepcopy(a)
    for k, v in b.items():
        if isinstance(v, dict) and isinstance(out.get(k), dict):
            out[k] = deep_merge(out[k], v)
        else:
            out[k] = copy.deepcopy(v)
    return out


def set_total(t, keys, v):
    cur = t
    for k in keys[:-1]:
        if not isinstance(cur.get(k), dict):
            cur[k] = {}
        cur = cur[k]
    cur[keys[-1]] = copy.deepcopy(v)


def del_total(t, keys):
    cur = t
    for k in keys[:-1]:
        cur = cur.get(k)
        if not isinstance(cur, dict):
            return
    cur.pop(keys[-1], None)


def leaves(t, pre=()):
    for k, v in t.items():
        if isinstance(v, dict):
            yield from leaves(v, pre + (k,))
        else:
            yield pre + (k,), v


def get_path(t, keys):
    cur = t
    for k in keys:
        if not isinstance(cur, dict) or k not in cur:
            return ABSENT
        cur = cur[k]
    return cur


def env_cast(old, new):
    if isinstance(old, bool):
        return new not in ("0", "")
    if isinstance(old, str) or old is None:
        return new
    if isinstance(old, (list, tuple)):
        raise RefSkip("list setting targeted by an environment variable")
    try:
        return type(old)(new)
    except ValueError:
        raise RefSkip("non-numeric text for a numeric setting")


class RefSkip(Exception):
    """the property does not constrain this situation (don't-care)"""


class RefErr(Exception):
    def __init__(self, kind):
        self.kind = kind


ORDER = ["defaults", "collection", "system", "user", "project", "env", "runtime", "overrides"]


class Ref:
    """reference configuration: lower levels + journal of edits; `tree` is the plain nested dict"""

    def __init__(self, levels=None):
        self.levels = {s: {} for s in ORDER}
        for s, d in (levels or {}).items():
            self.levels[s] = copy.deepcopy(d or {})
        self.journal = []
        self.strict_order = False  # compare iteration order / popitem's choice (C06 judge with order=True)
        self.reborn = set()  # sections in which a deleted key was written again (key order there: see C06 notes)
        self.tree = self.base()
        self.dictwrites = []  # (path of a dict-valued write, target present in the view at write time?, journal length)

    def base(self):
        m = {}
        for s in ORDER:
            m = deep_merge(m, self.levels[s])
        return m

    def replay(self):
        t = self.base()
        for e in self.journal:
            if e[0] == "set":
                set_total(t, e[1], e[2])
            else:
                del_total(t, e[1])
        return t

    def reload(self, slot, data):
        self.levels[slot] = copy.deepcopy(data or {})
        self.tree = self.replay()

    def load_env(self, environ):
        """freshly read environment overrides: which settings exist (and their types) is decided WITHOUT
        whatever a previous environment load contributed"""
        lvl = {}
        self.levels["env"] = {}
        for p, old in leaves(self.replay()):
            var = "_".join(p).upper()
            if var in environ:
                set_total(lvl, list(p), env_cast(old, environ[var]))
        self.reload("env", lvl)

    def order_dont_care(self):
        """sections whose key ORDER falls under known finding C06-rewritten-key-order (an order-only deviation there is
        TAGGED, not ignored): where a deleted key was written again, and at or below a dict-valued write - the view is
        rebuilt by re-merging the levels and re-applying the modifications, so such a key sits at its LEVEL position"""
        dw = [tuple(w[0]) for w in self.dictwrites]
        return lambda p: p in self.reborn or any(p[:len(w)] == w for w in dw)

    def clone(self, into=None):
        r = Ref()
        r.levels = copy.deepcopy(self.levels)
        r.journal = copy.deepcopy(self.journal)
        r.tree = copy.deepcopy(self.tree)
        r.dictwrites = copy.deepcopy(self.dictwrites)
        r.reborn = set(self.reborn)
        r.strict_order = self.strict_order
        return r

    # ---- plain dict operations
    def nav(self, path):
        cur = self.tree
        for k, attr in path:
            if not isinstance(cur, dict):
                raise RefSkip("navigation through a leaf value")
            if k not in cur:
                raise RefErr("attr" if attr else "key")
            cur = cur[k]
        if not isinstance(cur, dict):
            raise RefSkip("operation on a leaf value")
        return cur

    def _set(self, cur, keys, k, v):
        if isinstance(v, dict):
            self.dictwrites.append((keys + [k], k in cur, len(self.journal)))
        if any(e[0] == "del" and e[1] == keys + [k] for e in self.journal):
            self.reborn.add(tuple(keys))
        cur[k] = copy.deepcopy(v)
        self.journal.append(("set", keys + [k], copy.deepcopy(v)))

    def _del(self, cur, keys, k):
        del cur[k]
        self.journal.append(("del", keys + [k]))

    def apply(self, op):
        """expected canonical result of the operation on a plain nested dict (and apply it)"""
        try:
            return self._apply(op)
        except RefErr as e:
            return "E:" + e.kind

    def _apply(self, op):
        n = op["op"]
        if n == "LOAD":
            self.reload(op["slot"], top_ordered(op["data"], op.get("share", {}).get("data")))
            return ABSENT
        if n == "ENV":
            self.load_env(op["env"])
            return ABSENT
        if n in ("LOADU", "EDITSRC", "LOADSAME"):
            self.reload(op["slot"], top_ordered(op["data"], op.get("share", {}).get("data")))
            return ABSENT
        if n == "MERGE":
            return ABSENT
        if n in ("RUNTIME", "PROJECT"):
            self.reload(n.lower(), op["data"] or {})
            return ABSENT
        path = op.get("path", [])
        keys = [k for k, _ in path]
        cur = self.nav(path)
        k = op.get("k")
        if n in ("GI", "GA"):
            if k not in cur:
                raise RefErr("key" if n == "GI" else "attr")
            return "v" + canon(cur[k])
        if n == "GET":
            return "v" + canon(cur[k]) if k in cur else ABSENT
        if n in ("SI", "SA"):
            self._set(cur, keys, k, op["v"])
            return ABSENT
        if n in ("DI", "DA"):
            if k not in cur:
                raise RefErr("key" if n == "DI" else "attr")
            self._del(cur, keys, k)
            return ABSENT
        if n == "POP":
            if k in cur:
                r = "v" + canon(cur[k])
                self._del(cur, keys, k)
                return r
            if "d" in op:
                return "v" + canon(op["d"])
            raise RefErr("key")
        if n == "PI":
            if not cur:
                raise RefErr("key")
            kk = op.get("chosen")
            if kk is None or kk not in cur:
                return "popitem must remove a key that is present (%r of %s)" % (kk, sorted(cur))
            if self.strict_order and not self.order_dont_care()(tuple(keys)) and kk != list(cur)[-1]:
                return "popitem must remove the LAST key of the section (%r of %s)" % (kk, list(cur))
            r = "P%s=%s" % (kk, canon(cur[kk]))
            self._del(cur, keys, kk)
            return r
        if n == "CLR":
            for kk in list(cur):
                self._del(cur, keys, kk)
            return ABSENT
        if n == "SD":
            if k in cur:
                return "v" + canon(cur[k])
            d = op["d"] if "d" in op else None
            self._set(cur, keys, k, d)
            return "v" + canon(d)
        if n == "UPD":
            for src in (op.get("m", {}), op.get("kw", {})):
                for kk, vv in src.items():
                    self._set(cur, keys, kk, vv)
            return ABSENT
        if n == "HAS":
            return "B%d" % (k in cur)
        if n == "LEN":
            return "N%d" % len(cur)
        if n in ("KEYS", "ITER"):
            return "K" + ",".join(sorted(cur))
        if n == "ITEMS":
            return "v" + canon(cur)
        raise ValueError("unknown op " + n)


def diff(impl, ref, pre=()):
    """minimal differing paths between two plain trees: (path, 'impl-only'|'ref-only'|'value')"""
    out = []
    for k in sorted(set(impl) | set(ref)):
        p = pre + (k,)
        if k not in ref:
            out.append((p, "impl-only"))
        elif k not in impl:
            out.append((p, "ref-only"))
        elif isinstance(impl[k], dict) and isinstance(ref[k], dict):
            out += diff(impl[k], ref[k], p)
        elif impl[k] != ref[k] or type(impl[k]) is not type(ref[k]):
            out.append((p, "value"))
    return out


# --------------------------------------------------------------------------- alias scan


def dict_ids(root, seen=None, stop=()):
    """ids of every mutable container reachable from a plain python structure (not descending into `stop`)"""
    seen = {} if seen is None else seen
    stack = [root]
    while stack:
        x = stack.pop()
        if id(x) in stop:
            continue
        if isinstance(x, dict):
            if id(x) in seen:
                continue
            seen[id(x)] = x
            stack.extend(x.values())
        elif isinstance(x, list):
            if id(x) in seen:
                continue
            seen[id(x)] = x
            stack.extend(x)
    return seen


def object_graph_ids(obj, stop=()):
    """ids of every dict / list reachable from an object's instance attributes (no class attributes)"""
    seen = {}
    try:
        attrs = dict(object.__getattribute__(obj, "__dict__"))
    except AttributeError:
        attrs = {}
    for v in attrs.values():
        if isinstance(v, (dict, list)):
            dict_ids(v, seen, stop)
    return seen


# --------------------------------------------------------------------------- running and judging a history


def run_impl(ops, tmpdir=None):
    """Run the history on the real objects.  Returns (impl, results, views): per operation the canonical
    result and the plain views of all objects.  Stops after the first internal error (the object may
    be inconsistent afterwards); `ops` is truncated accordingly by the caller via len(results)."""
    impl = Impl(tmpdir)
    results, views = [], []
    for op in ops:
        r = impl.apply(op)
        results.append(r)
        vs = []
        for c in impl.objs:
            try:
                vs.append(plain(c))
            except Exception as e:
                vs.append("!" + errname(e))
        views.append(vs)
        if is_internal(r) or any(isinstance(v, str) for v in vs):
            break
    return impl, results, views


def rows(results, views):
    """the driver's output format for the same history"""
    return "|".join("#".join([r] + [v if isinstance(v, str) else canon(v) for v in vs]) for r, vs in zip(results, views))


def top_ordered(data, share):
    """the level's data with its top-level keys in the order recorded with a sharing description (no aliasing)"""
    if isinstance(share, dict) and share.get("top") and isinstance(data, dict):
        return {k: data[k] for k in [k for k in share["top"] if k in data] + [k for k in data if k not in share["top"]]}
    return data


def new_ref(op):
    sh = op.get("share", {})
    lv = {"defaults": top_ordered(op["defaults"], sh.get("defaults")), "overrides": top_ordered(op["overrides"], sh.get("overrides"))}
    for s in ("system", "user", "project", "runtime"):
        if op.get(s) is not None:
            lv[s] = op[s]
    return Ref(lv)


def judge(ops, results, views, clone_ref=None, order=False):
    """ORACLE.  Drives one plain nested dict per object with the same operations and compares every
    result and every view.  Returns None (property holds on this history / don't-care reached) or a
    failure record {"at": i, "why": text, "diffs": [...], "refs": [...]} for the FIRST deviation."""
    refs = []
    note = None  # first order-only deviation in a section whose key order the known finding C06-rewritten-key-order covers
    unmerged = set()  # objects right after a caller-side edit / an unmerged load: reads unconstrained until the next merge
    for i, (op, res, vs) in enumerate(zip(ops, results, views)):
        n, o = op["op"], op.get("o", 0)
        if n in ("EDITSRC", "LOADU"):
            unmerged.add(o)
        else:
            unmerged.discard(o)
        try:
            if n in ("NEW", "NEWF"):
                refs.append(new_ref(op))
                refs[-1].strict_order = order
                exp = ABSENT
            elif n == "FRESH":
                refs.append(Ref({"defaults": op["into"]}))
                refs[-1].strict_order = order
                exp = ABSENT
            elif n == "CLONE":
                refs.append((clone_ref or Ref.clone)(refs[o], op.get("into")))
                exp = ABSENT
            else:
                exp = refs[o].apply(op)
        except RefSkip:
            return None
        if is_internal(res):
            return {"at": i, "why": "internal error %s from %s" % (res, op_txt(op)), "diffs": [], "refs": refs, "kind": "internal"}
        if exp != res:
            return {"at": i, "why": "%s returned %s, a nested dict gives %s" % (op_txt(op), res, exp), "diffs": [],
                    "refs": refs, "kind": "output"}
        for j, (r, v) in enumerate(zip(refs, vs)):
            if isinstance(v, str):
                return {"at": i, "why": "object %d unreadable (%s) after %s" % (j, v, op_txt(op)), "diffs": [], "refs": refs,
                        "kind": "internal"}
            if j in unmerged:
                continue
            if v != r.tree or canon(v) != canon(r.tree):
                d = diff(v, r.tree)
                return {"at": i, "obj": j, "why": "after %s object %d reads %s, a nested dict that received the same operations reads %s"
                        % (op_txt(op), j, canon(v), canon(r.tree)), "diffs": d, "refs": refs, "kind": "view", "view": v}
            if order:
                od = order_diff(v, r.tree, r.order_dont_care())
                if od is not None:
                    return {"at": i, "obj": j, "why": "after %s object %d iterates section %s as %s, the nested dict as %s"
                            % (op_txt(op), j, ".".join(od[0]) or "<root>", od[1], od[2]), "diffs": [], "refs": refs,
                            "kind": "order", "view": v}
                od = order_diff(v, r.tree) if note is None else None
                if od is not None:
                    # known finding C06-rewritten-key-order: recorded, the history goes on
                    note = {"at": i, "obj": j, "why": "after %s object %d iterates section %s as %s, the nested dict as %s %s"
                            % (op_txt(op), j, ".".join(od[0]) or "<root>", od[1], od[2], ORDER_TAG), "diffs": [],
                            "refs": refs, "kind": "order-rewritten", "view": v}
    return note


ORDER_TAG = "[rewritten-key-order]"


def order_diff(v, t, skip=(lambda p: False), pre=()):
    """first section whose KEY ORDER differs between two trees with equal content (`skip(path)`: don't-care)"""
    if not skip(pre) and list(v) != list(t):
        return pre, list(v), list(t)
    for k in v:
        if isinstance(v[k], dict) and isinstance(t.get(k), dict):
            r = order_diff(v[k], t[k], skip, pre + (k,))
            if r is not None:
                return r
    return None


def op_txt_cache(op):
    """protocol text for the CACHED model (drv_config lines starting with `C `): handles are explicit"""
    if op["op"] == "HOLD":
        return "HOLD %s %s" % (op["h"], path_txt(op.get("path", [])))
    if op["op"] == "HOP":
        return "HOP %s %s" % (op["h"], op_txt(dict(op["sub"], path=[])))
    return op_txt(op)


def line_cache(ops):
    return "C " + ";".join("%d:%s" % (op.get("o", 0), op_txt_cache(op)) for op in ops)


def judge_handles(ops, tmpdir=None, rows=None):
    """ORACLE for histories with held proxy handles: no internal error; every edit through a live handle is
    effective at the root (Impl._handle_op); results / effects are dict-like (Impl._dict_like; failures of handles
    obtained before a re-merge are tagged = known finding); a clone - whenever made, and once more for every
    object at the end - reads like its original.  Returns why or None.  `rows` (a list) receives, per operation run,
    the result and the views of all objects in the driver's format (correspondence with the cached Lean model)."""
    impl = Impl(tmpdir)
    for op in ops:
        r = impl.apply(op)
        if rows is not None:
            vs = []
            for c in impl.objs:
                try:
                    vs.append(canon(plain(c)))
                except Exception as e:
                    vs.append("!" + errname(e))
            rows.append("#".join([r] + vs))
        if is_internal(r):
            return "internal error %s from %s" % (r, op_txt(op))
        if impl.violation:
            return impl.violation
        if op["op"] == "CLONE" and not r.startswith("E:") and op.get("into") is None and op.get("o", 0) not in impl.stale:
            a, b = canon(plain(impl.objs[op.get("o", 0)])), canon(plain(impl.objs[-1]))
            if a != b:
                return "after %s: clone reads %s, the original %s" % (" ; ".join(op_txt(x) for x in ops[max(0, ops.index(op) - 3):ops.index(op)]), b, a)
    return final_clone_check(impl) or impl.stale_note


def final_clone_check(impl):
    for i, c in enumerate(list(impl.objs)):
        if i in impl.stale:
            continue
        try:
            a, b = canon(plain(c)), canon(plain(c.clone()))
        except Exception as e:
            return "object %d cannot be read / cloned at the end of the history: %s" % (i, errname(e))
        if a != b:
            return "at the end of the history a clone of object %d reads %s, the object itself %s" % (i, b, a)
    return None
