"""Shared machinery for every property check (stdlib only; run with /venv/bin/python).

Pipeline (DESIGN.md section 1.2): translate -> build -> audit -> correspond (+ always-on oracle)
-> adjudicate -> evidence.  Exit codes: 0 held, 1 VIOLATION, 2 infrastructure problem.
"""
import fcntl
import hashlib
import json
import os
import random
import re
import subprocess
import sys
import time
from collections import Counter

VERIF = os.path.dirname(os.path.dirname(os.path.abspath(__file__)))
LEAN = os.path.join(VERIF, "lean")
REPO = os.environ.get("VERIF_REPO", "/repo")
GUARD = "PYINVOKE_INVOKE_VERIF"
OK_AXIOMS = {"propext", "Classical.choice", "Quot.sound"}
BANNED = ["sorry", "admit", "native_decide", "bv_decide", "implemented_by", "unsafe ", "maxHeartbeats 0"]

if REPO not in sys.path:
    sys.path.insert(0, REPO)


def h(obj):
    return hashlib.sha1(json.dumps(obj, sort_keys=True, default=str).encode()).hexdigest()[:16]


class Outcome:
    """What one correspondence+oracle run covered."""

    def __init__(self):
        self.evaluations = 0
        self.distinct = set()
        self.samples = []
        self.disagreements = []  # {"case":…, "impl":…, "model":…}
        self.oracle_failures = []  # {"case":…, "why":…}
        self.hist = Counter()
        self.exhaustive = False
        self.extra = {}
        self.traces = 0  # cases on which model and implementation were compared

    def case(self, case, nontrivial=True, sample_every=0):
        self.evaluations += 1
        if nontrivial:
            self.distinct.add(h(case))
        if len(self.samples) < 6 and (self.evaluations % 97 == 1 or len(self.samples) < 2):
            self.samples.append(case)

    def disagree(self, case, impl, model):
        if len(self.disagreements) < 50:
            self.disagreements.append({"case": case, "impl": impl, "model": model})
        self.hist["disagreement"] += 1

    def fail(self, case, why):
        # keep up to 60 failures per failure class (leading [tag] or leading words) so that a large
        # class (e.g. one matched by a known finding) can never crowd out a different failure
        cls = why.split("]")[0] if why.startswith("[") else " ".join(why.split()[:4])
        tag = why.rstrip()
        if tag.endswith("}") and "{" in tag:  # a trailing {signature} (what a known finding matches) is its own class
            cls += tag[tag.rindex("{"):]
        self._per_class = getattr(self, "_per_class", Counter())
        self._per_class[cls] += 1
        if self._per_class[cls] <= 60 and len(self.oracle_failures) < 3000:
            self.oracle_failures.append({"case": case, "why": why})
        self.hist["oracle_failure"] += 1


class LeanDriver:
    """Runs a line-protocol driver (native exe if built, else `lake env lean --run`)."""

    def __init__(self, name):
        self.name = name
        self.exe = os.path.join(LEAN, ".lake", "build", "bin", name)

    def available(self):
        return os.path.exists(self.exe)

    def run(self, lines, timeout=600):
        data = "".join(l + "\n" for l in lines)
        if self.available():
            cmd = [self.exe]
        else:
            src = "Driver/" + "".join(p.capitalize() for p in self.name.split("_")[1:]) + ".lean"
            cmd = ["lake", "env", "lean", "--run", src]
        p = subprocess.run(cmd, input=data, capture_output=True, text=True, cwd=LEAN, timeout=timeout)
        if p.returncode != 0:
            raise RuntimeError("lean driver %s failed: %s" % (self.name, p.stderr[-2000:]))
        out = p.stdout.split("\n")
        if out and out[-1] == "":
            out.pop()
        if len(out) != len(lines):
            raise RuntimeError("lean driver %s: %d lines in, %d out; stderr=%s" % (self.name, len(lines), len(out), p.stderr[-500:]))
        return out


class Ctx:
    def __init__(self, pid, tier, seed):
        self.pid = pid
        self.tier = tier
        self.seed = seed
        self.rng = random.Random((seed * 1000003) ^ int(hashlib.sha1(pid.encode()).hexdigest()[:8], 16))
        self.thorough = tier == "thorough"
        self.escalated = False
        self.model_ok = True  # False when the Lean build is broken: run oracle only
        self.notes = []

    def n(self, quick, thorough):
        """Budget: number of cases for this tier."""
        return thorough if (self.thorough or self.escalated) else quick


class Hang(Exception):
    pass


def with_timeout(fn, seconds, *a, **kw):
    """Run fn in a daemon thread; raise Hang if it does not come back in time (the thread is abandoned)."""
    import threading
    box = {}

    def target():
        try:
            box["r"] = fn(*a, **kw)
        except BaseException as e:  # noqa
            box["e"] = e
    t = threading.Thread(target=target, daemon=True)
    t.start()
    t.join(seconds)
    if t.is_alive():
        raise Hang("no result after %ss" % seconds)
    if "e" in box:
        raise box["e"]
    return box.get("r")


def guarded_map(fn, items, stall=30):
    """[(item, result)] for fn over items, computed in one daemon thread under a stall watchdog: if a single
    item takes longer than `stall` seconds its result is a Hang instance and the remaining items are skipped."""
    import threading
    import time as _t
    res, state = [], {"i": 0, "t": _t.time(), "done": False}

    def target():
        for i, it in enumerate(items):
            state["i"], state["t"] = i, _t.time()
            try:
                res.append((it, fn(it)))
            except BaseException as e:  # noqa
                res.append((it, e))
        state["done"] = True
    th = threading.Thread(target=target, daemon=True)
    th.start()
    while not state["done"]:
        th.join(0.25)
        if not state["done"] and _t.time() - state["t"] > stall:
            res.append((items[state["i"]], Hang("no result after %ss" % stall)))
            break
    return list(res)


# ----------------------------------------------------------------------------- build / audit

def sh(cmd, cwd=None, timeout=3600, env=None):
    p = subprocess.run(cmd, cwd=cwd, capture_output=True, text=True, timeout=timeout, env=env)
    return p.returncode, p.stdout, p.stderr


class BuildLock:
    def __enter__(self):
        os.makedirs(os.path.join(LEAN, ".lake"), exist_ok=True)
        self.f = open(os.path.join(LEAN, ".lake", "verif.lock"), "w")
        fcntl.flock(self.f, fcntl.LOCK_EX)
        return self

    def __exit__(self, *a):
        fcntl.flock(self.f, fcntl.LOCK_UN)
        self.f.close()


def lake_build(targets):
    """Returns (ok, log)."""
    rc, out, err = sh(["lake", "build"] + list(targets), cwd=LEAN, timeout=3000)
    return rc == 0, (out + err)[-6000:]


def strip_comments(src):
    src = re.sub(r"/-.*?-/", " ", src, flags=re.S)
    src = re.sub(r"--[^\n]*", " ", src)
    return src


def theorem_names(props_file):
    """(namespace-qualified) names of the theorems stated in a Props file, and #examples."""
    src = strip_comments(open(os.path.join(LEAN, props_file)).read())
    ns = []
    names = []
    examples = 0
    for m in re.finditer(r"^\s*(namespace|end|theorem|example)\b\s*([A-Za-z_][\w.']*)?", src, flags=re.M):
        kw, nm = m.group(1), m.group(2)
        if kw == "namespace" and nm:
            ns.append(nm)
        elif kw == "end" and ns and nm == ns[-1]:
            ns.pop()
        elif kw == "theorem" and nm:
            names.append(".".join(ns + [nm]))
        elif kw == "example":
            examples += 1
    return names, examples


def text_scan(files):
    bad = []
    for f in files:
        src = strip_comments(open(f).read())
        for b in BANNED:
            if re.search(r"(?<![\w.])" + re.escape(b.strip()) + r"(?![\w])", src):
                bad.append("%s: %s" % (os.path.relpath(f, LEAN), b.strip()))
        if re.search(r"^\s*axiom\s", src, flags=re.M):
            bad.append("%s: axiom" % os.path.relpath(f, LEAN))
    return bad


def lean_sources(props_files=None, extra_roots=()):
    """The .lean files transitively imported (within this project) by the given files."""
    todo = [os.path.join(LEAN, p) for p in (props_files or [])] + [os.path.join(LEAN, r) for r in extra_roots]
    seen = []
    while todo:
        f = todo.pop()
        if f in seen or not os.path.exists(f):
            continue
        seen.append(f)
        for m in re.finditer(r"^import\s+((?:Invoke|Driver)[\w.]*)", open(f).read(), flags=re.M):
            todo.append(os.path.join(LEAN, m.group(1).replace(".", "/") + ".lean"))
    return seen


def audit(pid, props_files, driver_roots=()):
    """#print axioms for every theorem of the property files.  Returns dict."""
    names = []
    examples = 0
    for pf in props_files:
        n, e = theorem_names(pf)
        names += n
        examples += e
    mods = [pf[:-5].replace("/", ".") for pf in props_files]
    os.makedirs(os.path.join(LEAN, ".lake", "audit"), exist_ok=True)
    af = os.path.join(LEAN, ".lake", "audit", pid + ".lean")
    with open(af, "w") as f:
        for m in mods:
            f.write("import %s\n" % m)
        for n in names:
            f.write("#print axioms %s\n" % n)
    rc, out, err = sh(["lake", "env", "lean", af], cwd=LEAN, timeout=900)
    axioms = {}
    txt = out + err
    for m in re.finditer(r"'([^']+)' depends on axioms: \[([^\]]*)\]", txt):
        axioms[m.group(1)] = sorted(a.strip() for a in m.group(2).replace("\n", " ").split(",") if a.strip())
    for m in re.finditer(r"'([^']+)' does not depend on any axioms", txt):
        axioms[m.group(1)] = []
    problems = []
    if rc != 0:
        problems.append("audit file failed: " + txt[-800:])
    for n in names:
        if n not in axioms:
            problems.append("no axiom report for " + n)
        else:
            extra = set(axioms[n]) - OK_AXIOMS
            if extra:
                problems.append("%s uses %s" % (n, sorted(extra)))
    problems += text_scan(lean_sources(props_files, driver_roots))
    return {"theorems": names, "examples": examples, "axioms": axioms, "problems": problems}


# ----------------------------------------------------------------------------- known findings

def known_findings(pid):
    p = os.path.join(VERIF, "known_findings.json")
    if not os.path.exists(p):
        return []
    return [e for e in json.load(open(p))["findings"] if e["property"] == pid]


# ----------------------------------------------------------------------------- evidence

def write_evidence(pid, tier, seed, wall, coverage, assumptions, violations):
    os.makedirs(os.path.join(VERIF, "evidence"), exist_ok=True)
    ev = {
        "property_id": pid,
        "tier": tier,
        "seed": seed,
        "level": "proof",
        "coverage": coverage,
        "assumptions": assumptions,
        "wall_s": round(wall, 2),
        "violations": violations,
    }
    tmp = os.path.join(VERIF, "evidence", pid + ".json.tmp")
    with open(tmp, "w") as f:
        json.dump(ev, f, indent=1, sort_keys=True, default=str)
    os.replace(tmp, os.path.join(VERIF, "evidence", pid + ".json"))


def write_replay(pid, payload):
    os.makedirs(os.path.join(VERIF, "replays"), exist_ok=True)
    name = "%s-%s.json" % (pid, h(payload))
    path = os.path.join(VERIF, "replays", name)
    with open(path, "w") as f:
        json.dump(payload, f, indent=1, sort_keys=True, default=str)
    return os.path.join("replays", name)
