"""Scripted runners: the REAL `invoke.Runner` logic over a scripted process.

Only the abstract, OS-facing methods are provided; run/_run_body/_finish/wait/_handle_output/
read_proc_output/handle_stdin/respond/_collate_result/stop are the code under test.
"""
import io
import threading

import common  # noqa: F401  (puts /repo on sys.path)
from invoke import Context, Config
from invoke.runners import Runner


class Scripted(Runner):
    """stdout/stderr are lists of byte chunks handed out one per read; the process counts as
    finished once `exit_after` reads have happened in total (default: immediately)."""

    input_sleep = 0.0005

    def __init__(self, context=None, out=(), err=(), exited=0, pty=False, finish_when="start", fail_start=None):
        super().__init__(context or Context(Config()))
        self._out = list(out)
        self._err = list(err)
        self._exited = exited
        self._pty = pty
        self.stdin_writes = []
        self.stdin_closed = 0
        self.started = None
        self.killed = 0
        self._finish_when = finish_when
        self._lock = threading.Lock()
        self._drained = {"out": False, "err": pty}
        self._fail_start = fail_start

    def should_use_pty(self, pty=False, fallback=True):
        return self._pty

    def start(self, command, shell, env):
        if self._fail_start is not None:
            raise self._fail_start
        self.started = (command, shell, dict(env))

    def _read(self, which, chunks, n):
        if chunks:
            c = chunks[0]
            if len(c) > n:
                chunks[0] = c[n:]
                return c[:n]
            chunks.pop(0)
            return c
        self._drained[which] = True
        return None

    def read_proc_stdout(self, n):
        return self._read("out", self._out, n)

    def read_proc_stderr(self, n):
        return self._read("err", self._err, n)

    def _write_proc_stdin(self, data):
        with self._lock:
            self.stdin_writes.append(data)

    def close_proc_stdin(self):
        self.stdin_closed += 1

    @property
    def process_is_finished(self):
        if self._finish_when == "start":
            return True
        return all(self._drained.values())

    def returncode(self):
        return self._exited

    def kill(self):
        self.killed += 1


class Sink(io.StringIO):
    """an output stream that records writes"""
    pass
