"""Deterministic gate scheduler over the REAL `invoke.Runner` threads.

Only the OS-facing methods of `Runner` are replaced (scripted pipes / process / input stream);
`threading.Timer`, `threading.Event`, `time.sleep` and `ExceptionHandlingThread.join` are shimmed
inside this process (and `os.kill` is routed to the scripted child) so that every access to shared
state is a *gate*: the actor parks there until
the scheduler grants it one step.  A schedule is a list of tokens

    main out err stdin timer            one step of that thread
    wo we co ce x<rc> int fo fe bo be   environment: write next stdout/stderr chunk, close a pipe,
                                        exit with status, raise KeyboardInterrupt in the wait loop,
                                        make the next stdout/stderr read raise (fo/fe: an Exception,
                                        bo/be: a BaseException that is not an Exception)

which is also what the Lean model `Inv.run` consumes (Driver/Runner.lean), so both sides execute
the same word.  run/_run_body/_finish/wait/_handle_output/read_proc_output/handle_stdin/
read_our_stdin/respond/_collate_result/_thread_join_timeout/stop/timed_out are the code under test.
"""
import io
import os
import threading
import time as _time
import types

import common  # noqa: F401  (puts /repo on sys.path)
import invoke.runners as R
from invoke import Context, Config
from invoke.runners import Local
from invoke.util import ExceptionHandlingThread

ACTOR = {"handle_stdout": "out", "handle_stderr": "err", "handle_stdin": "stdin"}
FAKE_PID = 424242
JOIN_PATIENCE = 3  # polls before a join-with-timeout gives up (Lean: joinPatience)


class Deadlock(Exception):
    pass


class Abort(BaseException):
    """unwinds parked threads when a run is over"""


class InjectedFault(Exception):
    pass


class InjectedExit(SystemExit):
    """a worker dying of something that is not an `Exception` (e.g. a stream calling sys.exit())"""


class Sched:
    def __init__(self):
        self.cv = threading.Condition()
        self.parked = {}
        self.granted = None
        self.running = None
        self.finished = set()
        self.threads = {}
        self.trace = []
        self.abort = False

    def gate(self, actor, label):
        with self.cv:
            if self.abort:
                raise Abort()
            if self.running == actor:
                self.running = None
            self.parked[actor] = label
            self.cv.notify_all()
            while self.granted != actor:
                if self.abort:
                    self.parked.pop(actor, None)
                    raise Abort()
                self.cv.wait(0.05)
            self.granted = None
            self.running = actor
            del self.parked[actor]
            self.trace.append((actor, label))
            self.cv.notify_all()

    def done(self, actor):
        with self.cv:
            if self.running == actor:
                self.running = None
            self.finished.add(actor)
            self.cv.notify_all()

    def step(self, actor, timeout=5.0):
        """grant one step; returns once the actor is parked again or has finished"""
        with self.cv:
            t0 = _time.time()
            while not (actor in self.parked and self.running is None):
                if actor in self.finished:
                    return False
                if _time.time() - t0 > timeout:
                    raise Deadlock("actor %s never parked; parked=%r running=%r" % (actor, self.parked, self.running))
                self.cv.wait(0.01)
            self.granted = actor
            self.cv.notify_all()
            while self.granted == actor or self.running == actor:
                if _time.time() - t0 > timeout:
                    raise Deadlock("actor %s stuck in its step; parked=%r" % (actor, self.parked))
                self.cv.wait(0.01)
        t = self.threads.get(actor)
        if actor in self.finished and t is not None:
            threading.Thread.join(t, 2.0)  # make is_alive()/is_dead deterministic
        return True

    def wait_parked(self, actors, timeout=5.0):
        t0 = _time.time()
        with self.cv:
            while not set(actors) <= (set(self.parked) | self.finished):
                if _time.time() - t0 > timeout:
                    raise Deadlock("startup: parked=%r finished=%r expected=%r" % (self.parked, self.finished, actors))
                self.cv.wait(0.005)

    def shutdown(self):
        with self.cv:
            self.abort = True
            self.cv.notify_all()


class Env:
    """scripted child process, pipes and input stream"""

    def __init__(self, out=(), err=(), rc=0, hold_open=False):
        self.buf = {"out": [], "err": []}
        self.pending = {"out": list(out), "err": list(err)}
        self.open = {"out": True, "err": True}
        self.fault = {"out": False, "err": False}
        self.written = {"out": b"", "err": b""}
        self.exited = False
        self.rc = None
        self.hold_open = hold_open
        self.intr = False
        self.child_stdin = []
        self.child_stdin_fwd = []
        self.child_stdin_closed = 0
        self.kills = 0
        self.kills_after_return = 0
        self.main_returned = False

    def _exit(self, rc):
        if not self.exited:
            self.exited = True
            self.rc = rc
            if not self.hold_open:
                self.open = {"out": False, "err": False}

    def act(self, tok):
        if tok in ("wo", "we"):
            s = "out" if tok == "wo" else "err"
            if self.pending[s] and self.open[s]:
                self.buf[s].append(self.pending[s].pop(0))
                self.written[s] += self.buf[s][-1]
        elif tok in ("co", "ce"):
            self.open["out" if tok == "co" else "err"] = False
        elif tok.startswith("x"):
            self._exit(int(tok[1:]))
        elif tok == "int":
            self.intr = True
        elif tok in ("fo", "fe"):
            self.fault["out" if tok == "fo" else "err"] = "exc"
        elif tok in ("bo", "be"):
            self.fault["out" if tok == "bo" else "err"] = "base"


def make_classes(sched, env):
    class GThread(ExceptionHandlingThread):
        def _actor_name(self):
            return ACTOR[self.kwargs["target"].__name__]

        def start(self):
            sched.threads[self._actor_name()] = self
            super().start()

        def run(self):
            name = self._actor_name()
            threading.current_thread().actor = name
            try:
                super().run()
            finally:
                sched.done(name)

        def join(self, timeout=None):
            name = self._actor_name()
            n = 0
            while True:
                sched.gate("main", "join:%s" % name)
                if name in sched.finished:
                    threading.Thread.join(self, 2.0)
                    return
                n += 1
                if timeout is not None and n > JOIN_PATIENCE:
                    return

    class GEvent:
        def __init__(self):
            self.flag = False

        def set(self):
            sched.gate("main", "set_finished")
            self.flag = True

        def is_set(self):
            sched.gate(getattr(threading.current_thread(), "actor", "main"), "is_set")
            return self.flag

        def clear(self):
            # per-run reset at the top of a run: no other thread exists yet
            self.flag = False

    class GTimer:
        def __init__(self, interval, fn):
            self.fn = fn
            self.state = "new"

        def start(self):
            self.state = "armed"
            self.t = threading.Thread(target=self._run, daemon=True)
            self.t.start()

        def _run(self):
            threading.current_thread().actor = "timer"
            try:
                sched.gate("timer", "expire")
                if self.state == "cancelled":
                    return
                self.state = "firing"
                self.fn()
                sched.gate("timer", "finish")
                self.state = "done"
            except Abort:
                pass
            finally:
                sched.done("timer")

        def cancel(self):
            sched.gate("main", "cancel")
            if self.state == "armed":
                self.state = "cancelled"

        def is_alive(self):
            sched.gate("main", "timed_out?")
            return self.state in ("armed", "firing")

    class GRunner(Local):
        """the REAL `Local` runner with only its OS-facing primitives replaced: everything that decides
        (run/_finish/wait/stop, the handle_* loops, start_timer/timed_out, `Local.kill`'s bookkeeping)
        is the code under test"""
        input_sleep = 0

        def __init__(self, ctx, pty=False, start_fails=False, read_size=1000):
            super().__init__(ctx)
            self.program_finished = GEvent()
            self._pty = pty
            self._start_fails = start_fails
            self.read_chunk_size = read_size

        def should_use_pty(self, pty=False, fallback=True):
            return self._pty

        def start(self, command, shell, env_):
            if self._start_fails:
                raise OSError("scripted start failure")
            self.pid = FAKE_PID
            self.process = types.SimpleNamespace(pid=FAKE_PID)

        def _read(self, s, n):
            while True:
                sched.gate(s, "read")
                if env.fault[s]:
                    raise (InjectedExit(s) if env.fault[s] == "base" else InjectedFault(s))
                if env.buf[s]:
                    c = env.buf[s][0]
                    if len(c) <= n:
                        env.buf[s].pop(0)
                        return c
                    env.buf[s][0] = c[n:]
                    return c[:n]
                if not env.open[s]:
                    return b""
                # blocked read: stutter (park again)

        def read_proc_stdout(self, n):
            return self._read("out", n)

        def read_proc_stderr(self, n):
            return self._read("err", n)

        def _write_proc_stdin(self, data):
            actor = getattr(threading.current_thread(), "actor", "main")
            sched.gate(actor, "write_stdin")
            env.child_stdin.append(data)
            if actor == "stdin":
                env.child_stdin_fwd.append(data)  # forwarded by the stdin handler (as opposed to an interrupt sent by main)

        def close_proc_stdin(self):
            sched.gate("stdin", "close_stdin")
            env.child_stdin_closed += 1

        @property
        def process_is_finished(self):
            sched.gate("main", "poll")
            if env.intr:
                env.intr = False
                raise KeyboardInterrupt()
            return env.exited

        @property
        def has_dead_threads(self):
            sched.gate("main", "polldead")
            return any(x.is_dead for x in self.threads.values())

        def returncode(self):
            return env.rc

        def kill(self):
            # the Timer thread's second step: the whole of the real `Local.kill` (its bookkeeping and
            # the os.kill it may issue, which lands in `OsShim.kill` below)
            sched.gate("timer", "kill")
            Local.kill(self)

    class OsShim:
        def __getattr__(self, name):
            return getattr(os, name)

        def kill(self, pid, sig):
            assert pid == FAKE_PID, pid
            env.kills += 1
            if env.main_returned:
                env.kills_after_return += 1
            env._exit(-9)

    GRunner.os_shim = OsShim()

    return GThread, GEvent, GTimer, GRunner


class ScriptedIn:
    """no fileno => ready_for_reading() is True and a read asks for 1 char;
    script items: str (data), None (not ready), '' (EOF); exhausted = EOF"""

    def __init__(self, sched, script, tty=False):
        self.s = sched
        self.script = list(script)
        self._tty = tty

    def isatty(self):
        return self._tty

    def read(self, n):
        self.s.gate("stdin", "read")
        return self.script.pop(0) if self.script else ""


_LOCK = threading.Lock()


def run_schedule(schedule, out=(), err=(), in_script=None, in_tty=False, pty=False, hold_open=False,
                 start_fails=False, read_size=1000, explicit_streams=True, asynchronous=False, joins=1, async_via_config=False, **kw):
    """Execute one schedule on the real Runner.  Returns a dict of observations.
    asynchronous: `run(asynchronous=True)` returns a Promise (workers and timer already running); the main thread
    then parks at an extra gate `main:join` before calling `Promise.join()` (Lean: `MainPc.idle`)."""
    with _LOCK:
        sched = Sched()
        env = Env(out=out, err=err, hold_open=hold_open)
        GThread, GEvent, GTimer, GRunner = make_classes(sched, env)
        shim_threading = types.SimpleNamespace(Timer=GTimer, Event=GEvent, Thread=threading.Thread,
                                               local=threading.local, Lock=threading.Lock)
        shim_time = types.SimpleNamespace(sleep=lambda x: None, time=_time.time)
        old = (R.threading, R.time, R.ExceptionHandlingThread, R.os)
        R.threading, R.time, R.ExceptionHandlingThread, R.os = shim_threading, shim_time, GThread, GRunner.os_shim
        obs = {}
        earlier = []
        obs["earlier_results"] = earlier
        try:
            # the asynchronous flag may come from the call or from the configuration (`run.asynchronous`): same behaviour
            cfg = Config(overrides={"run": {"asynchronous": True}}) if (asynchronous and async_via_config) else Config()
            r = GRunner(Context(cfg), pty=pty, start_fails=start_fails, read_size=read_size)
            ins = ScriptedIn(sched, in_script, tty=in_tty) if in_script is not None else False
            out_stream, err_stream = io.StringIO(), io.StringIO()
            import sys as _sys
            old_std = (_sys.stdout, _sys.stderr)
            if explicit_streams:
                kw = dict(kw, out_stream=out_stream, err_stream=err_stream)
            else:
                _sys.stdout, _sys.stderr = out_stream, err_stream

            def main():
                threading.current_thread().actor = "main"
                try:
                    if asynchronous:
                        akw = {} if async_via_config else {"asynchronous": True}
                        promise = r.run("cmd", in_stream=ins, encoding="utf-8", **akw, **kw)
                        sched.gate("main", "join")
                        # further joins of the same promise (`joins` > 1): each but the last is recorded, the main thread
                        # parks at `main:rejoin` before calling `join()` again (Lean: `rejoin`)
                        for _k in range(joins - 1):
                            try:
                                res = promise.join()
                                earlier.append(("return", res.stdout, res.stderr, res.exited))
                            except Abort:
                                return
                            except BaseException as e:  # noqa
                                res = getattr(e, "result", None)
                                earlier.append(("raise", type(e).__name__, res.stdout if res is not None else None,
                                                res.stderr if res is not None else None, res.exited if res is not None else None))
                            sched.gate("main", "rejoin")
                        res = promise.join()
                    else:
                        res = r.run("cmd", in_stream=ins, encoding="utf-8", **kw)
                    obs["result"] = ("return", res.stdout, res.stderr, res.exited)
                except Abort:
                    return
                except BaseException as e:  # noqa
                    res = getattr(e, "result", None)
                    obs["result"] = ("raise", type(e).__name__, res.stdout if res is not None else None,
                                     res.stderr if res is not None else None, res.exited if res is not None else None)
                env.main_returned = True
                # which I/O workers had not finished at the moment run()/join() returned or raised
                obs["alive_at_return"] = sorted(a for a in ("out", "err", "stdin") if a in sched.threads and a not in sched.finished)
                sched.trace.append(("main", "returned"))
                sched.done("main")

            mt = threading.Thread(target=main, daemon=True)
            mt.start()
            expected = set()
            if not start_fails:
                expected = {"main", "out"} | (set() if pty else {"err"})
                if in_script is not None:
                    expected.add("stdin")
                if kw.get("timeout") is not None:
                    expected.add("timer")
            else:
                expected = {"main"}
            sched.wait_parked(expected)
            for tok in schedule:
                if tok in ("main", "out", "err", "stdin", "timer"):
                    if tok in expected:
                        sched.step(tok)
                else:
                    env.act(tok)
                    sched.trace.append(("env", tok))
            # give main a moment to record its outcome if the schedule drove it to the end
            t0 = _time.time()
            while "main" not in sched.finished and mt.is_alive() and _time.time() - t0 < 0.02:
                if "main" in sched.parked:
                    break
                _time.sleep(0.0005)
            obs["main_done"] = "main" in sched.finished
            obs["mirror"] = (out_stream.getvalue(), err_stream.getvalue())
            obs["child_stdin"] = b"".join(env.child_stdin)
            obs["child_stdin_fwd"] = b"".join(env.child_stdin_fwd)
            obs["closes"] = env.child_stdin_closed
            obs["kills"] = env.kills
            obs["kills_after_return"] = env.kills_after_return
            obs["cap"] = ("".join(getattr(r, "stdout", []) or []), "".join(getattr(r, "stderr", []) or []))
            alive = []
            for a in ("out", "err", "stdin"):
                if a in expected and a not in sched.finished:
                    alive.append(a)
            obs["alive"] = alive
            obs["trace"] = ["%s:%s" % t for t in sched.trace]
            obs["in_remaining"] = len(ins.script) if ins else None
            obs["written"] = (env.written["out"], env.written["err"])
            obs["timer_state"] = getattr(getattr(r, "_timer", None), "state", None)
        finally:
            sched.shutdown()
            try:
                _sys.stdout, _sys.stderr = old_std
            except NameError:
                pass
            R.threading, R.time, R.ExceptionHandlingThread, R.os = old
        return obs
