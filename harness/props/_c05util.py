"""Extensions of the scripted runner for C05: the REAL `Runner.run/_run_body/_finish/_collate_result/timed_out/
Promise.join` over a scripted process whose failure causes can be switched on independently:

  * thread exception - the stdin worker (`in`), the stdout reader (`out`) or the stderr reader (`err`) raises;
  * watcher error    - a StreamWatcher raises WatcherError when it sees the marker "W" (written to the stream
                       whose reader is NOT the one that crashes);
  * timeout          - `start_timer` installs a timer object that reports "expired" (`fired`) or "still waiting"
                       (`unfired`); `Runner.timed_out` itself stays the code under test.
"""
import contextlib
import io
import os
import resource
import signal
import subprocess

import common  # noqa: F401
from fakerunner import Scripted
from invoke import Context, Config
from invoke.exceptions import WatcherError, ThreadException, Failure, CommandTimedOut, UnexpectedExit
from invoke.watchers import StreamWatcher


class Boom(Exception):
    pass


class BadIn:
    """an input stream whose first read explodes inside the stdin worker thread"""

    def read(self, n):
        raise Boom("scripted stdin failure")


class Angry(StreamWatcher):
    def submit(self, stream):
        if "W" in stream:
            raise WatcherError("scripted watcher failure")
        return []


class FakeTimer:
    def __init__(self, fired):
        self.fired = fired
        self.cancelled = 0

    def is_alive(self):
        return not self.fired

    def cancel(self):
        self.cancelled += 1


def text_chunks(text, size=7):
    """the bytes of `text` cut into reads of `size` bytes (multi-byte characters may straddle reads)"""
    b = text.encode("utf-8")
    return [b[i:i + size] for i in range(0, len(b), size)]


class Fin(Scripted):
    def __init__(self, code, pty, timer, thread_src, watcher, out_text=None, err_text=None):
        # the watcher marker goes to the reader that does not crash
        out, err = [b"hello "], [] if pty else [b"oops"]
        if out_text is not None:
            out = text_chunks(out_text)
        if err_text is not None and not pty:
            err = text_chunks(err_text)
        if watcher:
            if thread_src == "out":
                err = [b"W"]
            else:
                out = out + [b"W"]
        super().__init__(out=out, err=err, exited=code, pty=pty)
        self._timer_mode = timer
        self._thread_src = thread_src

    def start_timer(self, timeout):
        if timeout is not None:
            self._timer = FakeTimer(self._timer_mode == "fired")

    def read_proc_stdout(self, n):
        if self._thread_src == "out":
            raise Boom("scripted stdout reader failure")
        return super().read_proc_stdout(n)

    def read_proc_stderr(self, n):
        if self._thread_src == "err":
            raise Boom("scripted stderr reader failure")
        return super().read_proc_stderr(n)


RESULT_FIELDS = ("stdout", "stderr", "exited", "command", "shell", "env", "pty", "hide", "encoding")


def result_fields(r):
    return {k: (list(getattr(r, k)) if k == "hide" else getattr(r, k)) for k in RESULT_FIELDS}


def render_problem(obj):
    """str()/repr() of a result or failure must not raise, whatever the command printed"""
    for name, f in (("str", str), ("repr", repr)):
        try:
            f(obj)
        except Exception as e:  # noqa
            return "%s(%s) raised %s: %s" % (name, type(obj).__name__, type(e).__name__, e)
    return None


def run_fin(case, warn=None):
    """Drive the real runner.  Returns dict(kind=…, exited=…, ok=…, result=<fields or None>, reason=…, render=…)."""
    runner = Fin(case["code"], case["pty"], case["timer"], case["thread"], case["watcher"], case.get("out"), case.get("err"))
    kw = dict(warn=case["warn"] if warn is None else warn, hide=case["hide"], encoding="utf-8",
              in_stream=BadIn() if case["thread"] == "in" else False,
              watchers=[Angry()] if case["watcher"] else [])
    if case["timer"] != "none":
        kw["timeout"] = 5
    if case["async"]:
        kw["asynchronous"] = True
    sink = io.StringIO()
    res = exc = None
    with contextlib.redirect_stdout(sink), contextlib.redirect_stderr(sink):
        try:
            res = runner.run(case.get("cmd", "the-command"), **kw)
            if case["async"]:
                res = res.join()
        except (ThreadException, Failure) as e:
            exc = e
    if exc is None:
        return dict(kind="return", exited=res.exited, ok=res.ok, failed=res.failed, truth=bool(res), return_code=res.return_code,
                    result=result_fields(res), reason=None, exact=type(res).__name__, render=render_problem(res))
    if isinstance(exc, ThreadException):
        return dict(kind="ThreadException", exited=None, ok=None, result=None, reason=None, exact="ThreadException")
    kind = ("CommandTimedOut" if isinstance(exc, CommandTimedOut) else "UnexpectedExit" if isinstance(exc, UnexpectedExit) else "Failure")
    return dict(kind=kind, exited=exc.result.exited, ok=exc.result.ok, result=result_fields(exc.result),
                reason=type(exc.reason).__name__ if exc.reason is not None else None, exact=type(exc).__name__,
                render=render_problem(exc))


def canon_fin(o):
    if o["kind"] == "ThreadException":
        return "ThreadException - -"
    return "%s %s %s" % (o["kind"], "none" if o["exited"] is None else o["exited"], "1" if o["ok"] else "0")


# --------------------------------------------------------------------------- real wait statuses

STOP_OR_IGNORED = {"SIGSTOP", "SIGTSTP", "SIGTTIN", "SIGTTOU", "SIGCONT", "SIGCHLD", "SIGCLD", "SIGURG", "SIGWINCH"}


def terminating_signals():
    """numbers of the signals whose default action terminates the process (incl. real-time signals)"""
    out = []
    names = {int(s): s.name for s in signal.Signals}
    for n in range(1, 65):
        if n in (32, 33):  # reserved by glibc (NPTL)
            continue
        if names.get(n) in STOP_OR_IGNORED:
            continue
        out.append(n)
    return out


def kernel_status(kind, n):
    """fork a child that exits with code n / dies from signal n; return the raw wait status from the kernel"""
    pid = os.fork()
    if pid == 0:
        try:
            if kind == "E":
                os._exit(n)
            resource.setrlimit(resource.RLIMIT_CORE, (0, 0))
            try:
                signal.signal(n, signal.SIG_DFL)
            except Exception:
                pass
            try:
                signal.pthread_sigmask(signal.SIG_UNBLOCK, {n})
            except Exception:
                pass
            os.kill(os.getpid(), n)
            os._exit(99)  # the signal did not terminate us
        finally:
            os._exit(98)
    _, st = os.waitpid(pid, 0)
    return st


def local_returncode_pty(status):
    """the real `Local.returncode` (pty branch) on a given raw wait status"""
    from invoke.runners import Local
    r = Local(Context(Config(lazy=True)))
    if not hasattr(r, "status"):
        raise LookupError("Local no longer keeps the raw wait status in `.status`")
    r.using_pty = True
    r.status = status
    return r.returncode()


def reference_status(shell, cmd, pty=False):
    """how the command really ends, obtained without invoke: subprocess for pipes; for pty runs an own
    pty.fork + execve + waitpid (a pty child inherits this process' signal dispositions, e.g. an ignored
    SIGPIPE, whereas subprocess restores them - the TRUE status may therefore differ between the two)"""
    if not pty:
        p = subprocess.run([shell, "-c", cmd], stdin=subprocess.DEVNULL, stdout=subprocess.DEVNULL, stderr=subprocess.DEVNULL)
        return p.returncode
    import pty as _pty
    pid, fd = _pty.fork()
    if pid == 0:
        try:
            os.execve(shell, [shell, "-c", cmd], dict(os.environ))
        finally:
            os._exit(97)
    try:
        while True:
            try:
                if not os.read(fd, 1000):
                    break
            except OSError:
                break
        _, st = os.waitpid(pid, 0)
    finally:
        os.close(fd)
    if os.WIFEXITED(st):
        return os.WEXITSTATUS(st)
    if os.WIFSIGNALED(st):
        return -os.WTERMSIG(st)
    return None


def run_real(cmd, pty, warn, asynchronous=False):
    """`invoke.Context().run` with the Local runner on a real child"""
    c = Context(Config(lazy=True))
    kw = dict(warn=warn, hide=True, in_stream=False, pty=pty, fallback=False)
    try:
        if asynchronous:
            r = c.run(cmd, asynchronous=True, **kw).join()
        else:
            r = c.run(cmd, **kw)
        return dict(kind="return", exited=r.exited, ok=r.ok, pty=r.pty)
    except UnexpectedExit as e:
        return dict(kind="UnexpectedExit", exited=e.result.exited, ok=e.result.ok, pty=e.result.pty)
    except Failure as e:
        return dict(kind=type(e).__name__, exited=e.result.exited, ok=e.result.ok, pty=e.result.pty)


def pty_available():
    try:
        import pty as _pty
        m, s = _pty.openpty()
        os.close(m)
        os.close(s)
        return True
    except Exception:
        return False


# --------------------------------------------------------------------------- Program.run

def program_exit(spec):
    """SystemExit.code of the real Program.run for a task body described by `spec` (0 when it returns normally;
    "crash:<Exception>" when something other than SystemExit escapes Program.run).

    spec: {"body": "success" | "exit" | "ue" | "real" | "parse" | "scripted" | "realout", ...}
      scripted: the task runs a failing SCRIPTED child (the real Runner over scripted output) that printed spec["out"] /
                spec["err"] and exits with spec["want"], under hide=spec["hide"]
      realout:  the task runs a REAL child that prints the texts (passed through the environment) and exits"""
    from invoke import Program, Collection, task, Exit
    from invoke.runners import Result

    body = spec["body"]

    @task
    def probe(c):
        if body == "exit":
            raise Exit(spec.get("message"), spec.get("code"))
        if body == "ue":
            raise UnexpectedExit(Result(command=spec.get("cmd", "x"), exited=spec["exited"], hide=tuple(spec.get("hide", ())),
                                        stdout=spec.get("out", ""), stderr=spec.get("err", "")))
        if body == "real":
            c.run(spec["cmd"], hide=True, in_stream=False)
        if body == "scripted":
            r = Scripted(c, out=text_chunks(spec["out"]), err=text_chunks(spec["err"]), exited=spec["want"], pty=spec.get("pty", False))
            r.run(spec.get("cmd", "the-command"), hide=spec["hide"], in_stream=False, encoding="utf-8")
        if body == "realout":
            c.run('printf "%s" "$VERIF_OUT"; printf "%s" "$VERIF_ERR" >&2; exit ' + str(spec["want"]), hide=spec["hide"],
                  in_stream=False, encoding="utf-8", env={"VERIF_OUT": spec["out"], "VERIF_ERR": spec["err"]})

    argv = spec["argv"] if body == "parse" else ["inv", "probe"]
    p = Program(namespace=Collection(probe))
    sink = io.StringIO()
    with contextlib.redirect_stdout(sink), contextlib.redirect_stderr(sink):
        try:
            p.run(list(argv), exit=True)
        except SystemExit as e:
            return 0 if e.code is None else e.code
        except Exception as e:  # noqa - the CLI died with a traceback instead of exiting
            return "crash:%s: %s" % (type(e).__name__, str(e)[:80])
    return 0
