"""C12 case families beyond the small-scope ones of c12.py.

LONG   one occurrence of the pattern spans far more than any read (1-3k characters): fixed-width patterns
       `O.{k}C` (inside the Lean theorem's family, compared with the model) and variable-width ones (`O[^..]*C`,
       `O.*C`, `O.*?C`; oracle only), through `Responder.submit`, `FailingResponder.submit` (long sentinel) and the
       real Runner threads (default and small read_chunk_size, stdout and stderr, two watchers).
HIST   histories of `sudo` / `run` commands on ONE Context: every command's stdin receives exactly the responses
       its own watchers produce on its own output, whatever ran before; `config.run.watchers` is never modified.

Texts are kept as run-length segments `[[piece, count], ...]` and chunkings as a cycled list of read sizes, so
that a replay file stays readable although the text has thousands of characters.
"""
import re
from collections import Counter

import common

WHOLE = 10 ** 6  # a read size larger than any text = "delivered in one read"

# ------------------------------------------------------------------ texts, chunkings, patterns


def expand(segs):
    return "".join(s * n for s, n in segs)


def cut(text, sizes):
    """successive reads of the given sizes (cycled); never an empty read"""
    out, i, j = [], 0, 0
    while i < len(text):
        k = max(1, sizes[j % len(sizes)])
        out.append(text[i:i + k])
        i += k
        j += 1
    return out


def reads_of(script_chunks, rcs):
    """what the Runner's reader thread sees: every scripted chunk handed out in pieces of at most read_chunk_size"""
    out = []
    for c in script_chunks:
        out.extend(c[i:i + rcs] for i in range(0, len(c), rcs))
    return out


def rx_of(spec):
    """regex source of a pattern spec: {"t":"fixed","o":opener,"k":n,"c":closer} = opener, n arbitrary characters,
    closer;  {"t":"rx","rx":source} = any regex (no anchors/look-around, never matching the empty string)"""
    if spec["t"] == "fixed":
        return re.escape(spec["o"]) + (".{%d}" % spec["k"] if spec["k"] else "") + re.escape(spec["c"])
    return spec["rx"]


def enc_spec(spec):
    """Lean driver encoding of a fixed-width spec (classes, run-length `A*k`)"""
    toks = ["L%d" % ord(ch) for ch in spec["o"]]
    if spec["k"]:
        toks.append("A*%d" % spec["k"])
    toks += ["L%d" % ord(ch) for ch in spec["c"]]
    return ",".join(toks)


def enc_chars(s):
    return ".".join(str(ord(c)) for c in s)


def enc_chunks(chunks):
    return "|".join(enc_chars(c) for c in chunks)


def spans(rx, text):
    return [m.span() for m in re.finditer(rx, text, re.S)]


def reference_stable(rx, chunks, ref):
    """Is the one-shot reference itself independent of where the text ends, at every read boundary of this
    chunking?  (occurrences of the text seen so far = an initial part of the occurrences of the whole text.)
    Always true for fixed-width patterns (Lean: starts_append); for a variable-width regex a longer text can
    change an occurrence already answered (`X.*Y` on X.Y.Y) - there no online responder can agree with the
    one-shot reference and the property does not constrain the case."""
    seen = ""
    for c in chunks[:-1]:
        seen += c
        sp = spans(rx, seen)
        if sp != ref[:len(sp)]:
            return False
    return True


def per_read(ref, chunks):
    """number of occurrences completed in each read"""
    out, pos, j = [], 0, 0
    for c in chunks:
        pos += len(c)
        n = 0
        while j < len(ref) and ref[j][1] <= pos:
            j += 1
            n += 1
        out.append(n)
    return out


# ------------------------------------------------------------------ LONG: generators

PAIRS = [("a", "b"), ("X", "Y"), ("Proceed", "[y/n]"), ("<<", ">>")]
FILL = ["x", "pkg-0\n", " .", "line of output\n", "y\n", "-"]  # no character of any opener/closer


def fill(rng, n):
    """filler of exactly n characters (free of opener/closer characters) as segments"""
    if n <= 0:
        return []
    piece = rng.choice(FILL)
    segs = []
    if n // len(piece):
        segs.append([piece, n // len(piece)])
    if n % len(piece):
        segs.append(["x", n % len(piece)])
    return segs


def gen_spec(rng, fixed):
    o, c = rng.choice(PAIRS)
    if fixed:
        k = rng.choice([rng.randint(1001, 1100), rng.randint(1100, 2200), rng.randint(1100, 2200), rng.randint(40, 999), 1000, 999,
                        rng.randint(4097, 9000)])
        return {"t": "fixed", "o": o, "k": k, "c": c}
    eo, ec = re.escape(o), re.escape(c)
    body = rng.choice(["[^%s%s]*" % (re.escape(o[0]), re.escape(c[0])), ".*?", ".*", "[^z]*", "[^%s]*" % re.escape(c[0]),
                       "[^%s%s]*" % (re.escape(o[0]), re.escape(c[0])), ".*?"])
    return {"t": "rx", "rx": eo + body + ec}


def opener_closer(spec):
    if spec["t"] == "fixed":
        return spec["o"], spec["c"]
    for o, c in PAIRS:
        if spec["rx"].startswith(re.escape(o)) and spec["rx"].endswith(re.escape(c)):
            return o, c
    raise ValueError(spec)


def gen_text(rng, spec):
    """segments of a text built around occurrences of `spec` whose span is (mostly) > 1000 characters"""
    o, c = opener_closer(spec)

    def span_len():
        if spec["t"] == "fixed":
            return spec["k"]
        return rng.choice([rng.randint(1001, 1300), rng.randint(1300, 2600), rng.randint(1300, 2600), rng.randint(1, 900), 1000,
                           rng.randint(4097, 9000)])

    def occ(n=None):
        return [[o, 1]] + fill(rng, span_len() if n is None else n) + [[c, 1]]

    pre = fill(rng, rng.choice([0, 0, rng.randint(1, 60), rng.randint(900, 1200)]))
    tail = fill(rng, rng.choice([0, 1, rng.randint(1, 60), rng.randint(900, 1600)]))
    shape = rng.choice(["one", "one", "one", "two", "pending", "decoy-closer", "two-openers", "near-miss", "short+long"])
    if shape == "one":
        segs = pre + occ() + tail
    elif shape == "two":
        segs = pre + occ() + fill(rng, rng.randint(0, 40)) + occ() + tail
    elif shape == "pending":
        segs = pre + [[o, 1]] + fill(rng, rng.randint(1000, 2500))
    elif shape == "decoy-closer":
        segs = [[c, 1]] + pre + occ() + tail
    elif shape == "two-openers":
        segs = pre + [[o, 1]] + fill(rng, rng.randint(1, 1200)) + occ() + tail
    elif shape == "near-miss":
        n = span_len()
        segs = pre + occ(n + rng.choice([-1, 1])) + fill(rng, 3) + occ(n) + tail
    else:
        segs = pre + occ(rng.randint(0, 30)) + fill(rng, rng.randint(0, 1100)) + occ() + tail
    return [s for s in segs if s[1] > 0]


def gen_sizes(rng, n):
    """read sizes (cycled) for a text of n characters"""
    kind = rng.randint(0, 11)
    if kind == 0:
        return [1] if n <= 4000 else [64]  # every submit re-scans: keep very long texts affordable
    if kind <= 4:
        return [rng.choice([5, 7, 64, 100, 333, 999, 1000, 1001, 1500])]
    if kind == 5:
        return [WHOLE]
    if kind == 6:
        return [rng.randint(1, max(1, n - 1)), WHOLE]  # exactly one cut
    if kind == 7:
        return [max(1, n - 1), 1]  # the last character alone
    return [rng.randint(1, 700) for _ in range(rng.randint(2, 5))]


SHORT = [{"t": "fixed", "o": "pw:", "k": 0, "c": ""}, {"t": "fixed", "o": "ok?", "k": 0, "c": ""}, {"t": "fixed", "o": "x", "k": 1, "c": "x"}]


def gen_long(rng, path):
    fixed = rng.random() < 0.5
    spec = gen_spec(rng, fixed)
    if path == "resp":
        segs = gen_text(rng, spec)
        return {"kind": "long", "path": "resp", "pat": spec, "text": segs, "sizes": gen_sizes(rng, len(expand(segs)))}
    if path == "fail":
        # short literal prompt, then (perhaps) a long-span sentinel
        prompt = {"t": "fixed", "o": "pw:", "k": 0, "c": ""}
        body = gen_text(rng, spec)
        segs = fill(rng, rng.randint(0, 20)) + ([["pw:", 1]] if rng.random() < 0.85 else []) + fill(rng, rng.randint(0, 30)) + body
        if rng.random() < 0.25:
            segs = body + [["pw:", 1]] + fill(rng, rng.randint(0, 50))
        return {"kind": "long", "path": "fail", "pat": prompt, "sent": spec, "text": segs, "sizes": gen_sizes(rng, len(expand(segs)))}
    # runner: the long-span watcher and a short one, stdout and/or stderr, reads cut by read_chunk_size
    second = rng.choice(SHORT)
    streams = {"out": [], "err": []}
    for name in rng.choice([["out"], ["err"], ["out", "err"]]):
        streams[name] = gen_text(rng, spec) + ([[second["o"], 1]] if rng.random() < 0.5 else [])
    rcs = rng.choice([None, None, None, 1, 5, 7, 100, 999, 1001, 2000])
    case = {"kind": "long", "path": "runner", "pat": spec, "pat2": second, "out": streams["out"], "err": streams["err"], "rcs": rcs}
    for name in ("out", "err"):
        n = len(expand(streams[name]))
        # mostly the whole output sits in the pipe and the reader's chunk size alone decides the reads
        case["sizes_" + name] = [WHOLE] if rng.random() < 0.7 else gen_sizes(rng, n)
    for name in ("out", "err"):  # every read re-joins and re-scans the buffer: keep it affordable
        n = len(expand(case[name]))
        if (rcs == 1 and n > 2200) or (rcs in (1, 5, 7) and n > 4500):
            case["rcs"] = 7 if n <= 4500 else 100
    return case


# ------------------------------------------------------------------ LONG: implementation adapters + oracles

def impl_responder_rx(rx, chunks):
    from invoke.watchers import Responder
    r = Responder(rx, "y")
    seen, out = "", []
    for c in chunks:
        seen += c
        out.append(len(list(r.submit(seen))))
    return out


def impl_failing_rx(rx, sx, chunks):
    from invoke.watchers import FailingResponder
    from invoke.exceptions import ResponseNotAccepted
    r = FailingResponder(rx, "y", sx)
    seen, out = "", []
    for c in chunks:
        seen += c
        try:
            out.append(str(len(list(r.submit(seen)))))
        except ResponseNotAccepted:
            out.append("!")
            break
    return out


def oracle_counts_rx(rx, chunks, counts):
    """(why, constrained)"""
    whole = "".join(chunks)
    ref = spans(rx, whole)
    if not reference_stable(rx, chunks, ref):
        return None, False
    if sum(counts) != len(ref):
        where = ["%d..%d" % s for s in ref[:4]]
        return ("responses=%d but the whole text (%d chars, delivered in %d reads) has %d non-overlapping occurrence(s) at %s"
                % (sum(counts), len(whole), len(chunks), len(ref), where)), True
    want = per_read(ref, chunks)
    if counts != want:
        first = next(i for i, (a, b) in enumerate(zip(counts, want)) if a != b)
        return "read %d: %d response(s), but %d occurrence(s) are completed by that read" % (first, counts[first], want[first]), True
    return None, True


def oracle_failing_rx(rx, sx, chunks, trace):
    whole = "".join(chunks)
    raised = "!" in trace
    if not re.search(sx, whole, re.S):
        return "raised although the sentinel never occurs" if raised else None
    # must raise: an answered occurrence lies wholly in reads < i and a sentinel wholly in reads >= i, none before
    pre = ""
    for i in range(1, len(chunks)):
        pre += chunks[i - 1]
        if re.search(sx, pre, re.S):
            break
        if re.search(rx, pre, re.S) and re.search(sx, whole[len(pre):], re.S):
            if not raised:
                return "sentinel arrived in output after a response (reads >= %d of %d) but nothing was raised" % (i, len(chunks))
            break
    return None


def impl_runner_long(case):
    from fakerunner import Scripted, Sink
    from invoke.watchers import Responder
    from invoke.exceptions import Failure
    ws = [Responder(rx_of(case["pat"]), "1"), Responder(rx_of(case["pat2"]), "2")]
    script = {n: cut(expand(case[n]), case["sizes_" + n]) for n in ("out", "err")}
    r = Scripted(out=[c.encode() for c in script["out"]], err=[c.encode() for c in script["err"]])
    if case["rcs"]:
        r.read_chunk_size = case["rcs"]
    raised = None
    try:
        r.run("cmd", watchers=ws, hide=True, in_stream=False, encoding="utf-8", out_stream=Sink(), err_stream=Sink())
    except Failure as e:
        raised = "Failure:" + type(e.reason).__name__
    return [w.decode() for w in r.stdin_writes], raised, r.read_chunk_size, script


def check_runner_long(case):
    try:
        writes, raised, rcs, script = common.with_timeout(impl_runner_long, 60, case)
    except common.Hang:
        return "[hang] the run did not return"
    if raised:
        return "plain responders raised %s" % raised
    for key, tag in (("pat", "1"), ("pat2", "2")):
        rx = rx_of(case[key])
        want, ok = 0, True
        for n in ("out", "err"):
            reads = reads_of(script[n], rcs)
            ref = spans(rx, "".join(reads))
            ok = ok and reference_stable(rx, reads, ref)
            want += len(ref)
        if not ok:
            continue
        got = writes.count(tag)
        if got != want:
            return ("watcher %s (%s): %d response(s) reached stdin, the output has %d occurrence(s) (stdout+stderr counted "
                    "separately; read_chunk_size=%d)" % (tag, rx, got, want, rcs))
    if sorted(set(writes) - {"1", "2"}):
        return "unexpected bytes on stdin: %r" % sorted(set(writes) - {"1", "2"})
    return None


def replay_long(case):
    if case["path"] == "runner":
        why = check_runner_long(case)
        return why is None, why or "ok"
    chunks = cut(expand(case["text"]), case["sizes"])
    rx = rx_of(case["pat"])
    if case["path"] == "resp":
        counts = impl_responder_rx(rx, chunks)
        why, constrained = oracle_counts_rx(rx, chunks, counts)
        return why is None, why or "ok sum=%d constrained=%s" % (sum(counts), constrained)
    tr = impl_failing_rx(rx, rx_of(case["sent"]), chunks)
    why = oracle_failing_rx(rx, rx_of(case["sent"]), chunks, tr)
    return why is None, why or "ok %s" % tr[-3:]


def run_long(ctx, out, drv):
    """LONG family.  Returns nothing; records into `out`."""
    rng = ctx.rng
    cases = [gen_long(rng, "resp") for _ in range(ctx.n(400, 3000))] + [gen_long(rng, "fail") for _ in range(ctx.n(200, 1500))]
    lines, idx = [], []
    for i, c in enumerate(cases):
        chunks = cut(expand(c["text"]), c["sizes"])
        c["_chunks"] = chunks
        if c["pat"]["t"] == "fixed" and c.get("sent", c["pat"])["t"] == "fixed" and len(chunks) <= 80:
            if c["path"] == "resp":
                lines.append("resp %s %s" % (enc_spec(c["pat"]), enc_chunks(chunks)))
            else:
                lines.append("fail %s %s %s" % (enc_spec(c["pat"]), enc_spec(c["sent"]), enc_chunks(chunks)))
            idx.append(i)
    model = dict(zip(idx, drv.run(lines))) if ctx.model_ok and lines else {}
    for i, c in enumerate(cases):
        chunks = c.pop("_chunks")
        rx = rx_of(c["pat"])
        whole = "".join(chunks)
        if c["path"] == "resp":
            counts = impl_responder_rx(rx, chunks)
            got = ",".join(map(str, counts))
            why, constrained = oracle_counts_rx(rx, chunks, counts)
            ref = spans(rx, whole)
            widest = max([e - s for s, e in ref], default=0)
            nontrivial = constrained and bool(ref)
            out.hist["long_resp"] += 1
            out.hist["long_resp_unconstrained" if not constrained else
                     "long_resp_span>1000_split" if widest > 1000 and len(chunks) > 1 else
                     "long_resp_no_occurrence" if not ref else "long_resp_span<=1000_or_whole"] += 1
        else:
            sx = rx_of(c["sent"])
            tr = impl_failing_rx(rx, sx, chunks)
            got = ",".join(tr)
            why = oracle_failing_rx(rx, sx, chunks, tr)
            nontrivial = re.search(sx, whole, re.S) is not None
            out.hist["long_fail_raised" if "!" in tr else "long_fail_quiet_sentinel" if nontrivial else "long_fail_quiet"] += 1
        out.case(c, nontrivial)
        if i in model:
            out.traces += 1
            out.hist["long_model_compared"] += 1
            if model[i] != got:
                out.disagree(c, got[:200], model[i][:200])
        if why:
            out.fail(c, ("[long-span Responder] " if c["path"] == "resp" else "[long-span FailingResponder] ") + why)
    for _ in range(ctx.n(100, 800)):
        c = gen_long(rng, "runner")
        out.case(c, True)
        out.hist["long_runner"] += 1
        out.hist["long_runner_rcs=%s" % (c["rcs"] or "default")] += 1
        why = check_runner_long(c)
        if why:
            out.fail(c, "[long-span Runner] " + why)


# ------------------------------------------------------------------ HIST: several commands on one Context

SENTINEL = "Sorry, try again.\n"
CONF_POOL = [["ok? ", "C1\n"], ["continue", "C2\n"], ["[sudo] password: ", "C3\n"]]
KW_POOL = [["ok? ", "K1\n"], ["root", "K2\n"], ["name:", "K3\n"]]


def gen_step_text(rng, prompt):
    pieces = [prompt, prompt, "root\n", "ok? ", "usage: sudo -p '%s' ...\n" % prompt, "continue", "name:", "hello\n", "x" * rng.randint(1, 30)]
    t = "".join(rng.choice(pieces) for _ in range(rng.randint(0, 4)))
    if rng.random() < 0.12:
        t += SENTINEL + rng.choice(["", prompt])
    return t


def gen_hist(rng):
    prompt = rng.choice(["[sudo] password: "] * 3 + ["pw? "])
    configured = [] if rng.random() < 0.6 else rng.sample(CONF_POOL, rng.randint(1, 2))
    shape = rng.choice([["sudo", "sudo"], ["sudo", "run"], ["run", "sudo", "run"], ["sudo", "sudo", "run"], ["sudo", "run", "sudo"],
                        [rng.choice(["sudo", "run"]) for _ in range(rng.randint(2, 4))]])
    steps = []
    # the caller may keep ONE watchers list of its own and hand it to several commands
    shared_kw = rng.sample(KW_POOL, rng.randint(0, 2)) if rng.random() < 0.25 else None
    for op in shape:
        st = {"op": op, "out": [], "err": [], "rcs": rng.choice([1, 5, 1000])}
        if op == "sudo":
            st["password"] = rng.choice([None, None, "p2", "p3"])
        st["kw"] = None if rng.random() < 0.7 else rng.sample(KW_POOL, rng.randint(0, 2))
        if shared_kw is not None and rng.random() < 0.7:
            st["kw"] = "shared"
        where = rng.choice(["out", "err", "both", "err"]) if op == "sudo" else rng.choice(["out", "out", "both"])
        for n in ("out", "err"):
            if where in (n, "both"):
                t = gen_step_text(rng, prompt)
                if op == "sudo" and n == "err" and rng.random() < 0.7 and prompt not in t:
                    t = prompt + t
                if t:
                    st[n] = [t] if rng.random() < 0.6 else cut(t, [rng.choice([1, 2, 3, 5]) for _ in range(3)])
        steps.append(st)
    case = {"kind": "hist", "prompt": prompt, "configured": configured, "steps": steps}
    if shared_kw is not None:
        case["shared_kw"] = shared_kw
    return case


def run_hist(case):
    """Run the history on one real Context; returns per step {"writes", "raised", "conf_same"}"""
    from fakerunner import Scripted
    from invoke import Context, Config
    from invoke.watchers import Responder
    from invoke.exceptions import AuthFailure, Failure
    pending, made = [], []

    class R(Scripted):
        def __init__(self, ctx):
            st = pending[0]
            super().__init__(ctx, out=[c.encode() for c in st["out"]], err=[c.encode() for c in st["err"]], finish_when="drained")
            self.read_chunk_size = st["rcs"]
            made.append(self)
    conf_ws = [Responder(re.escape(p), r) for p, r in case["configured"]]
    shared = [Responder(re.escape(p), r) for p, r in case.get("shared_kw") or []]  # ONE list object for the whole history
    cfg = Config(overrides={"sudo": {"password": "pw", "prompt": case["prompt"]}, "runners": {"local": R},
                            "run": {"watchers": list(conf_ws)}})
    c = Context(cfg)
    before = list(c.config.run.watchers)  # whatever objects the configuration holds: they must stay the same ones
    shared_before = list(shared)
    res = []
    for st in case["steps"]:
        pending[:] = [st]
        del made[:]
        kwargs = {"hide": True, "in_stream": False}
        if st["kw"] == "shared":
            kwargs["watchers"] = shared  # the caller re-uses its own list
        elif st["kw"] is not None:
            kwargs["watchers"] = [Responder(re.escape(p), r) for p, r in st["kw"]]  # a fresh list for every command
        if st["op"] == "sudo" and st.get("password") is not None:
            kwargs["password"] = st["password"]
        raised = None
        try:
            (c.sudo if st["op"] == "sudo" else c.run)("cmd", **kwargs)
        except AuthFailure:
            raised = "AuthFailure"
        except Failure as e:
            raised = "Failure:" + type(e.reason).__name__
        now = list(c.config.run.watchers)
        same = len(now) == len(before) and all(a is b for a, b in zip(now, before))
        kw_same = len(shared) == len(shared_before) and all(a is b for a, b in zip(shared, shared_before))
        res.append({"writes": [w.decode() for r in made for w in r.stdin_writes], "raised": raised, "conf_same": same,
                    "conf_len": len(now), "kw_same": kw_same, "kw_len": len(shared)})
    return res


def step_watchers(case, st):
    """(pattern text, response) of the watchers THIS command asked for"""
    ws = [tuple(w) for w in (case["configured"] if st["kw"] is None else case["shared_kw"] if st["kw"] == "shared" else st["kw"])]
    if st["op"] == "sudo":
        ws.append((case["prompt"], (st.get("password") or "pw") + "\n"))
    return ws


def expected_step(case, st):
    """(Counter of responses | None = don't care, exception: None | "AuthFailure" | "?" = don't care)"""
    want = Counter()
    streams = ["".join(st["out"]), "".join(st["err"])]
    for pat, resp in step_watchers(case, st):
        for t in streams:
            n = t.count(pat)  # literals: non-overlapping occurrences
            if n:
                want[resp] += n
    if st["op"] != "sudo" or not any(SENTINEL in t for t in streams):
        return want, None
    # the sudo sentinel occurs: a raise is demanded when it arrives in a read after the read that completed a prompt
    for n in ("out", "err"):
        reads = reads_of(st[n], st["rcs"])
        for i in range(1, len(reads)):
            pre, post = "".join(reads[:i]), "".join(reads[i:])
            if case["prompt"] in pre and SENTINEL in post and SENTINEL not in pre:
                return None, "AuthFailure"
    return None, "?"


def check_hist(case):
    return eval_hist(case)[0]


def eval_hist(case):
    """(why | None, per-step results | None)"""
    try:
        res = common.with_timeout(run_hist, 60, case)
    except common.Hang:
        return "[hang] a command of the history did not return", None
    return judge_hist(case, res), res


def judge_hist(case, res):
    names = " ; ".join(s["op"] + ("(password=%s)" % s["password"] if s.get("password") else "") for s in case["steps"])
    conf_why = None
    for i, (st, r) in enumerate(zip(case["steps"], res)):
        want, exc = expected_step(case, st)
        where = "history [%s], command %d (%s, read_chunk_size=%d)" % (names, i + 1, st["op"], st["rcs"])
        if exc is None and r["raised"]:
            return "[history] %s: raised %s although no failure sentinel of its own watchers occurs" % (where, r["raised"])
        if exc == "AuthFailure" and r["raised"] != "AuthFailure":
            return "[history] %s: the sudo sentinel arrived after the password was sent but %s was raised, not AuthFailure" % (where, r["raised"])
        if want is not None and Counter(r["writes"]) != want:
            return ("[history] %s: stdin received %r; its own watchers %r on its own output demand %r"
                    % (where, sorted(r["writes"]), step_watchers(case, st), sorted(want.elements())))
        if not r.get("kw_same", True) and conf_why is None:
            conf_why = "[history-config] %s: the watchers list handed in by the caller was modified by the command (%d given, now %d)" % (
                where, len(case.get("shared_kw") or []), r["kw_len"])
        if not r["conf_same"] and conf_why is None:
            conf_why = "[history-config] %s: config.run.watchers was modified by the command (%d configured, now %d)" % (where, len(case["configured"]), r["conf_len"])
    return conf_why


def enc_lit(s):
    return ",".join("L%d" % ord(ch) for ch in s)


def hist_lines(case):
    """two driver lines (stdout reads, stderr reads) for a history without the sudo sentinel"""
    conf = ";".join(enc_lit(p) for p, _ in case["configured"]) or "-"
    lines = []
    for n in ("out", "err"):
        cmds = []
        for st in case["steps"]:
            kwl = case["shared_kw"] if st["kw"] == "shared" else st["kw"]
            kw = "~" if kwl is None else (";".join(enc_lit(p) for p, _ in kwl) or "-")
            reads = enc_chunks(reads_of(st[n], st["rcs"]))
            cmds.append(("s:%s:%s:%s" % (enc_lit(case["prompt"]), kw, reads)) if st["op"] == "sudo" else "r:%s:%s" % (kw, reads))
        lines.append("hist %s %s" % (conf, " ".join(cmds)))
    return lines


def hist_impl_canon(case, res):
    """per command, per watcher (in order) the number of its responses on stdin - comparable with the model when
    the responses of the command's watchers are pairwise different"""
    out = []
    for st, r in zip(case["steps"], res):
        cnt = Counter(r["writes"])
        out.append([cnt[resp] for _, resp in step_watchers(case, st)])
    return out


def run_hists(ctx, out, drv):
    rng = ctx.rng
    cases = [gen_hist(rng) for _ in range(ctx.n(300, 3000))]
    lines, idx = [], []
    for i, c in enumerate(cases):
        if not any(SENTINEL in "".join(st["out"]) + "".join(st["err"]) for st in c["steps"]):
            lines += hist_lines(c)
            idx.append(i)
    model = drv.run(lines) if ctx.model_ok and lines else []
    model_of = {i: (model[2 * j], model[2 * j + 1]) for j, i in enumerate(idx)} if model else {}
    failures = []
    for i, c in enumerate(cases):
        out.case(c, True)
        ops = [s["op"] for s in c["steps"]]
        out.hist["hist"] += 1
        out.hist["hist_" + ">".join(o[0] for o in ops[:3]) + ("+" if len(ops) > 3 else "")] += 1
        out.hist["hist_configured_%s" % ("empty" if not c["configured"] else "nonempty")] += 1
        if any(a["op"] == "sudo" and b.get("kw") is None and a.get("kw") is None for a, b in zip(c["steps"], c["steps"][1:])) and not c["configured"]:
            out.hist["hist_sudo_then_default_watchers_cmd_empty_conf"] += 1
        why, res = eval_hist(c)
        if why:
            failures.append((c, why))
        if i in model_of and not why:
            # model: per stream, per command, per watcher -> add the two streams
            def parse(s):
                return [[int(x) for x in part.split(",")] if part else [] for part in s.split("/")]
            a, b = parse(model_of[i][0]), parse(model_of[i][1])
            want = [[x + y for x, y in zip(u, v)] for u, v in zip(a, b)]
            got = hist_impl_canon(c, res)
            distinct = all(len({r for _, r in step_watchers(c, st)}) == len(step_watchers(c, st)) for st in c["steps"])
            if distinct:
                out.traces += 1
                out.hist["hist_model_compared"] += 1
                if got != want:
                    out.disagree(c, got, want)
    # report what the command's stdin received before the (less telling) modified configuration
    for c, why in sorted(failures, key=lambda f: f[1].startswith("[history-config]")):
        out.fail(c, why)
