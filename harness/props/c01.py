"""C01 - every spelling of an intended invocation parses to exactly that invocation.

By-construction generator: (task signatures, intended chain of calls with values, one spelling of it in the
documented forms).  REAL task functions are built with exec, the REAL `Task.get_arguments()` /
`Collection.to_contexts()` / `Parser(contexts, initial).parse_argv` are run, the real contexts are serialised into
the line protocol of `drv_spell` (so the Lean model parses with the same contexts), and for a share of the cases the
whole `invoke.Program` runs end to end with recording task bodies.

Oracle (states the property, nothing more): per call, delivered kwargs == intended kwargs (known by construction),
typed, declared defaults for everything unmentioned, one context per call in order (no token attributed to a
neighbour, two occurrences of one task independent).
"""
import contextlib
import io
import itertools

import common
from common import Outcome, LeanDriver

ID = "C01"
PROPS = ["Invoke/Props/C01.lean"]
TARGETS = ["drv_spell"]
DRIVER_ROOTS = ["Driver/Spell.lean"]
GENERATED = []
RULE = ("case = (task signatures, initial-context kind, chain of calls with the intended kwargs, one spelling = argv); "
        "spellings are built by construction from the documented forms (long/short, '=', spaced, glued, combined short "
        "block, --no- inverse, positional token or positional by flag, repeated list / counter flags, bare or valued "
        "optional-value flag, name or alias, any admissible item order, chains of 1-4 calls incl. the same task twice); "
        "non-trivial = at least one parameter is mentioned; distinct = distinct (signatures, argv) pairs; a further share "
        "of randomly damaged argvs is only compared model-vs-implementation (oracle: don't care)")
TRUSTED = ["Lean 4.33 kernel", "axioms propext/Classical.choice/Quot.sound only",
           "harness/props/c01.py generator, serialisation of the real contexts and canonicalisation",
           "model Invoke/Model/Parser.lean hand-written, tied to invoke/parser/*.py by correspondence on every run",
           "CPython int(), copy.deepcopy, Lexicon alias lookup (modelled, not verified)"]
ASSUMPTIONS = ["the theorem parse_spelling_partial is about parser contexts; the step signature -> contexts "
               "(Task.get_arguments / Collection.to_contexts) is taken from the real code on every case (property C09 covers it)",
               "side conditions of the theorem (ItemsOK/ChainOK) are the documented ambiguity rules of "
               "concepts/invoking-tasks.rst plus the property's own 'values do not collide with a flag or task name'; "
               "the share of generated cases inside them is reported as theorem_coverage",
               "int values are ASCII sign+digits (no underscores/whitespace forms of int())"]
LEVEL_TEXT = ("Lean 4 proof (parse_spelling_partial / parse_spelling_checked, occurrences_independent, "
              "defaults_for_unmentioned, typed_value) that in the parser model every chain of calls spelled with any "
              "admissible sequence of documented items parses to exactly one fresh context per call carrying exactly the "
              "intended typed values; the model is tied to invoke.parser on every run by a differential correspondence "
              "check over by-construction spellings on real Task/Collection contexts, plus a direct oracle (delivered "
              "kwargs == intended kwargs) on Parser.parse_argv and on Program.run end to end")
TECHNIQUE = ("Lean 4 theorem over all contexts x chains x admissible item sequences (invariants Ready/Pending/POpt, one "
             "lemma per token form, induction over items and calls) + model/implementation correspondence + by-construction oracle")

# ----------------------------------------------------------------------------------------------- signatures

KINDS = ["req", "str", "int", "none", "btrue", "bfalse", "opt", "optd", "list", "counter", "int0"]
DEFAULT_SRC = {"int0": "0", "str": "'dflt'", "int": "3", "none": "None", "btrue": "True", "bfalse": "False", "opt": "None",
               "optd": "'od'", "list": "None", "counter": "0"}
DEFAULT_VAL = {"int0": 0, "req": None, "str": "dflt", "int": 3, "none": None, "btrue": True, "bfalse": False, "opt": None,
               "optd": "od", "list": [], "counter": 0}
VOCAB = ["name", "num", "n", "flag", "force", "quiet", "lst", "cnt", "opt", "a_b", "pos1", "pos2", "v", "verbose",
         "my_list", "x", "log", "fmt", "f", "nn"]
POSVOCAB = ["env", "region", "tag", "host", "port", "src", "dst", "pos1", "pos2", "x"]
TASKNAMES = ["t1", "t2", "build", "clean", "deploy"]
VALUES = ["x", "val", "5", "a=b", "two words", "", "=", "=x", "-x", "--foo", "-", "-5", "v1", "été", "--name", "-zq", "--foo=1",
          "-n", "--", "0", "name", "a-b", "subject\n\nbody", "line1\nline2", "0x1F", "08"]
INTVALS = ["5", "0", "12", "-5", "+7", "007", "08", "-007", "000", "0012"]


def dashed(p):
    return p.replace("_", "-")


def long_flag(p):
    d = dashed(p)
    return ("--" if len(d) > 1 else "-") + d


def task_path(t):
    """names of the nested collections the task lives in ([] = root); old cases say `sub: True` for ["ns"]"""
    if t.get("path") is not None:
        return list(t["path"])
    return ["ns"] if t.get("sub") else []


def cli_name(t):
    return ".".join(task_path(t) + [t["name"]])


def cli_alias(t, a):
    return ".".join(task_path(t) + [a])


def task_function(tasks, i, rec, funcs):
    """the python function behind task i; a twin (`twin_of`) wraps the VERY SAME function object as its original"""
    root = i
    while tasks[root].get("twin_of") is not None:
        root = tasks[root]["twin_of"]
    if root not in funcs:
        t = tasks[root]
        req = [p for p, k in t["params"] if k == "req"]
        opt = [(p, k) for p, k in t["params"] if k != "req"]
        sig = ", ".join(["c"] + req + ["%s=%s" % (p, DEFAULT_SRC[k]) for p, k in opt])
        body = "_rec.append((%r, {%s}))" % (cli_name(t), ", ".join("%r: %s" % (p, p) for p, _ in t["params"]))
        fname = "f_" + t["name"].replace("-", "_")
        ns = {"_rec": rec}
        exec("def %s(%s):\n    %s\n" % (fname, sig, body), ns)
        funcs[root] = ns[fname]
    return funcs[root]


def make_task(tasks, i, rec, funcs):
    from invoke import Task
    t = tasks[i]
    late = t.get("alias_via") == "add"      # aliases handed to Collection.add_task instead of to the Task
    task = Task(task_function(tasks, i, rec, funcs), name=t.get("task_name", t["name"]),
                aliases=() if late else tuple(t["aliases"]), auto_shortflags=t["auto_short"],
                iterable=[p for p, k in t["params"] if k == "list"],
                incrementable=[p for p, k in t["params"] if k == "counter"],
                optional=[p for p, k in t["params"] if k in ("opt", "optd")])
    return task, (tuple(t["aliases"]) if late else None)


def all_paths(tasks):
    """every collection path needed (prefix-closed), shortest first"""
    paths = []
    for t in tasks:
        p = task_path(t)
        for n in range(1, len(p) + 1):
            if p[:n] not in paths:
                paths.append(p[:n])
    return sorted(paths, key=len)


def inspect_collection(coll, kind):
    """the ways a namespace is looked at before it is complete"""
    from invoke.parser import Parser
    if kind == "bool":
        bool(coll)
    elif kind == "names":
        dict(coll.task_names)
    elif kind == "contexts":
        coll.to_contexts()
    else:
        try:
            Parser(contexts=coll.to_contexts()).parse_argv([])
        except Exception:  # noqa - an incomplete namespace may be unparseable; only the look matters
            pass


def assembled_history(tasks):
    """the plain order: every collection filled, then attached bottom-up; nothing is inspected on the way"""
    ops = [["create", p] for p in all_paths(tasks)] + [["task", i] for i in range(len(tasks))]
    ops += [["attach", p] for p in sorted(all_paths(tasks), key=len, reverse=True)]
    return ops


def incremental_history(tasks, rng):
    """a random assembly order with inspections in between: sub-collections attached first and filled later (or the
    other way round), tasks added after an enclosing collection was already looked at, at every depth"""
    paths = all_paths(tasks)
    todo = [["create", p] for p in paths] + [["attach", p] for p in paths] + [["task", i] for i in range(len(tasks))]
    created, ops = [[]], []
    while todo:
        ready = []
        for op in todo:
            if op[0] == "create":
                ok = True
            elif op[0] == "attach":
                ok = op[1] in created and op[1][:-1] in created
            else:
                ok = task_path(tasks[op[1]]) in created
            if ok:
                ready.append(op)
        # prefer attaching early: that is the history in which an enclosing collection can go stale
        att = [op for op in ready if op[0] == "attach"]
        op = rng.choice(att) if att and rng.random() < 0.6 else rng.choice(ready)
        todo.remove(op)
        ops.append(op)
        if op[0] == "create":
            created.append(op[1])
        if rng.random() < 0.6:
            target = rng.choice(created)
            if rng.random() < 0.5:
                target = target[:rng.randint(0, len(target))]       # an enclosing collection (often the root)
            if target in created:
                ops.append(["inspect", target, rng.choice(["bool", "names", "contexts", "parse"])])
    return ops


def build_collection(tasks, rec, history=None):
    """tasks: list of dicts {name, aliases, auto_short, params:[[pname, kind]], path | sub[, alias_via]}.
    `history` = the order in which the namespace is assembled and looked at.  Returns the real root Collection."""
    from invoke import Collection
    ops = history if history is not None else assembled_history(tasks)
    colls = {(): Collection()}
    funcs = {}
    for op in ops:
        if op[0] == "create":
            colls[tuple(op[1])] = Collection(op[1][-1])
        elif op[0] == "attach":
            colls[tuple(op[1][:-1])].add_collection(colls[tuple(op[1])])
        elif op[0] == "task":
            t = tasks[op[1]]
            task, late_aliases = make_task(tasks, op[1], rec, funcs)
            kw = {}
            if late_aliases is not None:
                kw["aliases"] = late_aliases
            if t.get("task_name", t["name"]) != t["name"]:
                kw["name"] = t["name"]          # bound under another name than the Task's own
            colls[tuple(task_path(t))].add_task(task, **kw)
        else:
            inspect_collection(colls[tuple(op[1])], op[2])
    return colls[()]


def make_initial(kind):
    from invoke.parser import ParserContext
    if kind == "none":
        return None
    if kind == "empty":
        return ParserContext()
    from invoke import Program
    return ParserContext(args=Program().core_args())


# ----------------------------------------------------------------------------------------------- protocol

def enc(s):
    return ".".join(str(ord(ch)) for ch in s)


def enc_default(d):
    if d is None:
        return "n"
    if isinstance(d, bool):
        return "b1" if d else "b0"
    if isinstance(d, int):
        return "i%d" % d
    if isinstance(d, list):
        return "l"
    return "s" + enc(str(d))


def enc_arg(a):
    k = {str: "str", int: "int", bool: "bool", list: "list"}.get(a.kind, "str")
    return "/".join([",".join(enc(n) for n in a.names), k, enc_default(a.default), "1" if a.positional else "0",
                     "1" if a.optional else "0", "1" if a.incrementable else "0", enc(a.attr_name) if a.attr_name else "_"])


def enc_ctx(c):
    args = list(c.args.values())
    return "~".join([enc(c.name) if c.name else "_", ",".join(enc(a) for a in c.aliases) or "_",
                     ";".join(enc_arg(a) for a in args) or "_"])


def enc_item(it):
    t = it[0]
    if t in ("S", "E"):
        return "%s:%s:%s" % (t, enc(it[1]), enc(it[2]))
    if t == "G":
        return "G:%s:%s" % (enc(it[1][1]), enc(it[2]))
    if t in ("T", "I", "O"):
        return "%s:%s" % (t, enc(it[1]))
    if t == "B":
        return "B:%s" % enc(it[1])
    return "P:%s" % enc(it[1])


def item_tokens(it):
    t = it[0]
    if t == "S":
        return [it[1], it[2]]
    if t == "E":
        return [it[1] + "=" + it[2]]
    if t == "G":
        return [it[1] + it[2]]
    if t == "B":
        return ["-" + it[1]]
    return [it[1]]


PYDEFAULT = {"int0": "i0", "req": "e", "str": "s" + ".".join(str(ord(ch)) for ch in "dflt"), "int": "i3", "none": "n", "btrue": "b1",
             "bfalse": "b0", "opt": "n", "optd": "s" + ".".join(str(ord(ch)) for ch in "od"), "list": "n", "counter": "i0"}


def enc_decl(t):
    """the SIGNATURE of a task (parameters with their declared defaults + decorator options), in declaration order"""
    params = [pk for pk in t["params"] if pk[1] == "req"] + [pk for pk in t["params"] if pk[1] != "req"]
    names = lambda kinds: ",".join(enc(p) for p, k in t["params"] if k in kinds) or "_"
    return "~".join([enc(cli_name(t)), ";".join("%s:%s" % (enc(p), PYDEFAULT[k]) for p, k in params) or "_",
                     names(("opt", "optd")), names(("list",)), names(("counter",)), "1" if t["auto_short"] else "0"])


def enc_sitem(it):
    """a spelling item as a mention of a PARAMETER (python name) — the signature-level view of the same item"""
    t = it[0]
    if t in ("S", "E"):
        p = it[3]
        return "%s%s:%s:%s" % ("L" if it[1] == long_flag(p) else "S", t, enc(p), enc(it[2]))
    if t == "G":
        return "SG:%s:%s" % (enc(it[3]), enc(it[2]))
    if t == "T":
        return "%s:%s" % ("FL" if it[1] == long_flag(it[2]) else "FS", enc(it[2]))
    if t == "I":
        return "NF:%s" % enc(it[2])
    if t == "O":
        return "%s:%s" % ("BL" if it[1] == long_flag(it[2]) else "BS", enc(it[2]))
    if t == "B":
        return "B:%s" % ";".join(enc(p) for p in it[2])
    return "P:%s:%s" % (enc(it[2]), enc(it[1]))


def proto_line(initial, contexts, argv, chain, ign=False, tasks=None):
    ch = sg = sch = "_"
    if chain is not None:
        ch = "+".join(",".join([enc(c["task"])] + [enc_item(it) for it in c["items"]]) for c in chain) or "_"
        if tasks is not None:
            by = dict((cli_name(t), t) for t in tasks)
            if all(c.name in by for c in contexts):
                sg = "+".join(enc_decl(by[c.name]) for c in contexts) or "_"
                sch = "+".join(",".join([enc(c["task"])] + [enc_sitem(it) for it in c["items"]]) for c in chain) or "_"
    return "P %d %s %s %s %s %s %s" % (1 if ign else 0, enc_ctx(initial) if initial is not None else "-",
                                       "+".join(enc_ctx(c) for c in contexts) or "_",
                                       ",".join("t" + enc(t) for t in argv) or "_", ch, sg, sch)


def show(v):
    if v is None:
        return "None"
    if isinstance(v, bool):
        return "b1" if v else "b0"
    if isinstance(v, int):
        return "i%d" % v
    if isinstance(v, list):
        return "l[" + ",".join(enc(str(x)) for x in v) + "]"
    return "s" + enc(str(v))


def canon_result(res):
    out = []
    for c in res:
        kv = sorted((enc(a.name), show(a.value)) for a in c.args.values())
        out.append(enc(c.name or "") + "{" + ";".join("%s=%s" % p for p in kv) + "}")
    return "OK " + " ".join(out) + " U[" + ",".join(enc(u) for u in res.unparsed) + "] R[" + enc(res.remainder) + "]"


def run_parser(parser, argv):
    """-> (canonical string, [(name, kwargs)] or None, error text)"""
    from invoke.exceptions import ParseError
    tokens = list(argv)  # the caller's command line: ONE list object, handed to the parser twice
    try:
        res = parser.parse_argv(tokens)
    except ParseError as e:
        return "ERR parse", None, "ParseError: %s" % e
    except Exception as e:  # noqa
        return "ERR other:" + type(e).__name__, None, "%s: %s" % (type(e).__name__, e)
    ctxs = list(res)[1:] if parser.initial is not None else list(res)
    first = canon_result(res)
    # the same command line (the very same list object) spells the same invocation the second time too
    try:
        again = canon_result(parser.parse_argv(tokens))
    except Exception as e:  # noqa
        again = "%s: %s" % (type(e).__name__, e)
    if again != first:
        return "ERR reparse", None, "the same command-line list parsed a second time gave %s (first time: %s)" % (again[:200], first[:200])
    return first, [(c.name, dict(c.as_kwargs)) for c in ctxs], None


def canon_model(line):
    body = line.split(" # ")[0]
    if body.startswith("ERR parse"):
        return "ERR parse"
    return body


_CFG = []


def no_dedupe_config():
    """Config class whose only difference is tasks.dedupe = False (the same task twice must run twice)"""
    if not _CFG:
        from invoke import Config

        class NoDedupe(Config):
            @staticmethod
            def global_defaults():
                d = Config.global_defaults()
                d["tasks"]["dedupe"] = False
                return d
        _CFG.append(NoDedupe)
    return _CFG[0]


def run_program(coll, rec, argv):
    from invoke import Program
    del rec[:]
    err = io.StringIO()
    with contextlib.redirect_stderr(err), contextlib.redirect_stdout(io.StringIO()):
        try:
            Program(namespace=coll, version="0", config_class=no_dedupe_config()).run(["inv"] + list(argv), exit=False)
        except SystemExit as e:
            return None, "SystemExit(%s) %s" % (e.code, err.getvalue().strip()[:200])
        except Exception as e:  # noqa
            return None, "%s: %s" % (type(e).__name__, e)
    if err.getvalue().strip():
        return list(rec), err.getvalue().strip()[:200]
    return list(rec), None


# ----------------------------------------------------------------------------------------------- oracle

def oracle(chain, delivered, err, where):
    """the property: one context per call, in order, each with exactly the intended typed kwargs"""
    if delivered is None:
        return "%s refused an admissible spelling: %s" % (where, err)
    if len(delivered) != len(chain):
        return "%s produced %d task invocations, intended %d (%s)" % (where, len(delivered), len(chain), err or "")
    for i, (call, (name, kw)) in enumerate(zip(chain, delivered)):
        if name != call["primary"]:
            return "%s: call #%d is task %r, intended %r" % (where, i, name, call["primary"])
        want = call["intended"]
        if sorted(kw) != sorted(want):
            return "%s: call #%d (%s) has parameters %s, intended %s" % (where, i, name, sorted(kw), sorted(want))
        for p in sorted(want):
            if show(kw[p]) != show(want[p]):
                return "%s: call #%d (%s): parameter %s delivered %r, intended %r" % (where, i, name, p, kw[p], want[p])
    return None


# ----------------------------------------------------------------------------------------------- spelling

class TaskView:
    """what the generator needs to know about one real task context"""

    def __init__(self, t, ctx, all_names, coreflags=()):
        self.coreflags = set(coreflags)
        self.t = t
        self.ctx = ctx
        self.kind = dict((p, k) for p, k in t["params"])
        self.params = [p for p, _ in t["params"]]
        self.positional = [a.name for a in ctx.positional_args]  # attr names, in filling order
        self.long = {}
        self.short = {}
        for p in self.params:
            a = ctx.args[dashed(p)]
            self.long[p] = long_flag(p)
            self.short[p] = ["-" + n for n in a.names if len(n) == 1 and ("-" + n) != self.long[p]]
        self.flagset = set(ctx.flags.keys()) | set(ctx.flags.aliases.keys()) | set(ctx.inverse_flags.keys())
        self.all_names = all_names

    def flags(self, p):
        return [self.long[p]] + self.short[p]


def value_ok(tv, v, how, optional):
    """the property's own domain: values do not collide with a flag of the task; documented ambiguity rules"""
    if v in tv.flagset:
        return False
    if how in ("spaced", "pos") and v == "--":
        return False
    if how == "pos" and v.startswith("-"):
        # a flag-like positional value is taken literally only if it is a single piece (the parser splits `-xyz` and
        # `--a=b` before looking at it) and is not a core flag
        if "=" in v or not (v.startswith("--") or len(v) <= 2) or v in tv.coreflags:
            return False
    if optional:
        # documented ("Resolving ambiguity"): not a task name; a flag-like token is stored literally unless it is
        # (or pre-splits into) a legitimate flag of the task
        if v in tv.all_names:
            return False
        if v.startswith("-") and (v.partition("=")[0] in tv.flagset or v[:2] in tv.flagset):
            return False
        # a token spelled like a core flag belongs to the core: it is not the value of an optional-value flag
        if v in tv.coreflags or (v.startswith("-") and (v.partition("=")[0] in tv.coreflags or v[:2] in tv.coreflags)):
            return False
    if how == "glued" and (v == "" or v[0] == "="):
        return False
    return True


def param_options(tv, p, rng=None, full=False):
    """all (or, with rng, one random) ways to mention parameter p: list of (items, effect) where effect maps the
    intended value; items are protocol items tagged with the parameter(s) they set"""
    k = tv.kind[p]
    opts = []

    def valforms(v, optional=False, positional_token=False):
        res = []
        for fl in tv.flags(p):
            if value_ok(tv, v, "spaced", optional):
                res.append(("S", fl, v, p))
            if value_ok(tv, v, "eq", optional):
                res.append(("E", fl, v, p))
            if len(fl) == 2 and value_ok(tv, v, "glued", optional):
                res.append(("G", fl, v, p))
        if positional_token and value_ok(tv, v, "pos", False):
            res.append(("P", v, p))
        return res

    if k == "req":
        vals = ["x", "a=b"] if full else [rng.choice(VALUES + tv.all_names)]
        for v in vals:
            for f in valforms(v, positional_token=p in tv.positional):
                opts.append(([f], v))
        if not opts:
            opts.append(([("P", "x", p)] if p in tv.positional else [("S", tv.long[p], "x", p)], "x"))
        return opts
    opts.append(([], DEFAULT_VAL[k]))
    if k in ("str", "none"):
        vals = ["val", "a=b"] if full else [rng.choice(VALUES + tv.all_names)]
        for v in vals:
            for f in valforms(v):
                opts.append(([f], v))
    elif k in ("int", "int0"):
        vals = ["5", "-5"] if full else [rng.choice(INTVALS)]
        for v in vals:
            for f in valforms(v):
                opts.append(([f], int(v)))
    elif k in ("opt", "optd"):
        vals = ["val"] if full else [rng.choice(VALUES + tv.all_names)]
        for v in vals:
            for f in valforms(v, optional=True):
                opts.append(([f], v))
        for fl in tv.flags(p):
            opts.append(([("O", fl, p)], True))
    elif k == "bfalse":
        for fl in tv.flags(p):
            opts.append(([("T", fl, p)], True))
    elif k == "btrue":
        opts.append(([("I", "--no-" + dashed(p), p)], False))
        if not full:
            opts.append(([("T", tv.long[p], p)], True))
    elif k == "list":
        pool = ["one", "two"] if full else [rng.choice(VALUES + tv.all_names) for _ in range(3)]
        for n in (1, 2) if full else (1, 2, 3):
            vs = pool[:n]
            if full:
                formsets = [[f for f in valforms(v)] for v in vs]
                for combo in itertools.product(*[fs[:3] if n > 1 else fs for fs in formsets]):
                    opts.append((list(combo), list(vs)))
            else:
                its = []
                for v in vs:
                    fs = valforms(v)
                    if not fs:
                        its = None
                        break
                    its.append(rng.choice(fs))
                if its:
                    opts.append((its, list(vs)))
    elif k == "counter":
        for n in (1, 2, 3):
            if full and n == 3:
                continue
            if full:
                for fl in tv.flags(p):
                    opts.append(([("T", fl, p)] * n, n))
            else:
                opts.append(([("T", rng.choice(tv.flags(p)), p) for _ in range(n)], n))
    return opts


def merge_blocks(tv, items, rng, first=None):
    """combine some single-character toggles into combined short blocks `-abc`; `first` = a toggle that should be the
    FIRST letter of a block whenever a block can be formed"""
    shorts = [i for i, it in enumerate(items) if it[0] == "T" and len(it[1]) == 2 and it[1][1] != "="]
    if len(shorts) < 2 or (first is None and rng.random() < 0.35):
        return items
    k = rng.randint(2, len(shorts))
    chosen = rng.sample(shorts, k)
    if first is not None:
        fi = [i for i in shorts if items[i] == first]
        chosen = [i for i in chosen if i not in fi[:1]]
        chosen = fi[:1] + (chosen or [i for i in shorts if i != fi[0]][:1])
    block = ("B", "".join(items[i][1][1] for i in chosen), [items[i][2] for i in chosen])
    rest = [it for i, it in enumerate(items) if i not in chosen]
    return rest + [block]


def admissible(tv, seq, last_call):
    """documented ordering rules (side conditions 1-3 of DESIGN C01)"""
    filled = set()
    n = len(seq)
    for idx, it in enumerate(seq):
        t = it[0]
        unfilled = [q for q in tv.positional if q not in filled]
        if t == "P":
            if not unfilled or unfilled[0] != it[2]:
                return False
            filled.add(it[2])
        elif t in ("S", "E", "G"):
            p = it[3]
            if tv.kind[p] in ("opt", "optd") and unfilled:
                return False
            if p in tv.positional:
                filled.add(p)
        elif t == "O":
            if unfilled:
                return False
            nxt = seq[idx + 1] if idx + 1 < n else None
            if nxt is None:
                if not last_call:
                    return False
            elif nxt[0] == "P":
                return False
    return not [q for q in tv.positional if q not in filled]


def canonical_order(tv, items, last_call):
    """a sure admissible order: positionals by flag, positional tokens in order, other flags, bare optionals not last"""
    posflag = [it for it in items if it[0] in ("S", "E", "G") and it[3] in tv.positional]
    postok = sorted([it for it in items if it[0] == "P"], key=lambda it: tv.positional.index(it[2]))
    bare = [it for it in items if it[0] == "O"]
    rest = [it for it in items if it not in posflag and it not in postok and it not in bare]
    if bare and not last_call and not rest:
        return None
    if not last_call and bare:
        return posflag + postok + rest[:-1] + bare + rest[-1:]
    return posflag + postok + rest + bare


def intended_of(tv, seq):
    want = dict((p, (list(DEFAULT_VAL[tv.kind[p]]) if tv.kind[p] == "list" else DEFAULT_VAL[tv.kind[p]])) for p in tv.params)
    for it in seq:
        t = it[0]
        if t in ("S", "E", "G"):
            p, v = it[3], it[2]
            k = tv.kind[p]
            if k == "list":
                want[p] = want[p] + [v]
            elif k in ("int", "int0"):
                want[p] = int(v)
            else:
                want[p] = v
        elif t == "P":
            want[it[2]] = it[1]
        elif t == "O":
            want[it[2]] = True
        elif t == "I":
            want[it[2]] = False
        elif t in ("T", "B"):
            for p in ([it[2]] if t == "T" else it[2]):
                if tv.kind[p] == "counter":
                    want[p] = want[p] + 1
                else:
                    want[p] = True
    return want


def arrange(tv, items, rng):
    """a random item order that respects 'a bare value fills the first positional still without a value': the bare
    values in slot order; a positional given by flag anywhere before the first bare value of a LATER slot (so flags
    come before, between and after the bare values); everything else anywhere"""
    slot = dict((p, i) for i, p in enumerate(tv.positional))
    seq = sorted([it for it in items if it[0] == "P"], key=lambda it: slot[it[2]])
    posflags = [it for it in items if it[0] in ("S", "E", "G") and it[3] in slot]
    rest = [it for it in items if it[0] != "P" and it not in posflags]
    rng.shuffle(posflags)
    for it in posflags:
        limit = len(seq)
        for idx, other in enumerate(seq):
            if other[0] == "P" and slot[other[2]] > slot[it[3]]:
                limit = idx
                break
        seq.insert(rng.randint(0, limit), it)
    for it in rest:
        seq.insert(rng.randint(0, len(seq)), it)
    return seq


EQVALS = ["a=b", "k=v=w", "x=", "a=b=", "1=2", "été=ü"]


def shared_items(tv, rng):
    """for the shared-letter parameter: the spelling forms on which a confusion of the tasks' flag tables would show —
    the letter as FIRST letter of a combined short token (`-fq`, `-vv`) where it takes no value, a glued value
    containing `=` (`-fa=b`) where it takes one.  Returns (items, block-first item or None) or None."""
    p = tv.t.get("shared")
    if p is None or p not in tv.kind:
        return None
    fl = ([f for f in tv.flags(p) if len(f) == 2] or [None])[0]
    if fl is None:
        return None
    k = tv.kind[p]
    if k in ("bfalse", "counter"):
        n = rng.randint(2, 3) if k == "counter" else 1
        return [("T", fl, p)] * n, ("T", fl, p)
    v = rng.choice(EQVALS)
    if not value_ok(tv, v, "glued", False):
        return None
    vs = [v] if k != "list" else [v, rng.choice(EQVALS)]
    vs = [x for x in vs if value_ok(tv, x, "glued", False)]
    return [("G", fl, x, p) for x in vs], None


def spell_call(tv, name_token, rng, last_call):
    items = []
    first = None
    boosted = shared_items(tv, rng) if rng.random() < 0.8 else None
    # which of the required parameters are given by flag: ANY subset, chosen as a whole (uniform over the subsets, so
    # runs of consecutive by-flag positionals at the start, in the middle and at the end are all frequent)
    by_flag = dict((p, rng.random() < 0.5) for p in tv.positional)
    for p in tv.params:
        if boosted is not None and p == tv.t.get("shared"):
            items += boosted[0]
            first = boosted[1]
            continue
        opts = param_options(tv, p, rng)
        if tv.kind[p] != "req" and rng.random() < 0.35:
            continue
        pos_opts = [o for o in opts if o[0] and o[0][0][0] == "P"]
        flag_opts = [o for o in opts if o[0] and o[0][0][0] != "P"]
        if p in by_flag:
            pool = (flag_opts if by_flag[p] else pos_opts) or opts
        else:
            pool = opts
        its, _ = rng.choice(pool)
        items += its
    items = merge_blocks(tv, items, rng, first)
    seq = None
    for _ in range(8):
        cand = arrange(tv, items, rng)
        if admissible(tv, cand, last_call):
            seq = cand
            break
    if seq is None:
        seq = canonical_order(tv, items, last_call)
        if seq is None or not admissible(tv, seq, last_call):
            items = [it for it in items if it[0] != "O"]
            seq = canonical_order(tv, items, True)
    return {"task": name_token, "primary": cli_name(tv.t), "items": [list(it) for it in seq], "intended": intended_of(tv, seq)}


def positional_shape(tv, call):
    """(number of positionals, which of them are given by flag as a 0/1 string in slot order, where the flags stand)"""
    given = dict()
    order = []
    for it in call["items"]:
        if it[0] == "P":
            given[it[2]] = "0"
            order.append("v")
        elif it[0] in ("S", "E", "G") and it[3] in tv.positional:
            given[it[3]] = "1"
            order.append("F")
    mask = "".join(given.get(p, "?") for p in tv.positional)
    o = "".join(order)
    where = []
    if "v" in o and "F" in o:
        if o.index("F") < o.index("v"):
            where.append("before")
        if "vF" in o and "Fv" in o[o.index("vF"):]:
            where.append("between")
        if o.rindex("F") > o.rindex("v"):
            where.append("after")
    return len(tv.positional), mask, where


def argv_of(chain):
    out = []
    for c in chain:
        out.append(c["task"])
        for it in c["items"]:
            out += item_tokens(it)
    return out


# ----------------------------------------------------------------------------------------------- generation

def random_tasks(rng):
    names = rng.sample(TASKNAMES, rng.randint(1, 3))
    tasks = []
    for tn in names:
        ps = rng.sample(VOCAB, rng.randint(0, 5))
        params = []
        for p in ps:
            k = rng.choice(KINDS)
            if k == "req" and len([1 for _, kk in params if kk == "req"]) >= 2:
                k = "str"
            params.append([p, k])
        if rng.random() < 0.3:
            # positional-heavy signature: 3, 4 or 5 REQUIRED parameters (plus at most two others)
            nreq = rng.choice([3, 3, 4, 4, 5])
            names = rng.sample(POSVOCAB, nreq)
            others = [pk for pk in params if pk[1] != "req" and pk[0] not in names][:2]
            params = [[n, "req"] for n in names] + others
            rng.shuffle(params)
        tasks.append({"name": tn, "aliases": ([tn + "al"] if rng.random() < 0.3 else []) + (["z"] if rng.random() < 0.1 and tn == names[0] else []),
                      "auto_short": rng.random() < 0.8, "params": params,
                      "path": rng.choice([[], [], [], [], [], ["ns"], ["ns"], ["ns", "deep"], ["docs"], ["ns", "deep", "er"]]),
                      "alias_via": rng.choice(["task", "task", "add"])})
    fam = rng.random()
    if fam < 0.22 and len(tasks) >= 2:
        share_letter(tasks, rng)
    elif fam < 0.40:
        add_twin(tasks, rng)
    return tasks


LETTER_NAMES = {"f": ["f", "force", "fmt", "flag"], "v": ["v", "verbose"], "q": ["q", "quiet"], "n": ["n", "name", "num", "nn"],
                "x": ["x"], "l": ["l", "lst", "log"]}


def share_letter(tasks, rng):
    """FAMILY shared short letters: every task gets a parameter whose short flag is the same letter, of DIFFERENT kinds
    (not value-taking in some tasks, value-taking in others) — each task's tokens must be read with its own flags"""
    letter = rng.choice(sorted(LETTER_NAMES))
    toggles, values = ["bfalse", "counter"], ["str", "none", "list", "str", "req"]
    flip = rng.random() < 0.5
    for i, t in enumerate(tasks):
        kind = rng.choice(toggles if (i % 2 == 0) != flip else values)
        name = rng.choice(LETTER_NAMES[letter])
        others = [pk for pk in t["params"] if not pk[0].startswith(letter)][:3]
        if kind == "req":
            others = [pk for pk in others if pk[1] != "req"]
        t["params"] = [[name, kind]] + others       # first, so that the auto short flag is its first letter
        t["auto_short"] = True
        t["shared"] = name
    return tasks


TWIN_KINDS = {"none": ["none", "opt", "list"], "opt": ["none", "opt", "list"], "list": ["none", "opt", "list"],
              "int0": ["int0", "counter"], "counter": ["int0", "counter"]}


def add_twin(tasks, rng):
    """FAMILY twin tasks: a second, DISTINCT Task object around the very same function and with the same Task name, but
    with other parser hints (optional / iterable / incrementable / auto_shortflags), published under another CLI name
    (another sub-collection, or another binding name) — each must be parsed according to its own hints"""
    i = rng.randrange(len(tasks))
    t = tasks[i]
    t["params"] = [pk for pk in t["params"] if pk[1] not in TWIN_KINDS][:3]
    for nm, k in zip(rng.sample(["tag", "only", "level", "mode"], rng.randint(1, 3)), [rng.choice(sorted(TWIN_KINDS)) for _ in range(3)]):
        if nm not in [p for p, _ in t["params"]]:
            t["params"].append([nm, k])
    twin = {"name": t["name"], "task_name": t["name"], "twin_of": i, "aliases": [], "alias_via": "task",
            "auto_short": t["auto_short"] if rng.random() < 0.6 else not t["auto_short"],
            "params": [[p, rng.choice([x for x in TWIN_KINDS[k] if x != k]) if k in TWIN_KINDS and rng.random() < 0.85 else k]
                       for p, k in t["params"]]}
    if rng.random() < 0.5:
        twin["path"] = rng.choice([p for p in ([], ["ns"], ["ops"], ["ns", "deep"]) if p != task_path(t)])
    else:
        twin["path"] = task_path(t)
        twin["name"] = t["name"] + "2"              # add_task(task, name=...)
    tasks.append(twin)
    return tasks


class World:
    """real objects for one set of task signatures"""

    def __init__(self, tasks, initial_kind, history=None):
        from invoke.parser import Parser
        self.tasks = tasks
        self.history = history
        self.rec = []
        self.coll = build_collection(tasks, self.rec, history)
        self.contexts = self.coll.to_contexts()
        self.initial = make_initial(initial_kind)
        self.parser = Parser(contexts=self.contexts, initial=self.initial)
        byname = dict((c.name, c) for c in self.contexts)
        self.all_names = []
        for c in self.contexts:
            self.all_names += [c.name] + list(c.aliases)
        core = []
        if self.initial is not None:
            core = list(self.initial.flags.keys()) + list(self.initial.flags.aliases.keys())
        missing = [cli_name(t) for t in tasks if cli_name(t) not in byname]
        if missing:
            # the namespace lost a task that was added to it: take the flag tables from a freshly assembled twin so that
            # spellings can still be generated (the oracle then reports the refusal on the real, incrementally built one)
            twin = dict((c.name, c) for c in build_collection(tasks, []).to_contexts())
            for n in missing:
                byname[n] = twin[n]
        self.lost = missing
        self.views = dict((cli_name(t), TaskView(t, byname[cli_name(t)], self.all_names, core)) for t in tasks)
        # name tokens are known by construction (declared name and aliases), not read back from the contexts
        self.tokens = dict((cli_name(t), [cli_name(t)] + [cli_alias(t, a) for a in t["aliases"]]) for t in tasks)
        for toks in self.tokens.values():
            self.all_names += [x for x in toks if x not in self.all_names]


def check_case(world, case, out, model_line, do_program):
    """compare with the model, evaluate the oracle; returns the failure text or None"""
    argv, chain = case["argv"], case["chain"]
    got, delivered, err = run_parser(world.parser, argv)
    if model_line is not None:
        out.traces += 1
        mc = canon_model(model_line)
        if mc != got:
            out.disagree(case, got, model_line)
        if " thm=0" in model_line:
            out.disagree(case, got, "theorem instance not observed by the driver: " + model_line)
        if chain is not None:
            out.hist["thm_covered" if " cov=1" in model_line else "thm_not_covered"] += 1
            out.hist["sig_thm_covered" if " sig=1" in model_line else "sig_thm_not_covered"] += 1
            if " sig=1" in model_line and not any(t["aliases"] for t in case["tasks"]):
                out.hist["sig_thm_covered(no-alias worlds)"] += 1
            elif not any(t["aliases"] for t in case["tasks"]):
                out.hist["sig_thm_not_covered(no-alias worlds)"] += 1
    if chain is None:
        out.hist["damaged:" + ("OK" if got.startswith("OK") else got)] += 1
        return None
    why = oracle(chain, delivered, err, "Parser.parse_argv")
    if why is None and do_program:
        rec, perr = run_program(world.coll, world.rec, argv)
        out.hist["program_runs"] += 1
        why = oracle(chain, [(n, kw) for n, kw in rec] if rec is not None else None, perr, "Program.run")
        if why is None and perr:
            why = "Program.run wrote an error for an admissible spelling: " + perr
    return why


def damage(rng, argv, world):
    argv = list(argv)
    alpha = VALUES + world.all_names + ["--zzz", "-z", "-zq", "--zzz=1", "-=", "--=x", "--no-zz"]
    for v in world.views.values():
        alpha += sorted(v.flagset)
    for _ in range(rng.randint(1, 2)):
        op = rng.random()
        if op < 0.4 and argv:
            del argv[rng.randrange(len(argv))]
        elif op < 0.8:
            argv.insert(rng.randrange(len(argv) + 1), rng.choice(alpha))
        elif argv:
            i = rng.randrange(len(argv))
            argv[i] = argv[i] + rng.choice(["=", "x", "=v", "-"])
    return argv


def family_hist(out, tasks, chain, w):
    by = dict((cli_name(t), t) for t in tasks)
    if any(t.get("shared") for t in tasks):
        out.hist["family:shared-letter worlds"] += 1
        seen_toggle_block = seen_value = False
        for c in chain:
            t = by[c["primary"]]
            p = t.get("shared")
            if p is None:
                continue
            tv = w.views[c["primary"]]
            for it in c["items"]:
                if it[0] == "B" and it[2][0] == p:
                    if seen_value:
                        out.hist["shared-letter: value-task THEN block-first-letter task"] += 1
                    seen_toggle_block = True
                if it[0] == "G" and it[3] == p and "=" in it[2]:
                    if seen_toggle_block:
                        out.hist["shared-letter: block-first-letter task THEN glued '='-value task"] += 1
                    seen_value = True
    if any(t.get("twin_of") is not None for t in tasks):
        out.hist["family:twin-task worlds"] += 1
        called = set(c["primary"] for c in chain)
        for t in tasks:
            if t.get("twin_of") is not None:
                o = tasks[t["twin_of"]]
                both = cli_name(t) in called and cli_name(o) in called
                out.hist["twins: both called in one line" if both else "twins: one of them called"] += 1
                diff = [(a[1], b[1]) for a, b in zip(o["params"], t["params"]) if a[1] != b[1]]
                for d in diff:
                    out.hist["twins: hint %s vs %s" % tuple(sorted(d))] += 1
                if o["auto_short"] != t["auto_short"]:
                    out.hist["twins: auto_shortflags differs"] += 1
                out.hist["twins: %s" % ("other binding name" if task_path(t) == task_path(o) else "other sub-collection")] += 1


def kind_is_int(v):
    return v.lstrip("+-").isdigit()


def stale_prone(tasks, history):
    """a task enters an already ATTACHED sub-collection after an enclosing collection was inspected"""
    attached, inspected = set(), set()
    for op in history:
        if op[0] == "attach":
            attached.add(tuple(op[1]))
        elif op[0] == "inspect":
            inspected.add(tuple(op[1]))
        elif op[0] == "task":
            p = tuple(task_path(tasks[op[1]]))
            if p and all(p[:n] in attached for n in range(1, len(p) + 1)) and any(p[:n] in inspected for n in range(len(p))):
                return True
    return False


def form_hist(out, chain, names=()):
    for c in chain:
        for it in c["items"]:
            t = it[0]
            name = {"S": "spaced", "E": "eq", "G": "glued", "T": "toggle", "I": "inverse", "B": "block", "P": "positional",
                    "O": "bare-optional"}[t]
            if t in ("S", "E"):
                name += "-short" if len(it[1]) == 2 else "-long"
            out.hist["form:" + name] += 1
            v = it[2] if t in ("S", "E", "G") else it[1] if t == "P" else None
            if v is not None:
                if "\n" in v:
                    out.hist["value:with-newline"] += 1
                if t != "P" and kind_is_int(v) and len(v.lstrip("+-")) > 1 and v.lstrip("+-")[0] == "0":
                    out.hist["value:zero-padded-digits"] += 1
                cls = ("empty" if v == "" else "flag-like" if v.startswith("-") else "has-eq" if "=" in v else
                       "task-name" if v in names else "plain")
                out.hist["value:" + cls] += 1


def run(ctx):
    out = Outcome()
    rng = ctx.rng
    drv = LeanDriver("drv_spell")
    worlds, batch = [], []
    n_worlds = ctx.n(900, 10000)
    per_world = 5
    skipped = 0
    for _ in range(n_worlds):
        tasks = random_tasks(rng)
        ik = rng.choice(["none", "empty", "empty", "core", "core"])
        nested = any(task_path(t) for t in tasks)
        history = incremental_history(tasks, rng) if (rng.random() < (0.7 if nested else 0.3)) else None
        try:
            w = World(tasks, ik, history)
        except ValueError:
            skipped += 1
            continue
        worlds.append(w)
        for j in range(per_world):
            names = [cli_name(t) for t in tasks]
            callnames = [rng.choice(names) for _ in range(rng.choice([1, 1, 2, 2, 3, 4]))]
            heavy = [cli_name(t) for t in tasks if len([1 for _, k in t["params"] if k == "req"]) >= 3]
            if heavy and rng.random() < 0.7:
                # a positional-heavy call that is FOLLOWED by a further task
                callnames = [rng.choice(heavy), rng.choice(names)] + callnames[:1]
            if len(callnames) > 1 and rng.random() < 0.4:
                callnames[1] = callnames[0]
            shared = [cli_name(t) for t in tasks if t.get("shared")]
            twins = [(cli_name(tasks[t["twin_of"]]), cli_name(t)) for t in tasks if t.get("twin_of") is not None]
            if len(shared) >= 2 and rng.random() < 0.85:
                a, b = rng.sample(shared, 2)        # two DIFFERENT tasks sharing the letter, in either order
                callnames = [a, b] + callnames[:rng.randint(0, 1)]
            elif twins and rng.random() < 0.85:
                pair = list(rng.choice(twins))
                rng.shuffle(pair)
                callnames = (pair if rng.random() < 0.6 else pair[:1]) + callnames[:rng.randint(0, 1)]
            chain = []
            for ci, cn in enumerate(callnames):
                chain.append(spell_call(w.views[cn], rng.choice(w.tokens[cn]), rng, ci == len(callnames) - 1))
            # twins share one recording body, so the end-to-end run could not tell them apart: parser-level only
            case = {"tasks": tasks, "initial": ik, "chain": chain, "argv": argv_of(chain),
                    "program": rng.random() < 0.12 and not twins, "history": history}
            batch.append((w, case))
            if rng.random() < 0.2:
                dcase = {"tasks": tasks, "initial": ik, "chain": None, "argv": damage(rng, case["argv"], w), "program": False,
                         "history": history}
                batch.append((w, dcase))
    out.hist["skipped_signature_sets(ValueError)"] = skipped
    if ctx.thorough or ctx.escalated:
        batch += exhaustive_cases(out)
    lines = [proto_line(w.initial, w.contexts, c["argv"], c["chain"], tasks=c["tasks"]) for w, c in batch]
    model = drv.run(lines, timeout=1800) if ctx.model_ok else [None] * len(lines)
    for (w, case), ml in zip(batch, model):
        chain = case["chain"]
        nontrivial = chain is not None and any(c["items"] for c in chain)
        out.case({"tasks": case["tasks"], "argv": case["argv"]}, nontrivial)
        if chain is not None:
            for ci, c in enumerate(chain):
                n, mask, where = positional_shape(w.views[c["primary"]], c)
                if n >= 3:
                    out.hist["positionals:%d by-flag:%s" % (n, mask)] += 1
                    out.hist["positionals>=3:%s" % ("followed-by-task" if ci + 1 < len(chain) else "last-call")] += 1
                    for wh in where:
                        out.hist["positionals>=3:flag-%s-bare" % wh] += 1
                    if "11" in mask and "0" in mask[mask.index("11"):]:
                        out.hist["positionals>=3:consecutive-by-flag-then-bare"] += 1
            family_hist(out, case["tasks"], chain, w)
            form_hist(out, chain, w.all_names)
            out.hist["chain_len_%d" % len(chain)] += 1
            if len(chain) > 1 and len(set(c["primary"] for c in chain)) < len(chain):
                out.hist["same_task_twice"] += 1
            out.hist["initial:" + case["initial"]] += 1
            depth = max(len(task_path(t)) for t in case["tasks"])
            out.hist["namespace_depth_%d" % depth] += 1
            out.hist["called_name_depth_%d" % max(c["task"].count(".") for c in chain)] += 1
            h = case.get("history")
            if h is None:
                out.hist["history:assembled-then-inspected"] += 1
            else:
                out.hist["history:incremental"] += 1
                seen = False
                late = False
                for op in h:
                    if op[0] == "inspect":
                        seen = True
                    elif seen and op[0] in ("task", "attach"):
                        late = True
                if late:
                    out.hist["history:changed-after-inspection"] += 1
                if stale_prone(case["tasks"], h):
                    out.hist["history:nested-task-added-after-enclosing-inspected"] += 1
        why = check_case(w, case, out, ml, case["program"])
        if why:
            out.fail(case, why)
    tot = out.hist["thm_covered"] + out.hist["thm_not_covered"]
    out.extra["theorem_coverage"] = {"covered": out.hist["thm_covered"], "by_construction_cases": tot,
                                     "share": round(out.hist["thm_covered"] / tot, 4) if tot else None}
    na = out.hist["sig_thm_covered(no-alias worlds)"] + out.hist["sig_thm_not_covered(no-alias worlds)"]
    out.extra["signature_theorem_coverage"] = {
        "theorem": "parse_spelling_from_signatures (contexts = mkCtx of the signatures; aliases not modelled by mkCtx)",
        "covered": out.hist["sig_thm_covered"], "by_construction_cases": tot,
        "share": round(out.hist["sig_thm_covered"] / tot, 4) if tot else None,
        "share_among_worlds_without_aliases": round(out.hist["sig_thm_covered(no-alias worlds)"] / na, 4) if na else None}
    return out


# ----------------------------------------------------------------------------------------------- exhaustive small scope

SMALL = [("pos", "req"), ("name", "str"), ("num", "int"), ("flag", "bfalse"), ("quiet", "btrue"), ("lst", "list"),
         ("cnt", "counter"), ("opt", "opt"), ("v", "bfalse")]


def merge_adjacent(perm):
    """the variant of an item order in which the first run of >= 2 adjacent short toggles is one combined block"""
    i = 0
    while i < len(perm):
        j = i
        while j < len(perm) and perm[j][0] == "T" and len(perm[j][1]) == 2:
            j += 1
        if j - i >= 2:
            blk = ("B", "".join(perm[k][1][1] for k in range(i, j)), tuple(perm[k][2] for k in range(i, j)))
            return tuple(perm[:i]) + (blk,) + tuple(perm[j:])
        i = max(j, i + 1)
    return None


def exhaustive_cases(out):
    """all spellings and all admissible item orders of every signature with <= 3 parameters over the small vocabulary
    (<= 2 parameters: complete; 3 parameters: every 7th spelling), one call and two calls of the same task"""
    cases = []
    count = 0
    for r in (1, 2, 3):
        for combo in itertools.combinations(SMALL, r):
            tasks = [{"name": "t1", "aliases": ["a1"], "auto_short": True, "params": [list(x) for x in combo], "sub": False},
                     {"name": "t2", "aliases": [], "auto_short": True, "params": [["name", "str"]], "sub": False}]
            try:
                w = World(tasks, "empty")
            except ValueError:
                continue
            tv = w.views["t1"]
            per_param = [param_options(tv, p, full=True) for p in tv.params]
            for choice in itertools.product(*per_param):
                items = [it for its, _ in choice for it in its]
                if len(items) > 4:
                    continue
                count += 1
                if r == 3 and count % 7:
                    continue
                seen = set()
                perms = []
                for perm in itertools.permutations(items):
                    if perm in seen:
                        continue
                    seen.add(perm)
                    perms.append(perm)
                    mb = merge_adjacent(perm)
                    if mb is not None and mb not in seen:
                        seen.add(mb)
                        perms.append(mb)
                for perm in perms:
                    for last in (True, False):
                        if not admissible(tv, list(perm), last):
                            continue
                        c1 = {"task": "t1", "primary": "t1", "items": [list(it) for it in perm], "intended": intended_of(tv, perm)}
                        chain = [c1]
                        if not last:
                            first = [list(it) for it in canonical_order(tv, [it for it in items if it[0] != "O"], True) or []]
                            chain = [c1, {"task": "a1", "primary": "t1", "items": first[:2] if len(first) > 2 and not tv.positional else first,
                                          "intended": None}]
                            chain[1]["intended"] = intended_of(tv, [tuple(x) for x in chain[1]["items"]])
                            if not admissible(tv, [tuple(x) for x in chain[1]["items"]], True):
                                continue
                        cases.append((w, {"tasks": tasks, "initial": "empty", "chain": chain, "argv": argv_of(chain), "program": False}))
    out.exhaustive = True
    out.hist["exhaustive_small_scope_cases"] = len(cases)
    return cases


# ----------------------------------------------------------------------------------------------- replay

def replay(case):
    w = World(case["tasks"], case["initial"], case.get("history"))
    for c in case["chain"] or []:
        c["items"] = [list(it) for it in c["items"]]
    got, delivered, err = run_parser(w.parser, case["argv"])
    if case["chain"] is None:
        return True, "no intended invocation attached (correspondence-only case): " + got
    why = oracle(case["chain"], delivered, err, "Parser.parse_argv")
    if why is None and case.get("program"):
        rec, perr = run_program(w.coll, w.rec, case["argv"])
        why = oracle(case["chain"], rec, perr, "Program.run")
    return why is None, why or "ok: %s" % delivered
