"""C02 - captured and mirrored command output equals what the command wrote."""
import itertools
import os
import sys

import common
import runnerio
from common import Outcome, LeanDriver

ID = "C02"
PROPS = ["Invoke/Props/C02.lean"]
TARGETS = ["drv_runner"]
DRIVER_ROOTS = ["Driver/Runner.lean"]
GENERATED = []
RULE = ("three case families: (i) byte strings x chunkings through the real Runner threads with scripted reads "
        "(exhaustive: all strings of length<=4 (quick) / <=5 (thorough) over a 7-byte alphabet containing UTF-8 lead, "
        "continuation and invalid bytes x all split points; plus random longer strings, other encodings, hide/override "
        "settings, pty); (ii) gated schedules of the real Runner threads (writes, reads, exit, kill, faults in any "
        "order) compared step-for-step with the Lean transition system; (iii) real child processes writing 0..200000 "
        "bytes with a multi-byte character straddling the read size and the pipe buffer, exiting at once, pty on/off. "
        "(i') LIVE: the real Runner.read_proc_output generator over scripted reads - the text yielded when k reads were "
        "consumed is compared with the model's never-flushed decoding of those k reads, for every k, and must be an "
        "initial part of the final text. "
        "non-trivial = the stream contains a multi-byte or invalid sequence or is split into >1 read; distinct by content")
TRUSTED = ["Lean 4.33 kernel", "axioms propext/Classical.choice/Quot.sound only",
           "harness/gate.py gate scheduler + harness/runnerio.py canonicalisation",
           "models Invoke/Model/Decode.lean (UTF-8/replace byte machine) and Invoke/Model/RunnerIO.lean hand-written, tied by correspondence on every run",
           "CPython codecs, threading, pipes (modelled, not verified)"]
ASSUMPTIONS = ["pipe EOF semantics: a read returns empty only when the buffer is empty and no writer holds the pipe",
               "atomicity between gate points (DESIGN.md 2.5) - validated by the gated runs",
               "sizes above the pipe buffer, kernel short reads and the pty line discipline are exercised by real runs, not proved"]
LEVEL_TEXT = ("Lean 4 proofs: chunked_decode_eq_whole (any decoder, any chunking), capture_complete / pipe_conservation / "
              "captured_text_is_decoding_of_written over EVERY schedule of the runner transition system (induction over arbitrary "
              "event lists); the UTF-8/replace machine and the transition system are tied to invoke.runners on every run by "
              "differential correspondence (scripted reads through the real threads, gate-scheduled real threads) and an oracle "
              "(bytes.decode of everything written)")
TECHNIQUE = "Lean 4 theorems (invariant by induction over schedules; decoder homomorphism) + gated-thread model/implementation correspondence"

ALPHABET = [0x41, 0xC3, 0xA9, 0xE2, 0x82, 0xAC, 0xFF]
# stateless and stateful codecs, with and without a byte-order mark (plain "utf-16"/"utf-32" are left out: their
# incremental decoders raise on BOM-less streams on the unchanged tree as well)
ENCODINGS = ["latin-1", "utf-16-le", "utf-16-be", "utf-32-le", "shift_jis", "cp1252", "ascii", "utf-8-sig", "iso8859-15",
             "cp1251", "gbk", "big5", "euc_jp", "iso2022_jp", "cp932", "utf-7"]


class ListSink(list):
    """a stream override that is a perfectly good file-like object but FALSY while nothing was written to it"""

    def write(self, s):
        self.append(s)

    def flush(self):
        pass

    def getvalue(self):
        return "".join(self)


class NullishSink:
    """a stream override whose truth value is always False"""

    def __init__(self):
        self.parts = []

    def __bool__(self):
        return False

    def write(self, s):
        self.parts.append(s)

    def flush(self):
        pass

    def getvalue(self):
        return "".join(self.parts)


def scripted_run(chunks, err_chunks=(), hide=None, encoding="utf-8", explicit=False, pty=False, read_size=None, sink="stringio",
                 watch=False):
    """real Runner.run over scripted reads; returns (stdout, stderr, mirror_out, mirror_err[, leaked])"""
    import io
    from fakerunner import Scripted
    r = Scripted(out=list(chunks), err=list(err_chunks), pty=pty, finish_when=("drained"))
    if read_size:
        r.read_chunk_size = read_size
    mk = {"stringio": io.StringIO, "list": ListSink, "nullish": NullishSink}[sink]
    mo, me = mk(), mk()
    kw = {}
    old = (sys.stdout, sys.stderr)
    leak_o, leak_e = io.StringIO(), io.StringIO()
    if explicit:
        kw = {"out_stream": mo, "err_stream": me}
        sys.stdout, sys.stderr = leak_o, leak_e  # with explicit streams nothing may reach the process-wide ones
    else:
        sys.stdout, sys.stderr = mo, me
    if watch:
        from invoke.watchers import Responder
        kw["watchers"] = [Responder("never-in-the-output\\?", "x\n")]  # a watcher that never answers: capture must not care
    try:
        res = r.run("cmd", hide=hide, in_stream=False, encoding=encoding, **kw)
    finally:
        sys.stdout, sys.stderr = old
    return res.stdout, res.stderr, mo.getvalue(), me.getvalue(), leak_o.getvalue() + leak_e.getvalue()


def live_prefixes(chunks):
    """real Runner.read_proc_output over scripted reads: snaps[k] = text yielded when exactly k reads had been consumed
    (taken at the moment the generator asks for read k+1, and at the end-of-stream read), final = everything yielded"""
    from fakerunner import Scripted
    r = Scripted()
    r.encoding = "utf-8"
    pending, seen, snaps = list(chunks), [], []

    def reader(n):
        snaps.append("".join(seen))
        return pending.pop(0) if pending else b""

    for text in r.read_proc_output(reader):
        seen.append(text)
    return snaps, "".join(seen)


def hidden(hide, explicit):
    if explicit:
        return False, False
    return hide in (True, "both", "out", "stdout"), hide in (True, "both", "err", "stderr")


def oracle_scripted(case, got):
    enc = case.get("enc", "utf-8")
    whole_o = b"".join(bytes.fromhex(c) for c in case["chunks"])
    whole_e = b"".join(bytes.fromhex(c) for c in case.get("err", []))
    so, se, mo, me = got[:4]
    if case.get("explicit") and len(got) > 4 and got[4]:
        return "explicit out_stream/err_stream given (%s), yet %r was written to the process-wide sys.stdout/sys.stderr" % (
            case.get("sink", "stringio"), got[4][:60])
    want_o = whole_o.decode(enc, "replace")
    want_e = "" if case.get("pty") else whole_e.decode(enc, "replace")
    if so != want_o:
        return "captured stdout %r != decoding of the bytes written %r" % (so[:60], want_o[:60])
    if se != want_e:
        return "captured stderr %r != decoding of the bytes written %r" % (se[:60], want_e[:60])
    ho, he = hidden(case.get("hide"), case.get("explicit", False))
    if mo != ("" if ho else want_o):
        return "stdout mirror %r != %r" % (mo[:60], ("" if ho else want_o)[:60])
    if me != ("" if he else want_e):
        return "stderr mirror %r != %r" % (me[:60], ("" if he else want_e)[:60])
    return None


def run_scripted_case(case):
    return scripted_run([bytes.fromhex(c) for c in case["chunks"] if c], [bytes.fromhex(c) for c in case.get("err", []) if c],
                        hide=case.get("hide"), encoding=case.get("enc", "utf-8"), explicit=case.get("explicit", False),
                        pty=case.get("pty", False), read_size=case.get("read_size"), sink=case.get("sink", "stringio"),
                        watch=case.get("watch", False))


def splits(bs):
    n = len(bs)
    for mask in range(1 << (n - 1)) if n else []:
        out, cur = [], [bs[0]]
        for i in range(1, n):
            if mask >> (i - 1) & 1:
                out.append(bytes(cur))
                cur = [bs[i]]
            else:
                cur.append(bs[i])
        out.append(bytes(cur))
        yield out


def oracle_gated(c, o, io_):
    """reader reached EOF without an injected fault => captured text = decoding of everything written;
    mirror = same text or nothing when hidden"""
    for idx, s in enumerate(("out", "err")):
        if s == "err" and c["pty"]:
            continue
        if c["start_fails"]:
            continue
        if s in o["alive"]:
            continue
        if ("fo" if s == "out" else "fe") in c["sched"] or ("bo" if s == "out" else "be") in c["sched"]:
            continue
        want = o["written"][idx].decode("utf-8", "replace")
        if o["cap"][idx] != want:
            return "%s: captured %r but the command wrote %r" % (s, o["cap"][idx][:50], want[:50])
        # an asynchronous run always hides (documented: "Always hide if async"); explicit streams are still un-hidden
        ho, he = hidden(True if c.get("async") else c["hide"], c.get("explicit", True))
        hid = ho if s == "out" else he
        if not (c["has_in"] and s == "out"):  # echo of stdin shares the out stream
            if o["mirror"][idx] != ("" if hid else want):
                return "%s mirror %r != %r" % (s, o["mirror"][idx][:50], ("" if hid else want)[:50])
    r = o.get("result")
    if r and r[0] == "return" and (r[1], r[2]) != o["cap"]:
        return "Result.stdout/stderr differ from the capture buffers"
    return None


REAL_SIZES = [0, 1, 999, 1000, 1001, 65536, 200000]


def real_child_case(size, pty, straddle):
    """a real child writes `size` ASCII bytes with an 'é' straddling offset `straddle`, then exits at once"""
    from invoke import Context, Config
    pre = max(0, min(size, straddle) - 1) if size else 0
    script = ("import sys,os;b=b'x'*%d+'\\u00e9'.encode()+b'y'*%d;os.write(1,b);os.write(2,b'E'*%d)" % (pre, max(0, size - pre), min(size, 70000)))
    cmd = "%s -c \"%s\"" % (sys.executable, script)
    c = Context(Config())
    res = c.run(cmd, hide=True, in_stream=False, pty=pty, encoding="utf-8", warn=True)
    want = "x" * pre + "é" + "y" * max(0, size - pre)
    wante = "E" * min(size, 70000)
    if pty:
        if res.stdout.replace("\r", "") .count("E") + res.stdout.count("x") + res.stdout.count("y") + 1 != len(want) + len(wante) or "�" in res.stdout:
            return "pty: merged output lost or tore characters (%d chars, want %d)" % (len(res.stdout), len(want) + len(wante))
        return None
    if res.stdout != want:
        return "real child stdout: %d chars, want %d; head %r" % (len(res.stdout), len(want), res.stdout[:20])
    if res.stderr != wante:
        return "real child stderr: %d chars, want %d" % (len(res.stderr), len(wante))
    return None


def replay(case):
    k = case.get("kind")
    if k == "scripted":
        try:
            why = oracle_scripted(case, common.with_timeout(run_scripted_case, 30, case))
        except common.Hang:
            why = "[hang] the run over scripted reads did not return"
        return why is None, why or "ok"
    if k == "real":
        why = real_child_case(case["size"], case["pty"], case["straddle"])
        return why is None, why or "ok"
    if "sched" in case:
        o = runnerio.run_impl(case)
        why = oracle_gated(case, o, runnerio.impl_obs(case, o))
        return why is None, why or "ok"
    return True, "unknown case"


def run(ctx):
    out = Outcome()
    rng = ctx.rng
    drv = LeanDriver("drv_runner")
    # (i) scripted reads through the real threads
    cases = []
    maxlen = 5 if (ctx.thorough or ctx.escalated) else 4
    for n in range(1, maxlen + 1):
        for tup in itertools.product(ALPHABET, repeat=n):
            if n == maxlen and not ctx.thorough and rng.random() < 0.75:
                continue
            for sp in splits(list(tup)):
                cases.append({"kind": "scripted", "chunks": [c.hex() for c in sp]})
    out.exhaustive = True
    for _ in range(ctx.n(400, 4000)):
        bs = bytes(rng.choice(ALPHABET + [0xF0, 0x9F, 0x98, 0x80, 0x0A, 0x20, 0x61, 0x62]) for _ in range(rng.randint(0, 40)))
        if rng.random() < 0.35:  # byte-order marks and other multi-byte units at arbitrary offsets
            unit = rng.choice([b"\xef\xbb\xbf", b"\xff\xfe", b"\xfe\xff", b"\x83A", b"\x1b$B", b"\x8e\xa1", b"\x00"])
            for _ in range(rng.choice([1, 1, 2])):
                k = rng.randint(0, len(bs))
                bs = bs[:k] + unit + bs[k:]
        ck, i = [], 0
        while i < len(bs):
            k = rng.choice([1, 1, 2, 3, 7])
            ck.append(bs[i:i + k])
            i += k
        ebs = bytes(rng.choice(ALPHABET) for _ in range(rng.randint(0, 10)))
        cases.append({"kind": "scripted", "chunks": [c.hex() for c in ck], "err": [x.hex() for x in (ebs[:3], ebs[3:]) if x],
                      "hide": rng.choice([None, True, False, "out", "err", "both", "stdout", "stderr"]),
                      "explicit": rng.random() < 0.3, "pty": rng.random() < 0.2,
                      "sink": rng.choice(["stringio", "stringio", "list", "nullish"]),
                      "enc": rng.choice(["utf-8"] * 6 + ENCODINGS),
                      "read_size": rng.choice([None, None, 1, 2, 3])})
    # structured family: for every codec, ASCII-only reads followed by a read that STARTS with a special unit
    # (byte-order mark, lead byte, escape sequence), and units split across the read boundary
    units = [b"\xef\xbb\xbf", b"\xff\xfe", b"\xfe\xff", b"\xc3\xa9", b"\xe2\x82\xac", b"\x83A", b"\x1b$B", b"\x1b(B", b"\x8e\xa1",
             b"+AGE-", b"\xa4\xa2", b"\xff", b"\x00A"]
    for enc, unit, mode, _rep in itertools.product(["utf-8"] + ENCODINGS, units, ["at-boundary", "split-unit", "one-read"],
                                                   range(ctx.n(1, 6))):
        if True:
            pre = bytes(rng.choice(b"abc xyz\n") for _ in range(rng.randint(1, 12)))
            tail = bytes(rng.choice(b"ab=\n" + unit) for _ in range(rng.randint(0, 8)))
            k = rng.choice([0, 0, 1, 2]) if len(unit) > 1 else 0
            if mode == "at-boundary":
                ck = [pre[:len(pre) // 2], pre[len(pre) // 2:], unit + tail]
            elif mode == "split-unit":
                ck = [pre + unit[:max(1, min(k, len(unit) - 1))], unit[max(1, min(k, len(unit) - 1)):] + tail]
            else:
                ck = [pre + unit + tail]
            cases.append({"kind": "scripted", "chunks": [c.hex() for c in ck if c], "enc": enc, "hide": rng.choice([None, True])})
    # many reads (well over a hundred) with and without a watcher attached: the capture is every read, in order
    for _ in range(ctx.n(24, 200)):
        nchunks = rng.choice([65, 66, 70, 129, 130, 200, 300])
        ck = [bytes(rng.choice(b"abcxyz \n" + bytes([0xC3, 0xA9])) for _ in range(rng.randint(1, 3))) for _ in range(nchunks)]
        eck = [bytes(rng.choice(b"EF\n") for _ in range(rng.randint(1, 2))) for _ in range(rng.choice([0, 3, 70]))]
        cases.append({"kind": "scripted", "chunks": [c.hex() for c in ck], "err": [c.hex() for c in eck], "watch": rng.random() < 0.7,
                      "hide": rng.choice([None, True]), "explicit": rng.random() < 0.3})
    lines = ["D|" + ",".join(c["chunks"]) for c in cases]
    model = drv.run(lines) if ctx.model_ok else [None] * len(cases)
    results = common.guarded_map(run_scripted_case, cases, stall=30)
    for (c, got), m in zip(results, model):
        whole = b"".join(bytes.fromhex(x) for x in c["chunks"])
        nontrivial = len(c["chunks"]) > 1 or any(b >= 0x80 for b in whole)
        out.case(c, nontrivial)
        if isinstance(got, common.Hang):
            out.fail(c, "[hang] the run over scripted reads did not return")
            continue
        if isinstance(got, BaseException):
            out.fail(c, "[unexpected-exception] %r" % got)
            continue
        out.hist["scripted:" + c.get("enc", "utf-8")] += 1
        if m is not None and c.get("enc", "utf-8") == "utf-8":
            out.traces += 1
            if runnerio.codes(got[0]) != m:
                out.disagree(c, runnerio.codes(got[0]), m)
        why = oracle_scripted(c, got)
        if why:
            out.fail(c, why)
    # (i') LIVE family: the text the real `Runner.read_proc_output` has yielded when k reads were consumed = the model's
    # never-flushed decoding of those k reads (ties `live_output_is_prefix_of_final` / `live_output_grows`), and it is an
    # initial part of the final text
    live_cases = [c for c in cases if c.get("enc", "utf-8") == "utf-8" and not c.get("read_size")]
    rng.shuffle(live_cases)
    live_cases = live_cases[:ctx.n(1500, 12000)]
    live_lines, live_got = [], []
    for c in live_cases:
        got = common.with_timeout(live_prefixes, 30, [bytes.fromhex(x) for x in c["chunks"] if x])
        live_got.append(got)
        ck = [x for x in c["chunks"] if x]
        live_lines += ["U|" + ",".join(ck[:k]) for k in range(len(ck) + 1)]
    live_model = drv.run(live_lines) if ctx.model_ok else [None] * len(live_lines)
    pos = 0
    for c, (snaps, final) in zip(live_cases, live_got):
        lc = {"kind": "live", "chunks": c["chunks"]}
        out.case(lc, len(snaps) > 2)
        out.hist["live"] += 1
        for k, snap in enumerate(snaps):
            m = live_model[pos + k]
            if m is not None:
                out.traces += 1
                if runnerio.codes(snap) != m:
                    out.disagree(dict(lc, reads_consumed=k), runnerio.codes(snap), m)
                    break
            if not final.startswith(snap):
                out.fail(dict(lc, reads_consumed=k), "text already yielded after %d reads %r is not an initial part of the final text %r"
                         % (k, snap[-40:], final[:60]))
                break
        pos += len(snaps)
    # (ii) gated schedules
    gcases = [runnerio.gen_case(rng, rng.choice(["output", "output", None, "fault", "timer"])) for _ in range(ctx.n(1500, 15000))]
    runnerio.run_cases(ctx, out, gcases, oracle=oracle_gated)
    # (iii) real children
    real = []
    sizes = REAL_SIZES if (ctx.thorough or ctx.escalated) else [0, 1, 1000, 1001, 65536]
    for size in sizes:
        for pty in (False, True):
            for straddle in ([1000, 65536, 2000] if ctx.thorough else [1000, 65536]):
                real.append({"kind": "real", "size": size, "pty": pty, "straddle": straddle})
    skipped = 0
    for c in real:
        try:
            why = common.with_timeout(real_child_case, 60, c["size"], c["pty"], c["straddle"])
        except common.Hang:
            why = "[hang] real child run did not return"
        except OSError as e:  # no pty available etc.
            skipped += 1
            out.hist["real_skipped:" + type(e).__name__] += 1
            continue
        out.case(c, True)
        out.hist["real_pty" if c["pty"] else "real_pipe"] += 1
        if why:
            out.fail(c, why)
    out.extra["real_children_skipped"] = skipped
    return out
