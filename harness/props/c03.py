"""C03 - every setting comes from the highest-precedence level that defines it."""
import copy
import itertools
import json
import os
import shutil
import tempfile

import common  # noqa: F401  (puts the repository on sys.path)
from common import Outcome, LeanDriver
from valcodec import enc_tree, enc_environ, enc_str, build, tag, plain, leaves, sections, typed
from props.c16 import replaced_environ, var_of

ID = "C03"
PROPS = ["Invoke/Props/C03.lean"]
TARGETS = ["drv_val"]
DRIVER_ROOTS = ["Driver/Val.lean"]
GENERATED = ["Config", "Env"]
RULE = ("cases = (type-consistent nested trees, depth <= 4, for the nine levels drawn from one random schema with partial "
        "overlap; random subsets of levels present; file levels written as real YAML/JSON/Python files in a random suffix "
        "plus decoy / broken files in lower-priority suffixes; the env level through a replaced os.environ; a random "
        "permitted order of the public load calls with constructor arguments, redundant loads and merge=False mixed in; "
        "modifications through attribute/item writes before and after load_shell_env); plus the enumeration of all 36 "
        "level pairs x depth 1-3 x {disjoint, overlapping leaf, overlapping section} and all 15 subsets of candidate "
        "suffixes per file location, CANDIDATES (every location x every non-empty subset of suffix candidates present at once x what the first "
        "existing one holds: settings, or a blank file - zero-byte, whitespace, comment-only, `---`, `null`, `~`, `{}` - or an unparsable "
        "zero-byte .json; later candidates hold different settings), level contents with SHARED sub-objects (one dict object at two paths, "
        "depth 1-3: caller dicts, YAML anchor/alias, a shared module-level object in a .py file) in the levels, history and formats "
        "families, FORMAT METAMORPHOSIS (one assignment of trees realised with yaml / yml / json / py for all "
        "file levels and with each file level alone as .py: every rendering must satisfy the property and all must give the same "
        "view; key vocabulary with one / two leading underscores, trailing underscores, dunder-like names, names of dict / DataProxy / Config "
        "methods and attributes (keys, items, get, update, merge, clone, prefix, _config, ...) and names that equal / contain / end with the "
        "env prefix (invoke, reinvoke, invoke_x, ...) at top level and nested; "
        "don't-care: top-level `__*` names in a .py file), HISTORIES on one Config object (levels loaded, replaced by different content, emptied / unloaded "
        "again, attribute writes, RUNTIME EDITS through the object (del by item / attribute, pop, clear() of a section, the same key written again, "
        "sibling deletions, depth 1-4: a removed setting is absent until written again, a written one wins over every level), loads with deferred merge=False and explicit merge(), one load_shell_env at the end; the view is read and judged after EVERY operation and the caller's "
        "input dicts are compared with snapshots), and random runs of the real CLI (Program.run: flags -> overrides, -f / INVOKE_RUNTIME_CONFIG -> "
        "runtime file, tasks.py -> collection + project file); non-trivial = some path is defined by at least two levels; distinct = distinct cases")
TRUSTED = ["Lean 4.33 kernel", "axioms propext/Classical.choice/Quot.sound only",
           "harness/props/c03.py + harness/valcodec.py correspondence and canonicalisation",
           "tools/extractors/config.py (behavioural probing of merge order and suffix order)",
           "vendored PyYAML / json / Python file parsing (format independence is a differential check only)",
           "models Invoke/Model/{Val,Levels,Env}.lean hand-written, tied by correspondence on every run"]
ASSUMPTIONS = ["level contents are type-consistent (a path is a section in every level or a leaf in every level) - the property's quantifier",
               "deletions (del cfg[...]) are outside this property (C06)",
               "the environment is read once, after the other levels are in place, as documented",
               "no two settings map to one environment variable name (that is C16's refusal)",
               "format independence is not judged for TOP-LEVEL names starting with two underscores in a Python-format file "
               "(indistinguishable from the module's own specials; documented to be stripped); file parsing itself is outside the "
               "Lean model (parsers trusted) - the format-metamorphosis family is the tie",
               "what an UNPARSABLE first candidate (zero-byte .json) does is not constrained (the clean code raises JSONDecodeError); only "
               "that no later candidate is consulted; level values are trees in the Lean model - object sharing inside a level is "
               "outside it, the shared-sub-object families are the tie",
               "between a load with merge=False and the next merging operation the merged view is not judged (merging was deferred by the caller)"]
LEVEL_TEXT = ("Lean 4 proofs (get_merge_precedence for n levels and every key path, all_defined_visible, sections_union, "
              "merge_never_raises, first_existing_suffix, load_order_irrelevant) about the model of Config.merge / merge_dicts / "
              "_load_file, stated over the merge order and suffix order regenerated from the repository by behavioural probing, "
              "tied to the implementation on every run by a differential correspondence check through the public API with real "
              "files and a direct per-path oracle")
TECHNIQUE = "Lean 4 theorems over all type-consistent level contents + regenerated order tables + model/implementation correspondence"

ORDER = ["defaults", "collection", "system", "user", "project", "env", "runtime", "overrides", "modifications"]
SUFFIXES = ["yaml", "yml", "json", "py"]
FILE_LEVELS = ["system", "user", "project", "runtime"]
KEYS = ["a", "b", "c", "d", "e", "k1", "key", "x_y", "sec", "opt", "Up", "n0"]
# names a file format might treat specially: one / two leading underscores, trailing underscores, dunder-like
UNDER_KEYS = ["_p", "__q", "t_", "__d__", "_", "_p_q", "r__"]
# keys are opaque names: names of dict / DataProxy / Config methods and attributes are ordinary setting names
METHOD_KEYS = ["keys", "items", "values", "get", "pop", "update", "copy", "clear", "setdefault", "popitem", "merge", "clone",
               "prefix", "file_prefix", "env_prefix", "load_defaults", "from_data", "_config"]
# ... and so are names that equal / contain / end with the env prefix (INVOKE_ for these cases)
PREFIX_KEYS = ["invoke", "reinvoke", "invoke_x", "x_invoke", "INVOKE", "invoke_"]


def attr_ok(k):
    """may the harness reach this setting by ATTRIBUTE syntax?  Real attributes and methods of the config object win
    over settings of the same name (documented), and private-looking names are not settings syntax: those go by item."""
    from invoke.config import Config
    dict_protocol = set(dir(dict)) | set(getattr(Config, "_proxies", ())) | {"has_key", "iteritems", "iterkeys", "itervalues"}
    return k.isidentifier() and not k.startswith("_") and not hasattr(Config, k) and k not in dict_protocol
LEAF_TYPES = ["str", "int", "bool", "none_or_str", "list", "float", "mixed"]
TYPE_W = [5, 4, 4, 2, 1, 1, 2]
ENV_TYPES = ("str", "int", "bool", "none_or_str")


# ------------------------------------------------------------------ generators

def gen_schema(rng, depth=0):
    """schema: dict key -> sub-schema (section) | leaf type name"""
    n = rng.choice([2, 3, 3, 4, 5]) if depth == 0 else rng.choice([0, 1, 2, 2, 3])
    out = {}
    keys = rng.sample(KEYS, n)
    if rng.random() < (0.5 if depth == 0 else 0.2):
        keys += rng.sample(UNDER_KEYS, rng.choice([1, 1, 2]))
    if rng.random() < 0.3:
        keys += rng.sample(METHOD_KEYS, rng.choice([1, 1, 2]))
    if rng.random() < 0.25:
        keys += rng.sample(PREFIX_KEYS, 1)
    for k in keys:
        if depth < 3 and rng.random() < 0.4:
            out[k] = gen_schema(rng, depth + 1)
        else:
            out[k] = rng.choices(LEAF_TYPES, TYPE_W)[0]
    return out


def schema_ok(schema):
    names = [var_of(p) for p, _ in leaves(schema)]
    return len(names) == len(set(names))


def gen_value(rng, ty):
    if ty == "str":
        return rng.choice(["s", "t", "", "0", "long text", "x y", "yes", "null", "1"])
    if ty == "int":
        return rng.choice([0, 1, 2, 7, -3, 100])
    if ty == "bool":
        return rng.random() < 0.5
    if ty == "none_or_str":
        return rng.choice([None, "v", "w"])
    if ty == "list":
        return rng.choice([[], [1], ["a", "b"], [1, "x"]])
    if ty == "float":
        return rng.choice([1.5, -0.25, 2.0])
    return rng.choice([1, "s", True, None, [1], 2.5])


def gen_level(rng, schema, p_in=0.55):
    out = {}
    for k, sub in schema.items():
        if rng.random() >= p_in:
            continue
        out[k] = gen_level(rng, sub, p_in) if isinstance(sub, dict) else gen_value(rng, sub)
    return out


TWIN_KEYS = ["tw", "tw2"]
BLANKS = {"yaml": ["zero", "ws", "comment", "dashes", "null", "tilde", "braces"],
          "yml": ["zero", "ws", "comment", "dashes", "null", "tilde", "braces"],
          "json": ["null", "braces"], "py": ["zero", "comment"]}
BLANK_TEXT = {"zero": "", "ws": "  \n\n", "comment": "# nothing here\n", "dashes": "---\n", "null": "null\n", "tilde": "~\n",
              "braces": "{}\n"}


def get_at(tree, path):
    cur = tree
    for k in path:
        if not isinstance(cur, dict) or k not in cur:
            return None
        cur = cur[k]
    return cur


def add_twins(rng, schema):
    """give some section of the schema a twin: a second key (under the root or another section) with the SAME
    sub-schema, so that a level can hold one dict object at both paths.  -> list of [path, twin path]"""
    secs = [p for p in sections(schema) if len(p) <= 3]
    twins = []
    for _ in range(rng.choice([1, 1, 2])):
        if not secs:
            break
        pa = rng.choice(secs)
        parents = [()] + [p for p in secs if len(p) <= 2 and p[:len(pa)] != pa]
        par = rng.choice(parents) if not twins else ()  # (a later twin never lands inside an earlier one)
        holder = get_at(schema, par)
        key = next((k for k in TWIN_KEYS if k not in holder), None)
        if key is None:
            continue
        holder[key] = copy.deepcopy(get_at(schema, pa))
        twins.append([list(pa), list(par) + [key]])
    return twins


def gen_schema_tw(rng, need_leaves=False):
    while True:
        schema = gen_schema(rng)
        twins = add_twins(rng, schema) if rng.random() < 0.4 else []
        if schema_ok(schema) and (not need_leaves or list(leaves(schema))):
            return schema, twins


def gen_level_sh(rng, schema, twins, p_in=0.55):
    """a level tree (expanded) plus the pairs of paths at which the real data holds ONE shared dict object"""
    tree = gen_level(rng, schema, p_in)
    shares = []
    for pa, pb in twins:
        src = get_at(tree, pa)
        if isinstance(src, dict) and src and rng.random() < 0.65:
            cur = tree
            ok = True
            for k in pb[:-1]:
                if not isinstance(cur.setdefault(k, {}), dict):
                    ok = False
                    break
                cur = cur[k]
            if ok and get_at(tree, pa) is not None:
                cur[pb[-1]] = copy.deepcopy(get_at(tree, pa))
                shares.append([pa, pb])
    return tree, shares


def build_sh(tagged, shares):
    """real data for a tagged tree, with one dict OBJECT at both paths of every share"""
    data = build(tagged)
    for pa, pb in shares or []:
        src = get_at(data, pa)
        holder = get_at(data, pb[:-1])
        if isinstance(src, dict) and isinstance(holder, dict):
            holder[pb[-1]] = src
    return data


def py_render(data):
    """Python-format config file; a dict object occurring more than once becomes ONE module-level object that is
    referenced from every place (`__sharedN`: double-underscore names are not settings)"""
    counts = {}

    def walk(o):
        if isinstance(o, dict):
            counts[id(o)] = counts.get(id(o), 0) + 1
            if counts[id(o)] == 1:
                for v in o.values():
                    walk(v)
    walk(data)
    names, lines = {}, []

    def expr(o):
        if isinstance(o, dict):
            if counts.get(id(o), 0) > 1 and o is not data:
                if id(o) not in names:
                    body = "{" + ", ".join("%r: %s" % (k, expr(v)) for k, v in o.items()) + "}"
                    names[id(o)] = "__shared%d" % len(names)
                    lines.append("%s = %s" % (names[id(o)], body))
                return names[id(o)]
            return "{" + ", ".join("%r: %s" % (k, expr(v)) for k, v in o.items()) + "}"
        return repr(o)
    top = ["%s = %s" % (k, expr(v)) for k, v in data.items()]
    return "".join(l + "\n" for l in lines + top)


def overlay(base, upd):
    out = copy.deepcopy(base)
    for k, v in upd.items():
        if isinstance(v, dict):
            out[k] = overlay(out[k] if isinstance(out.get(k), dict) else {}, v)
        else:
            out[k] = copy.deepcopy(v)
    return out


def schema_type(schema, p):
    cur = schema
    for k in p:
        cur = cur[k]
    return cur


def env_value(rng, ty):
    if ty == "int":
        return rng.choice(["5", "-2", "0", " 9 ", "1_0"])
    if ty == "bool":
        return rng.choice(["1", "0", "", "yes", "false"])
    return rng.choice(["E", "", "env value", "0"])


def gen_case(rng):
    schema, twins = gen_schema_tw(rng)
    levels, shares = {}, {}
    for lvl in ORDER:
        if lvl in ("env", "modifications"):
            continue
        if rng.random() < 0.7:
            t, sh = gen_level_sh(rng, schema, twins)
            levels[lvl] = tag(t)
            if sh:
                shares[lvl] = sh
        else:
            levels[lvl] = None
    mods_a = gen_level(rng, schema, 0.3) if rng.random() < 0.5 else {}
    mods_b = gen_level(rng, schema, 0.3) if rng.random() < 0.6 else {}
    files = {}
    for lvl in FILE_LEVELS:
        if levels[lvl] is None:
            continue
        i = rng.randrange(4)
        f = {"suffix": SUFFIXES[i], "decoys": [], "broken": []}
        if lvl != "runtime":
            for j in range(i + 1, 4):
                r = rng.random()
                if r < 0.35:
                    f["decoys"].append(SUFFIXES[j])
                elif r < 0.45:
                    f["broken"].append(SUFFIXES[j])
        if rng.random() < 0.12:
            # the first existing candidate holds NO settings (the level is empty); later candidates must not be consulted
            levels[lvl] = {}
            shares.pop(lvl, None)
            f["blank"] = rng.choice(BLANKS[f["suffix"]])
            if lvl != "runtime" and i < 3 and not f["decoys"]:
                f["decoys"].append(SUFFIXES[rng.randrange(i + 1, 4)])
                f["broken"] = [x for x in f["broken"] if x not in f["decoys"]]
        files[lvl] = f
    # the environment names settings that exist in the other levels when load_shell_env runs
    at_load = {}
    for lvl in ORDER:
        if lvl == "env":
            continue
        data = mods_a if lvl == "modifications" else (build(levels[lvl]) if levels[lvl] is not None else {})
        at_load = overlay(at_load, data)
    environ = {}
    if rng.random() < 0.75:
        for p, _ in leaves(at_load):
            ty = schema_type(schema, p)
            if ty in ENV_TYPES and rng.random() < 0.4:
                environ["INVOKE_" + var_of(p)] = env_value(rng, ty)
    if rng.random() < 0.5:
        environ["INVOKE_NOT_A_SETTING"] = "1"
    ctor = {"defaults": rng.random() < 0.5, "overrides": rng.random() < 0.5, "project": rng.random() < 0.4,
            "runtime": rng.random() < 0.4, "lazy": rng.random() < 0.6}
    steps = ["collection", "project", "runtime", "modsA"]
    if not ctor["defaults"]:
        steps.append("defaults")
    if not ctor["overrides"]:
        steps.append("overrides")
    if ctor["lazy"]:
        steps += ["system", "user"]
    steps += rng.sample(["system", "user", "project", "runtime"], rng.choice([0, 0, 1, 2]))  # redundant loads
    rng.shuffle(steps)
    nomerge = [rng.random() < 0.25 for _ in steps]
    return {"kind": "levels", "schema": schema, "levels": levels, "shares": shares, "files": files, "modsA": tag(mods_a), "modsB": tag(mods_b),
            "environ": environ, "ctor": ctor, "steps": steps, "nomerge": nomerge, "style": rng.randrange(1 << 16)}


def pair_cases(formats=("json",)):
    """all 36 level pairs x depth 1-3 x {disjoint, overlapping leaf, overlapping section}"""
    out = []
    for (i, lo), (j, hi) in itertools.combinations(enumerate(ORDER), 2):
        for depth in (1, 2, 3):
            for shape in ("disjoint", "leaf", "section"):
                for fmt in formats:
                    out.append(pair_case(lo, hi, depth, shape, fmt))
    return out


def nest(path, inner):
    for k in reversed(path):
        inner = {k: inner}
    return inner


def pair_case(lo, hi, depth, shape, fmt):
    path = ["a", "b", "c"][:depth - 1]
    if shape == "disjoint":
        t_lo, t_hi = nest(path, {"x": "lo"}), nest(path, {"y": "hi"})
    elif shape == "leaf":
        t_lo, t_hi = nest(path, {"x": "lo", "only_lo": "lo"}), nest(path, {"x": "hi", "only_hi": "hi"})
    else:
        t_lo, t_hi = nest(path, {"s": {"x": "lo", "p": "lo"}}), nest(path, {"s": {"x": "hi", "q": "hi"}})
    levels = {l: None for l in ORDER if l not in ("env", "modifications")}
    mods_a, environ = {}, {}
    trees = {lo: t_lo, hi: t_hi}
    # the environment can only override existing settings: a supporting lowest level provides them
    if "env" in trees:
        support = "collection" if "defaults" in trees else "defaults"
        t_env = trees.pop("env")
        trees[support] = overlay(trees.get(support, {}), {k: v for k, v in _retag(t_env, "support").items()})
        for p, v in leaves(t_env):
            environ["INVOKE_" + var_of(p)] = v
    for l, t in trees.items():
        if l == "modifications":
            mods_a = t
        else:
            levels[l] = tag(t)
    files = {l: {"suffix": fmt, "decoys": [], "broken": []} for l in FILE_LEVELS if levels.get(l) is not None}
    steps = ["collection", "project", "runtime", "defaults", "overrides", "system", "user", "modsA"]
    return {"kind": "levels", "schema": None, "levels": levels, "files": files, "modsA": tag(mods_a), "modsB": {},
            "environ": environ, "ctor": {"defaults": False, "overrides": False, "project": False, "runtime": False, "lazy": True},
            "steps": steps, "nomerge": [False] * len(steps), "style": 0, "pair": [lo, hi, depth, shape, fmt]}


def _retag(t, val):
    return {k: (_retag(v, val) if isinstance(v, dict) else val) for k, v in t.items()}


def suffix_cases():
    out = []
    for loc in ("system", "user", "project"):
        for n in range(0, 5):
            for present in itertools.combinations(SUFFIXES, n):
                out.append({"kind": "suffix", "loc": loc, "present": list(present)})
    return out


def merge_cases(ctx, rng):
    out = []
    for _ in range(ctx.n(400, 6000)):
        while True:
            schema = gen_schema(rng)
            if schema:
                break
        a, b = gen_level(rng, schema, 0.6), gen_level(rng, schema, 0.6)
        if rng.random() < 0.3:  # break type consistency somewhere
            ps = [p for p, _ in leaves(b)] + list(sections(b))
            if ps:
                p = rng.choice(ps)
                cur = b
                for k in p[:-1]:
                    cur = cur[k]
                cur[p[-1]] = {"z": 1} if not isinstance(cur[p[-1]], dict) else 5
        out.append({"kind": "merge", "base": tag(a), "upd": tag(b)})
    return out



# ------------------------------------------------------------------ the real CLI lifecycle (invoke.program.Program)

FLAG_SETTINGS = [(("run", "echo"), "-e", True), (("run", "warn"), "-w", True), (("tasks", "dedupe"), "--no-dedupe", False),
                 (("timeouts", "command"), "-T", 7)]
CLI_SCHEMA = {"verif": {"x": "str", "n": "int", "flag": "bool", "s": {"y": "str", "z": "none_or_str"}},
              "run": {"echo": "bool", "warn": "bool"}, "tasks": {"dedupe": "bool"}, "timeouts": {"command": "int"}}


def gen_program_case(rng):
    levels = {}
    for lvl in ("defaults", "collection", "system", "user", "project", "runtime"):
        if rng.random() < 0.65:
            sch = CLI_SCHEMA if lvl != "defaults" else {"verif": CLI_SCHEMA["verif"]}
            levels[lvl] = tag(gen_level(rng, sch, 0.5))
        else:
            levels[lvl] = None
    flags = [i for i in range(len(FLAG_SETTINGS)) if rng.random() < 0.4]
    environ = {}
    for p, ty in leaves(CLI_SCHEMA):
        if rng.random() < 0.25:
            environ["INVOKE_" + var_of(p)] = env_value(rng, ty)
    files = {l: rng.choice(SUFFIXES) for l in FILE_LEVELS if levels.get(l) is not None}
    return {"kind": "program", "levels": levels, "flags": flags, "environ": environ, "files": files,
            "runtime_via_env": rng.random() < 0.4}


TASKS_PY = """
import json
from invoke import task, Collection

@task
def probe(c):
    cfg = c.config
    def plain(o):
        return {k: plain(o[k]) for k in o.keys()} if hasattr(o, "keys") else o
    out = {"verif": plain(cfg["verif"]) if "verif" in cfg else None,
           "run": {"echo": cfg.run.echo, "warn": cfg.run.warn}, "tasks": {"dedupe": cfg.tasks.dedupe},
           "timeouts": {"command": cfg.timeouts.command}}
    with open(%r, "w") as f:
        json.dump(out, f)

ns = Collection(probe)
ns.configure(%r)
"""


def run_program(case):
    """-> (observed settings | None, exception class | None, the class' global defaults restricted to the observed paths)"""
    import io
    import contextlib
    from invoke.config import Config
    from invoke.program import Program
    root = tempfile.mkdtemp(prefix="verif_c03_")
    try:
        dirs = {k: os.path.join(root, k) for k in ("system", "user", "project")}
        for d in dirs.values():
            os.makedirs(d)
        lv = {l: (build(t) if t is not None else None) for l, t in case["levels"].items()}
        extra_defaults = copy.deepcopy(lv["defaults"] or {})

        class CliConfig(Config):
            @staticmethod
            def global_defaults():
                d = Config.global_defaults()
                d.update(copy.deepcopy(extra_defaults))
                return d

            def __init__(self, *a, **kw):
                kw.setdefault("system_prefix", os.path.join(dirs["system"], ""))
                kw.setdefault("user_prefix", os.path.join(dirs["user"], "."))
                super().__init__(*a, **kw)
        stems = {"system": os.path.join(dirs["system"], "invoke."), "user": os.path.join(dirs["user"], ".invoke."),
                 "project": os.path.join(dirs["project"], "invoke.")}
        rt_path = None
        for lvl, sfx in case["files"].items():
            if lvl == "runtime":
                rt_path = os.path.join(root, "rt." + sfx)
                write_file(rt_path, sfx, lv[lvl])
            else:
                write_file(stems[lvl] + sfx, sfx, lv[lvl])
        dump = os.path.join(root, "observed.json")
        with open(os.path.join(dirs["project"], "tasks.py"), "w") as f:
            f.write(TASKS_PY % (dump, lv["collection"] or {}))
        argv = ["inv", "--search-root", dirs["project"]]
        environ = dict(case["environ"])
        if rt_path:
            if case["runtime_via_env"]:
                environ["INVOKE_RUNTIME_CONFIG"] = rt_path
            else:
                argv += ["-f", rt_path]
        for i in case["flags"]:
            _, flag, val = FLAG_SETTINGS[i]
            argv += [flag] + ([str(val)] if flag == "-T" else [])
        argv.append("probe")
        gd = plain(Config.global_defaults())
        base = {"run": {"echo": gd["run"]["echo"], "warn": gd["run"]["warn"]}, "tasks": {"dedupe": gd["tasks"]["dedupe"]},
                "timeouts": {"command": gd["timeouts"]["command"]}}
        try:
            with replaced_environ(environ), contextlib.redirect_stdout(io.StringIO()), contextlib.redirect_stderr(io.StringIO()):
                Program(config_class=CliConfig).run(argv, exit=False)
            with open(dump) as f:
                return json.load(f), None, base
        except BaseException as e:  # noqa  (Exit / SystemExit included)
            return None, type(e).__name__, base
    finally:
        shutil.rmtree(root, ignore_errors=True)


def oracle_program(case, seen, exc, base):
    if exc is not None:
        return "running the CLI with a type-consistent configuration raised %s" % exc
    t = {l: (build(x) if x is not None else {}) for l, x in case["levels"].items()}
    t["defaults"] = overlay(base, t["defaults"])
    t["overrides"] = {}
    for i in case["flags"]:
        p, _, val = FLAG_SETTINGS[i]
        t["overrides"] = overlay(t["overrides"], nest(list(p[:-1]), {p[-1]: val}))
    t["modifications"] = {}
    lower = {}
    for lvl in ORDER:
        if lvl != "env":
            lower = overlay(lower, t[lvl])
    env = {}
    for p, cur in leaves(lower):
        name = "INVOKE_" + var_of(p)
        if name in case["environ"]:
            env = overlay(env, nest(list(p[:-1]), {p[-1]: cast_env(cur, case["environ"][name])}))
    t["env"] = env
    want = {}
    for lvl in ORDER:
        for p, v in leaves(t[lvl]):
            want[p] = (lvl, typed(v))
    got = {p: typed(v) for p, v in leaves({k: v for k, v in seen.items() if v is not None})}
    for p, (lvl, tv) in want.items():
        if got.get(p) != tv:
            return "CLI run: setting %s shows %s but the highest level defining it (%s) says %s" % (
                ".".join(p), got.get(p, ("", "<absent>"))[1], lvl, tv[1])
    if set(got) - set(want):
        return "CLI run: setting %s is visible but no level defines it" % ".".join(sorted(set(got) - set(want))[0])
    return None

# ------------------------------------------------------------------ running the real code

def write_file(path, suffix, data, blank=None):
    if blank is not None:
        text = BLANK_TEXT[blank]  # an existing file that holds no settings
    elif suffix in ("yaml", "yml"):
        from invoke.vendor import yaml
        text = yaml.safe_dump(data)  # a dict object occurring twice becomes an anchor / alias pair
    elif suffix == "json":
        text = json.dumps(data)
    else:
        text = py_render(data)
    with open(path, "w") as f:
        f.write(text)


def apply_mods(c, tree, style):
    """realise a modifications-level tree through attribute / item writes on the live config"""
    import random
    r = random.Random(style)

    def write(cur, k, v):
        if r.random() < 0.5 and attr_ok(k):
            setattr(cur, k, v)
        else:
            cur[k] = v

    def go(cur, t):
        items = list(t.items())
        r.shuffle(items)
        for k, v in items:
            if isinstance(v, dict):
                if k not in cur:
                    if r.random() < 0.5:
                        write(cur, k, copy.deepcopy(v))  # a whole new section at once
                        continue
                    write(cur, k, {})
                go(getattr(cur, k) if (r.random() < 0.5 and attr_ok(k)) else cur[k], v)
            else:
                write(cur, k, copy.deepcopy(v))
    go(c, tree)


def run_levels(case):
    """Build the configuration through the public API.  -> (view | None, exception class | None)"""
    from invoke.config import Config
    root = tempfile.mkdtemp(prefix="verif_c03_")
    try:
        dirs = {"system": os.path.join(root, "sys"), "user": os.path.join(root, "user"), "project": os.path.join(root, "proj")}
        for d in dirs.values():
            os.makedirs(d)
        prefixes = {"system": os.path.join(dirs["system"], "invoke."), "user": os.path.join(dirs["user"], ".invoke."),
                    "project": os.path.join(dirs["project"], "invoke.")}
        sh = case.get("shares") or {}
        lv = {l: (build_sh(t, sh.get(l)) if t is not None else None) for l, t in case["levels"].items()}
        rt_path = None
        for lvl, f in case["files"].items():
            if lvl == "runtime":
                rt_path = os.path.join(root, "runtime_conf." + f["suffix"])
                write_file(rt_path, f["suffix"], lv[lvl], f.get("blank"))
                continue
            write_file(prefixes[lvl] + f["suffix"], f["suffix"], lv[lvl], f.get("blank"))
            for s in f["decoys"]:
                write_file(prefixes[lvl] + s, s, {"decoy": s})
            for s in f["broken"]:
                with open(prefixes[lvl] + s, "w") as fh:
                    fh.write("{ this is : not [ valid ( in any format\n")
        ctor = case["ctor"]
        with replaced_environ(case["environ"]):
            kw = {"system_prefix": os.path.join(dirs["system"], ""), "user_prefix": os.path.join(dirs["user"], "."),
                  "lazy": ctor["lazy"]}
            kw["defaults"] = copy.deepcopy(lv["defaults"] or {}) if ctor["defaults"] else {}
            if ctor["overrides"]:
                kw["overrides"] = copy.deepcopy(lv["overrides"] or {})
            if ctor["project"]:
                kw["project_location"] = dirs["project"]
            if ctor["runtime"] and rt_path:
                kw["runtime_path"] = rt_path
            c = Config(**kw)
            project_set = ctor["project"]
            runtime_set = ctor["runtime"] and rt_path is not None
            for step, nm in zip(case["steps"], case["nomerge"]):
                m = {"merge": False} if nm else {}
                if step == "defaults":
                    c.load_defaults(copy.deepcopy(lv["defaults"] or {}), **m)
                elif step == "overrides":
                    c.load_overrides(copy.deepcopy(lv["overrides"] or {}), **m)
                elif step == "collection":
                    if lv["collection"] is not None:
                        c.load_collection(copy.deepcopy(lv["collection"]), **m)
                elif step == "system":
                    c.load_system(**m)
                elif step == "user":
                    c.load_user(**m)
                elif step == "project":
                    if not project_set:
                        c.set_project_location(dirs["project"])
                        project_set = True
                    c.load_project(**m)
                elif step == "runtime":
                    if not runtime_set and rt_path is not None:
                        c.set_runtime_path(rt_path)
                        runtime_set = True
                    c.load_runtime(**m)
                elif step == "modsA":
                    apply_mods(c, build(case["modsA"]), case["style"])
            c.load_shell_env()
            apply_mods(c, build(case["modsB"]), case["style"] + 1)
            return plain(c), None
    except Exception as e:  # noqa
        return None, type(e).__name__
    finally:
        shutil.rmtree(root, ignore_errors=True)


def run_suffix(case):
    from invoke.config import Config
    root = tempfile.mkdtemp(prefix="verif_c03_")
    try:
        d = os.path.join(root, "loc")
        os.makedirs(d)
        stem = os.path.join(d, ".invoke." if case["loc"] == "user" else "invoke.")
        for s in case["present"]:
            write_file(stem + s, s, {"which": s})
        none = os.path.join(root, "none", "")
        with replaced_environ({}):
            kw = {"defaults": {}, "system_prefix": none, "user_prefix": none + ".", "lazy": True}
            if case["loc"] == "system":
                kw["system_prefix"] = os.path.join(d, "")
            elif case["loc"] == "user":
                kw["user_prefix"] = os.path.join(d, ".")
            c = Config(**kw)
            if case["loc"] == "project":
                c.set_project_location(d)
            getattr(c, "load_" + case["loc"])()
            return c["which"] if "which" in c else "none"
    finally:
        shutil.rmtree(root, ignore_errors=True)


def run_merge(case):
    try:
        from invoke.config import merge_dicts, copy_dict
    except ImportError:
        return None
    try:
        return "ok " + enc_tree(merge_dicts(copy_dict(build(case["base"])), build(case["upd"])), canon=True)
    except Exception as e:  # noqa
        return "err:" + type(e).__name__


# ------------------------------------------------------------------ oracle: the property, stated directly

def cast_env(cur, s):
    if isinstance(cur, bool):
        return s not in ("0", "")
    if isinstance(cur, int):
        return int(s)
    return s


def level_trees(case):
    """contents of the nine levels as the case defines them (the env level: the existing settings named by the
    environment when load_shell_env ran, converted by the type of the value visible at that moment)"""
    t = {l: (build(x) if x is not None else {}) for l, x in case["levels"].items()}
    mods_a, mods_b = build(case["modsA"]), build(case["modsB"])
    at_load = {}
    for lvl in ORDER:
        if lvl != "env":
            at_load = overlay(at_load, mods_a if lvl == "modifications" else t[lvl])
    env = {}
    for p, cur in leaves(at_load):
        name = "INVOKE_" + var_of(p)
        if name in case["environ"]:
            d = env
            for k in p[:-1]:
                d = d.setdefault(k, {})
            d[p[-1]] = cast_env(cur, case["environ"][name])
    t["env"] = env
    t["modifications"] = overlay(mods_a, mods_b)
    return t


def dunder_roots(case):
    """DON'T-CARE region of format independence: a TOP-LEVEL name starting with two underscores in a PYTHON-format
    file cannot be told from the module's own specials (__name__, __doc__, __builtins__, …) and is documented to be
    stripped; whether such a key of a .py level is defined is not judged (the same key in YAML/JSON, nested keys, and
    names with ONE leading underscore are judged)."""
    roots = set()
    for lvl, f in case.get("files", {}).items():
        sfx = f["suffix"] if isinstance(f, dict) else f
        if sfx == "py" and case["levels"].get(lvl) is not None:
            roots |= {k for k in case["levels"][lvl] if k.startswith("__")}
    return roots


def without_roots(tree, roots):
    return {k: v for k, v in tree.items() if k not in roots} if roots else tree


def oracle_levels(case, view, exc):
    if exc is not None:
        return "building a type-consistent configuration through the public API raised %s" % exc
    roots = dunder_roots(case)
    t = {l: without_roots(x, roots) for l, x in level_trees(case).items()}
    view = without_roots(view, roots)
    want = {}
    for lvl in ORDER:  # documented precedence, lowest first: a later level overrides
        for p, v in leaves(t[lvl]):
            want[p] = (lvl, typed(v))
    got = {p: typed(v) for p, v in leaves(view)}
    for p, (lvl, tv) in want.items():
        if p not in got:
            return "setting %s defined by level %s is not visible" % (".".join(p), lvl)
        if got[p] != tv:
            return "setting %s shows %s but the highest level defining it (%s) says %s" % (".".join(p), got[p][1], lvl, tv[1])
    extra = set(got) - set(want)
    if extra:
        return "setting %s is visible but no level defines it" % ".".join(sorted(extra)[0])
    secs = set()
    for lvl in ORDER:
        secs |= set(sections(t[lvl]))
    if set(sections(view)) != secs:
        return "sections are not the union of the levels' sections: %r" % sorted(set(sections(view)) ^ secs)[:3]
    return None


def oracle_suffix(case, got):
    want = next((s for s in SUFFIXES if s in case["present"]), "none")
    return None if got == want else "files %r exist: %s was read, the first in the documented order is %s" % (case["present"], got, want)


def replay(case):
    if case["kind"] == "levels":
        view, exc = run_levels(case)
        why = oracle_levels(case, view, exc)
        return why is None, why or "ok"
    if case["kind"] == "suffix":
        got = run_suffix(case)
        why = oracle_suffix(case, got)
        return why is None, why or "ok (%s)" % got
    if case["kind"] == "candidates":
        why = oracle_candidates(case, *run_candidates(case))
        return why is None, why or "ok"
    if case["kind"] == "formats":
        why = check_formats(case)
        return why is None, why or "ok"
    if case["kind"] == "history":
        why = oracle_history(case, *run_history(case))
        return why is None, why or "ok"
    if case["kind"] == "program":
        seen, exc, base = run_program(case)
        why = oracle_program(case, seen, exc, base)
        return why is None, why or "ok"
    return True, "auxiliary differential case (no property statement attached)"



# ------------------------------------------------------------------ histories on ONE object: levels loaded, replaced, emptied

HIST_CODE = {"defaults": "d", "collection": "c", "system": "s", "user": "u", "project": "p", "runtime": "r",
             "overrides": "o", "modifications": "m"}


def gen_history(rng):
    schema, twins = gen_schema_tw(rng, need_leaves=True)

    def level_op(lvl, p_in, **kw):
        t, sh = gen_level_sh(rng, schema, twins, p_in)
        op = dict({"op": lvl, "tree": tag(t)}, **kw)
        if sh:
            op["shares"] = sh
        return op
    ops = []
    for lvl in ("system", "user"):
        if rng.random() < 0.5:
            ops.append(level_op(lvl, 0.55, suffix=rng.choice(SUFFIXES)))
    n = rng.randint(4, 9)
    for _ in range(n):
        r = rng.random()
        if r < 0.45:
            lvl = rng.choice(["defaults", "collection", "overrides"])
            ops.append({"op": lvl, "tree": {}} if rng.random() < 0.25 else level_op(lvl, rng.choice([0.3, 0.6, 0.9])))
        elif r < 0.75:
            lvl = rng.choice(["project", "runtime"])
            if rng.random() < 0.3:
                # unloaded again: the path / location is un-set (None), or the location has no config file
                ops.append({"op": lvl, "tree": None, "unset": lvl == "runtime" or rng.random() < 0.5})
            else:
                ops.append(level_op(lvl, rng.choice([0.3, 0.6, 0.9]), suffix=rng.choice(SUFFIXES)))
        else:
            lv = list(leaves(schema))
            p, ty = rng.choice(lv)
            ops.append({"op": "write", "path": list(p), "value": tag(gen_value(rng, ty))})
    for op in ops:
        if op["op"] in HIST_CODE and rng.random() < 0.3:
            op["merge"] = False  # deferred merging
    ops += [{"op": "merge"} for _ in range(rng.choice([0, 0, 1]))]
    rng.shuffle(ops)
    if rng.random() < 0.6:
        # the environment is read once the other levels are in place; only attribute writes follow
        state = hist_levels(ops)
        at_load = {}
        for lvl in ORDER:
            if lvl != "env":
                at_load = overlay(at_load, state[lvl])
        environ = {}
        for p, _ in leaves(at_load):
            ty = schema_type(schema, p)
            if ty in ENV_TYPES and rng.random() < 0.4:
                environ["INVOKE_" + var_of(p)] = env_value(rng, ty)
        ops.append({"op": "env", "environ": environ})
        for _ in range(rng.choice([0, 1, 2])):
            p, ty = rng.choice(list(leaves(schema)))
            ops.append({"op": "write", "path": list(p), "value": tag(gen_value(rng, ty))})
    return {"kind": "history", "ops": insert_edits(rng, schema, ops)}


def hist_visible(st):
    """the view the levels `st` (with its runtime deletions) define: {leaf path: value}"""
    want = {}
    for lvl in ORDER:
        for p, v in leaves(st[lvl]):
            want[p] = v
    for p in st.get("_deleted", ()):
        want.pop(tuple(p), None)
    return want


def insert_edits(rng, schema, ops):
    """runtime edits THROUGH the object between the loads: delete a visible setting (del by item / attribute, pop), clear() a
    section of leaves, write the same key again later (or never), delete siblings - at whatever depth the schema has"""
    if rng.random() < 0.45:
        return ops
    out, pending = [], []
    roots = hist_roots({"ops": ops})  # (not judged, so not edited either: a .py level may or may not carry them)

    def recreates_deleted_section(p):
        """would this write have to (re)create a parent section under which runtime deletions are recorded?  Writing a
        section over runtime-deleted content is C06's recorded finding (section-rewrite-resurrects) - not generated here."""
        st = hist_levels(out)
        if not any(d[0] == p[0] for d in st["_deleted"]):
            return False
        if hist_stale(out):
            return True
        secs = set()
        for lvl in ORDER:
            secs |= set(sections(st[lvl]))
        return any(tuple(p[:j]) not in secs for j in range(1, len(p)))
    for i, op in enumerate(ops):
        if op["op"] == "write" and recreates_deleted_section(tuple(op["path"])):
            continue
        out.append(op)
        if hist_stale(out):
            continue  # (edits go through the merged cache; while a merge is deferred only writes are generated)
        for _ in range(rng.choice([0, 0, 1, 1, 2])):
            vis = {p: v for p, v in hist_visible(hist_levels(out)).items() if p[0] not in roots}
            r = rng.random()
            if pending and r < 0.35:
                p = pending.pop(rng.randrange(len(pending)))  # write the deleted key again: the runtime level defines it
                if recreates_deleted_section(p):
                    continue
                out.append({"op": "write", "path": list(p), "value": tag(gen_value(rng, schema_type(schema, p)))})
            elif vis and r < 0.8:
                deep = [p for p in vis if len(p) >= 3]
                p = rng.choice(deep) if deep and rng.random() < 0.6 else rng.choice(sorted(vis))
                out.append({"op": "del", "path": list(p), "how": rng.choice(["item", "attr", "pop"])})
                pending.append(p)
                sib = [q for q in vis if q[:-1] == p[:-1] and q != p]
                if sib and rng.random() < 0.3:
                    q = rng.choice(sorted(sib))
                    out.append({"op": "del", "path": list(q), "how": rng.choice(["item", "attr", "pop"])})
                    pending.append(q)
            elif vis:
                st = hist_levels(out)
                secs = set()
                for lvl in ORDER:
                    secs |= set(sections(st[lvl]))
                flat = [sp for sp in secs if not any(x[:len(sp)] == sp and x != sp for x in secs) and any(q[:-1] == sp for q in vis)]
                if flat:
                    sp = rng.choice(sorted(flat))
                    out.append({"op": "clear", "path": list(sp)})
                    pending += [q for q in vis if q[:-1] == sp]
    return out


def hist_roots(case):
    """don't-care roots of a history (see dunder_roots): top-level `__*` names given to a level through a .py file"""
    roots = set()
    for op in case["ops"]:
        if op.get("suffix") == "py" and op.get("tree"):
            roots |= {k for k in op["tree"] if k.startswith("__")}
    return roots


def hist_stale(ops):
    """is the merged cache out of date after these operations?  (a load with merge=False defers merging until some
    later operation merges: a merging load, an attribute write, load_shell_env, or merge())"""
    stale = False
    seen = set()
    for op in ops:
        k = op["op"]
        if k in ("system", "user") and k in seen:
            continue  # the second load_system()/load_user() returns at once, merging nothing
        seen.add(k)
        if k in HIST_CODE and k != "modifications":
            stale = True if op.get("merge") is False else False
        else:
            stale = False
    return stale


def hist_levels(ops):
    """level contents after the given operations (the env level: as computed when load_shell_env ran)"""
    st = {l: {} for l in ORDER}
    st["_deleted"] = []
    for op in ops:
        k = op["op"]
        if k == "merge":
            continue
        if k == "del":
            if tuple(op["path"]) not in st["_deleted"]:
                st["_deleted"].append(tuple(op["path"]))
        elif k == "clear":
            for q in hist_visible(st):
                if list(q[:-1]) == op["path"] and q not in st["_deleted"]:
                    st["_deleted"].append(q)
        elif k == "write":
            st["modifications"] = overlay(st["modifications"], nest(op["path"], build(op["value"])))
            if tuple(op["path"]) in st["_deleted"]:
                st["_deleted"].remove(tuple(op["path"]))  # written again: the runtime level defines it, it wins
        elif k == "env":
            at_load = {}
            for lvl in ORDER:
                if lvl != "env":
                    at_load = overlay(at_load, st[lvl])
            env = {}
            for p, cur in leaves(at_load):
                if p in st["_deleted"]:
                    continue  # a setting removed at runtime is not an existing setting
                name = "INVOKE_" + var_of(p)
                if name in op["environ"]:
                    env = overlay(env, nest(list(p[:-1]), {p[-1]: cast_env(cur, op["environ"][name])}))
            st["env"] = env
        elif k in ("system", "user") and st.get("_" + k):
            pass  # a second load_system()/load_user() is a no-op
        else:
            st[k] = build(op["tree"]) if op["tree"] is not None else {}
            if k in ("system", "user"):
                st["_" + k] = True
    return st


def run_history(case):
    """-> (views after every operation, exception class | None, names of caller-held dicts that were changed)"""
    from invoke.config import Config
    root = tempfile.mkdtemp(prefix="verif_c03_")
    views, held = [], []
    try:
        sysd, userd = os.path.join(root, "sys"), os.path.join(root, "user")
        os.makedirs(sysd)
        os.makedirs(userd)
        with replaced_environ({}):
            c = Config(defaults={}, system_prefix=os.path.join(sysd, ""), user_prefix=os.path.join(userd, "."), lazy=True)
            for i, op in enumerate(case["ops"]):
                k = op["op"]
                mk = {"merge": False} if op.get("merge") is False else {}
                if k in ("defaults", "collection", "overrides"):
                    data = build_sh(op["tree"], op.get("shares"))
                    held.append((k, i, data, copy.deepcopy(data)))
                    getattr(c, "load_" + k)(data, **mk)
                elif k == "merge":
                    c.merge()
                elif k in ("system", "user"):
                    stem = os.path.join(sysd, "invoke.") if k == "system" else os.path.join(userd, ".invoke.")
                    if not any(f.startswith(os.path.basename(stem)) for f in os.listdir(os.path.dirname(stem))):
                        write_file(stem + op["suffix"], op["suffix"], build_sh(op["tree"], op.get("shares")))
                    getattr(c, "load_" + k)(**mk)
                elif k == "project":
                    d = os.path.join(root, "proj%d" % i)
                    os.makedirs(d)
                    if op["tree"] is not None:
                        write_file(os.path.join(d, "invoke." + op["suffix"]), op["suffix"], build_sh(op["tree"], op.get("shares")))
                    c.set_project_location(None if op.get("unset") else d)
                    c.load_project(**mk)
                elif k == "runtime":
                    path = None
                    if op["tree"] is not None:
                        path = os.path.join(root, "rt%d.%s" % (i, op["suffix"]))
                        write_file(path, op["suffix"], build_sh(op["tree"], op.get("shares")))
                    c.set_runtime_path(path)
                    c.load_runtime(**mk)
                elif k == "write":
                    cur = c
                    for key in op["path"][:-1]:
                        if key not in cur:
                            cur[key] = {}
                        cur = cur[key]
                    cur[op["path"][-1]] = build(op["value"])
                elif k in ("del", "clear"):
                    cur = c
                    path = op["path"] if k == "clear" else op["path"][:-1]
                    for n, key in enumerate(path):
                        plain_attr = attr_ok(key)
                        cur = getattr(cur, key) if (plain_attr and (i + n) % 2) else cur[key]
                    if k == "clear":
                        cur.clear()
                    else:
                        key = op["path"][-1]
                        how = op["how"] if attr_ok(key) or op["how"] != "attr" else "item"
                        if how == "attr":
                            delattr(cur, key)
                        elif how == "pop":
                            cur.pop(key)
                        else:
                            del cur[key]
                elif k == "env":
                    os.environ.update(op["environ"])
                    try:
                        c.load_shell_env()
                    finally:
                        os.environ.clear()
                views.append(plain(c))
        changed = ["%s (operation %d)" % (k, i) for k, i, d, snap in held
                   if {p: typed(v) for p, v in leaves(d)} != {p: typed(v) for p, v in leaves(snap)} or set(sections(d)) != set(sections(snap))]
        return views, None, changed
    except Exception as e:  # noqa
        return views, type(e).__name__, []
    finally:
        shutil.rmtree(root, ignore_errors=True)


def is_unset(op):
    return op["op"] in ("project", "runtime") and op.get("tree") is None and (op.get("unset") or op["op"] == "runtime")


def oracle_history(case, views, exc, changed):
    if exc is not None:
        return "operation %d of a type-consistent history raised %s" % (len(views) + 1, exc)
    for i, view in enumerate(views):
        if hist_stale(case["ops"][:i + 1]):
            continue  # merging was deferred by the caller: the cache is not expected to be current
        why = judge_view(case, i, view)
        if why:
            return why
    if changed:
        return "the contents of a level changed without a load: the caller's dict given to load_%s was modified" % changed[0]
    return None


def judge_view(case, i, view):
    if True:
        roots = hist_roots(case)
        t = {l: (without_roots(x, roots) if isinstance(x, dict) else x) for l, x in hist_levels(case["ops"][:i + 1]).items()}
        view = without_roots(view, roots)
        want = {}
        for lvl in ORDER:
            for p, v in leaves(t[lvl]):
                want[p] = (lvl, typed(v))
        for p in t["_deleted"]:
            want.pop(p, None)  # removed at runtime and not written since: absent, whatever the levels say
        got = {p: typed(v) for p, v in leaves(view)}
        for p, (lvl, tv) in want.items():
            if got.get(p) != tv:
                return "after operation %d (%s): setting %s shows %s but the highest level defining it NOW (%s) says %s" % (
                    i + 1, case["ops"][i]["op"], ".".join(p), got.get(p, ("", "<absent>"))[1], lvl, tv[1])
        if set(got) - set(want):
            return "after operation %d (%s): setting %s is visible but no level defines it now" % (
                i + 1, case["ops"][i]["op"], ".".join(sorted(set(got) - set(want))[0]))
        secs = set()
        for lvl in ORDER:
            secs |= set(sections(t[lvl]))
        if set(sections(view)) != secs:
            return "after operation %d: sections are not the union of the levels' sections: %r" % (i + 1, sorted(set(sections(view)) ^ secs)[:3])
    return None


def history_line(case):
    parts = ["hist", enc_str("INVOKE_")]
    roots = hist_roots(case)
    mods = {}
    seen = set()
    for op in case["ops"]:
        k = op["op"]
        if k in ("del", "clear"):
            break  # the load model (Levels) has no runtime deletions (that is C06's model): compared up to here
        if k == "env":
            parts.append("e=" + enc_environ(op["environ"]))
            continue
        if k == "merge":
            parts.append("g")
        elif k == "write":
            mods = overlay(mods, nest(op["path"], build(op["value"])))
            parts.append("m=" + enc_tree(without_roots(mods, roots)))
        elif k in ("system", "user") and k in seen:
            pass
        else:
            seen.add(k)
            tree = without_roots(build(op["tree"]) if op["tree"] is not None else {}, roots)
            parts.append(HIST_CODE[k] + ("u" if op.get("merge") is False else "") + "=" + ("-" if is_unset(op) else enc_tree(tree)))
        parts.append("v")
    return " ".join(parts)


# ------------------------------------------------------------------ the file format does not change what a level defines

def gen_formats_case(rng):
    """one assignment of trees to the levels; it is then realised with every supported format for the file levels"""
    while True:
        schema, twins = gen_schema_tw(rng)
        levels, shares = {}, {}
        for lvl in ORDER:
            if lvl in ("env", "modifications"):
                continue
            p = 0.8 if lvl in FILE_LEVELS else 0.4
            if rng.random() < p:
                t, sh = gen_level_sh(rng, schema, twins, 0.7)
                levels[lvl] = tag(t)
                if sh:
                    shares[lvl] = sh
            else:
                levels[lvl] = None
        if any(levels[l] for l in FILE_LEVELS):
            break
    at_load = {}
    for lvl in ORDER:
        if lvl not in ("env", "modifications") and levels[lvl] is not None:
            at_load = overlay(at_load, build(levels[lvl]))
    environ = {}
    for p, _ in leaves(at_load):
        ty = schema_type(schema, p)
        if ty in ENV_TYPES and rng.random() < 0.2:
            environ["INVOKE_" + var_of(p)] = env_value(rng, ty)
    return {"kind": "formats", "levels": levels, "shares": shares, "environ": environ}


def format_variants(case):
    """(label, files) - every format for all file levels at once, and each file level alone in Python format"""
    present = [l for l in FILE_LEVELS if case["levels"].get(l) is not None]
    out = [(sfx, {l: {"suffix": sfx, "decoys": [], "broken": []} for l in present}) for sfx in SUFFIXES]
    for l in present:
        out.append(("py:" + l, {x: {"suffix": "py" if x == l else "json", "decoys": [], "broken": []} for x in present}))
    return out


def as_levels_case(case, files):
    steps = ["collection", "project", "runtime", "defaults", "overrides", "system", "user", "modsA"]
    return {"kind": "levels", "schema": None, "levels": case["levels"], "shares": case.get("shares") or {}, "files": files,
            "modsA": {}, "modsB": {},
            "environ": case["environ"], "ctor": {"defaults": False, "overrides": False, "project": False, "runtime": False, "lazy": True},
            "steps": steps, "nomerge": [False] * len(steps), "style": 0}


def check_formats(case):
    """-> why | None.  Every rendering must satisfy the property, and all renderings must give the SAME view
    (don't-care: top-level `__*` names of the file levels, which the Python format cannot carry)."""
    roots = set()
    for l in FILE_LEVELS:
        if case["levels"].get(l) is not None:
            roots |= {k for k in case["levels"][l] if k.startswith("__")}
    first = None
    for label, files in format_variants(case):
        lc = as_levels_case(case, files)
        view, exc = run_levels(lc)
        why = oracle_levels(lc, view, exc)
        if why:
            return "file levels as %s: %s" % (label, why)
        canon = enc_tree(without_roots(view, roots), canon=True)
        if first is None:
            first = (label, canon, view)
        elif canon != first[1]:
            a = {p: typed(v) for p, v in leaves(without_roots(first[2], roots))}
            b = {p: typed(v) for p, v in leaves(without_roots(view, roots))}
            diff = sorted(set(a.items()) ^ set(b.items()))[:3]
            return "the same level contents give a different view as %s than as %s: %r" % (label, first[0], diff)
    return None


# ------------------------------------------------------------------ several suffix candidates at once, first one possibly blank

def candidate_cases():
    """every location x every non-empty subset of suffix candidates x what the FIRST existing candidate holds:
    real settings, or one of the ways a file can exist and hold none; `malformed` = a zero-byte .json (not valid JSON)"""
    out = []
    for loc in ("system", "user", "project"):
        for n in range(1, 5):
            for present in itertools.combinations(SUFFIXES, n):
                first = present[0]
                for kind in ["tree"] + BLANKS[first] + (["malformed"] if first == "json" else []):
                    out.append({"kind": "candidates", "loc": loc, "present": list(present), "first": kind})
    return out


def run_candidates(case):
    """-> (view | None, exception class | None)"""
    from invoke.config import Config
    root = tempfile.mkdtemp(prefix="verif_c03_")
    try:
        d = os.path.join(root, "loc")
        os.makedirs(d)
        stem = os.path.join(d, ".invoke." if case["loc"] == "user" else "invoke.")
        for i, sfx in enumerate(case["present"]):
            if i == 0 and case["first"] == "malformed":
                open(stem + sfx, "w").close()
            elif i == 0 and case["first"] != "tree":
                write_file(stem + sfx, sfx, {}, blank=case["first"])
            else:
                write_file(stem + sfx, sfx, {"which": sfx, "only_" + sfx: {"x": 1}})
        none = os.path.join(root, "none", "")
        with replaced_environ({}):
            kw = {"defaults": {"which": "defaults", "base": {"x": 0}}, "system_prefix": none, "user_prefix": none + ".", "lazy": True}
            if case["loc"] == "system":
                kw["system_prefix"] = os.path.join(d, "")
            elif case["loc"] == "user":
                kw["user_prefix"] = os.path.join(d, ".")
            c = Config(**kw)
            try:
                if case["loc"] == "project":
                    c.set_project_location(d)
                getattr(c, "load_" + case["loc"])()
            except Exception as e:  # noqa
                return None, type(e).__name__
            return plain(c), None
    finally:
        shutil.rmtree(root, ignore_errors=True)


def oracle_candidates(case, view, exc):
    first = case["present"][0]
    later = ["only_" + sfx for sfx in case["present"][1:]]
    if case["first"] == "malformed":
        # the property does not say what an unparsable first candidate does, only that later ones are not consulted
        if view is not None and any(k in view for k in later):
            return "the first existing candidate (%s, unparsable) was passed over and a later candidate was read" % first
        return None
    if exc is not None:
        return "loading raised %s" % exc
    want = {"which": "defaults", "base": {"x": 0}}
    if case["first"] == "tree":
        want = overlay(want, {"which": first, "only_" + first: {"x": 1}})
    if enc_tree(view, canon=True) != enc_tree(want, canon=True):
        got = [k for k in later if k in view]
        if got:
            return ("candidates %r exist, the first one (%s) holds %s: the level must be exactly that file, but a LATER candidate was "
                    "consulted (%s)" % (case["present"], first, "no settings" if case["first"] != "tree" else "settings", got[0][5:]))
        return "candidates %r exist, first holds %s: view is %r" % (case["present"], case["first"], view)
    return None

# ------------------------------------------------------------------ model side

def view_line(case):
    roots = dunder_roots(case)
    lv = {l: without_roots(build(x) if x is not None else {}, roots) for l, x in case["levels"].items()}
    mods_a, mods_b = without_roots(build(case["modsA"]), roots), without_roots(build(case["modsB"]), roots)
    parts = ["view", enc_str("INVOKE_"), enc_environ(case["environ"])]
    parts += [enc_tree(lv[l]) for l in ("defaults", "collection", "system", "user", "project", "runtime", "overrides")]
    parts += [enc_tree(mods_a), enc_tree(overlay(mods_a, mods_b))]
    return " ".join(parts)


def nontrivial(case):
    seen, multi = set(), False
    for l, x in case["levels"].items():
        if x is None:
            continue
        for p, _ in leaves(build(x)):
            multi = multi or p in seen
            seen.add(p)
    return multi or bool(case["environ"]) or bool(case["modsA"]) or bool(case["modsB"])


def run(ctx):
    out = Outcome()
    rng = ctx.rng
    drv = LeanDriver("drv_val")
    cases = pair_cases(SUFFIXES if (ctx.thorough or ctx.escalated) else ("json",))
    cases += [gen_case(rng) for _ in range(ctx.n(2200, 40000))]
    sfx = suffix_cases()
    mrg = merge_cases(ctx, rng)
    lines = [view_line(c) for c in cases]
    lines += ["suffix " + (",".join(c["present"]) or "-") for c in sfx]
    lines += ["merge %s %s" % (enc_tree(build(c["base"])), enc_tree(build(c["upd"]))) for c in mrg]
    hst = [gen_history(rng) for _ in range(ctx.n(1000, 15000))]
    lines += [history_line(c) for c in hst]
    model = drv.run(lines) if ctx.model_ok else [None] * len(lines)
    for c, m in zip(cases, model):
        view, exc = run_levels(c)
        out.case(c, nontrivial(c))
        out.hist["pair" if "pair" in c else "random"] += 1
        if "pair" not in c:
            present = sum(1 for x in c["levels"].values() if x is not None) + bool(c["environ"]) + bool(c["modsA"] or c["modsB"])
            out.hist["levels_present:%d" % present] += 1
            for f in c["files"].values():
                out.hist["fmt:" + f["suffix"]] += 1
                out.hist["decoys:%d" % len(f["decoys"] + f["broken"])] += 1
            out.hist["env_vars:%d" % min(len(c["environ"]), 3)] += 1
            allp = [p for l, x in c["levels"].items() if x for p, _ in leaves(build(x))]
            out.hist["method_named_key:%d" % any(k in METHOD_KEYS for p in allp for k in p)] += 1
            envp = [p for p in set(allp) if "INVOKE_" + var_of(p) in c["environ"]]
            out.hist["env_names_path_through_method_named_section_or_sibling:%d" % any(
                any(k in METHOD_KEYS for k in q) for p in envp for q in set(allp) if q[:1] == p[:1])] += 1
            out.hist["prefix_word_key_nonfinal_in_env_path:%d" % any(any(("invoke" in k.lower()) for k in p[:-1]) or "invoke_" in p[-1].lower() for p in envp)] += 1
            out.hist["blank_first_candidate:%d" % min(2, sum(1 for f in c["files"].values() if f.get("blank")))] += 1
            sh = c.get("shares") or {}
            out.hist["levels_with_shared_subobject:%d" % min(3, len(sh))] += 1
            for lvl, pairs in sh.items():
                out.hist["shared_via:" + ("caller dict" if lvl not in c["files"] else c["files"][lvl]["suffix"] + " file")] += 1
                for pa, pb in pairs:
                    out.hist["shared_depth:%d" % min(len(pa), len(pb))] += 1
            out.hist["mods:" + ("A" if c["modsA"] else "-") + ("B" if c["modsB"] else "-")] += 1
            for k, v in c["ctor"].items():
                out.hist["ctor_%s:%d" % (k, v)] += 1
            out.hist["steps_nomerge:%d" % min(sum(c["nomerge"]), 3)] += 1
            out.hist["first_step:" + c["steps"][0]] += 1
            if view is not None:
                out.hist["depth:%d" % max([len(p) for p, _ in leaves(view)] + [0])] += 1
        why = oracle_levels(c, view, exc)
        if m is not None:
            out.traces += 1
            got = "err:" + exc if exc else "ok " + enc_tree(without_roots(view, dunder_roots(c)), canon=True)
            mm = m if m.startswith("err:") else " ".join(m.split(" ")[:2])
            if m.startswith("ok ") and m.endswith("tc=0"):
                out.hist["model_says_not_type_consistent"] += 1
            if got != mm:
                out.disagree(c, got[:400], mm[:400])
        if why:
            out.fail(c, why)
    for c, m in zip(sfx, model[len(cases):]):
        got = run_suffix(c)
        out.case(c, len(c["present"]) > 1)
        out.hist["suffix"] += 1
        if m is not None:
            out.traces += 1
            if m != got:
                out.disagree(c, got, m)
        why = oracle_suffix(c, got)
        if why:
            out.fail(c, why)
    for c, m in zip(mrg, model[len(cases) + len(sfx):]):
        got = run_merge(c)
        out.evaluations += 1
        if got is None:
            out.hist["merge_dicts:helper_gone"] += 1
            continue
        out.hist["merge_dicts:" + got[:3]] += 1
        if m is not None:
            out.traces += 1
            if m != got:
                out.disagree(c, got[:300], m[:300])
    for c, m in zip(hst, model[len(cases) + len(sfx) + len(mrg):]):
        views, exc, changed = run_history(c)
        out.case(c, True)
        out.hist["history"] += 1
        out.hist["history_ops:%d" % min(len(c["ops"]), 12)] += 1
        kinds = [op["op"] for op in c["ops"]]
        out.hist["history_level_replaced:%d" % min(3, sum(kinds.count(k) - 1 for k in set(kinds) if k in HIST_CODE and kinds.count(k) > 1))] += 1
        out.hist["history_emptied:%d" % min(2, sum(1 for op in c["ops"] if op["op"] in HIST_CODE and (op.get("tree") is None or op.get("tree") == {})))] += 1
        out.hist["history_env:%d" % ("env" in kinds)] += 1
        out.hist["history_unset:%d" % min(2, sum(1 for op in c["ops"] if is_unset(op)))] += 1
        dels = [op for op in c["ops"] if op["op"] == "del"]
        out.hist["history_runtime_deletes:%d" % min(3, len(dels) + sum(1 for op in c["ops"] if op["op"] == "clear"))] += 1
        for op in dels:
            out.hist["history_delete_depth:%d" % min(4, len(op["path"]))] += 1
            out.hist["history_delete_how:" + op["how"]] += 1
        out.hist["history_clear:%d" % min(1, sum(1 for op in c["ops"] if op["op"] == "clear"))] += 1
        seen_del, rew = set(), 0
        for op in c["ops"]:
            if op["op"] == "del":
                seen_del.add(tuple(op["path"]))
            elif op["op"] == "write" and tuple(op["path"]) in seen_del:
                rew += 1
                out.hist["history_rewrite_after_delete_depth:%d" % min(4, len(op["path"]))] += 1
        out.hist["history_ops_with_shared_subobject:%d" % min(3, sum(1 for op in c["ops"] if op.get("shares")))] += 1
        out.hist["history_deferred_merges:%d" % min(3, sum(1 for op in c["ops"] if op.get("merge") is False))] += 1
        ei = kinds.index("env") if "env" in kinds else None
        if ei is not None:
            out.hist["history_env_load_on:%s_cache" % ("stale" if hist_stale(c["ops"][:ei]) else "fresh")] += 1
        if m is not None:
            out.traces += 1
            cut = next((j for j, op in enumerate(c["ops"]) if op["op"] in ("del", "clear")), None)
            vs = views if cut is None else views[:cut]
            got = "|".join("ok " + enc_tree(without_roots(v, hist_roots(c)), canon=True) for v in vs) + ("|err:" + exc if exc and cut is None else "")
            if got != m:
                out.disagree(c, got[:500], m[:500])
        why = oracle_history(c, views, exc, changed)
        if why:
            out.fail(c, why)
    cands = candidate_cases()
    cmodel = drv.run(["suffix " + ",".join(c["present"]) for c in cands]) if ctx.model_ok else [None] * len(cands)
    for c, m in zip(cands, cmodel):
        view, exc = run_candidates(c)
        out.case(c, len(c["present"]) > 1)
        out.hist["candidates"] += 1
        out.hist["candidates_first:" + ("settings" if c["first"] == "tree" else "unparsable" if c["first"] == "malformed" else "blank")] += 1
        if m is not None and view is not None:
            out.traces += 1
            marks = [k[5:] for k in view if k.startswith("only_")]
            got = marks[0] if len(marks) == 1 else (c["present"][0] if not marks and c["first"] != "tree" else "none:%r" % marks)
            if got != m:
                out.disagree(c, got, m)
        why = oracle_candidates(c, view, exc)
        if why:
            out.fail(c, why)
    for _ in range(ctx.n(160, 3000)):
        c = gen_formats_case(rng)
        out.case(c, True)
        out.hist["formats"] += 1
        out.hist["formats_shared_subobject:%d" % bool(c.get("shares"))] += 1
        tops = set()
        for l in FILE_LEVELS:
            if c["levels"].get(l) is not None:
                tops |= set(c["levels"][l])
                out.hist["formats_level:" + l] += 1
        out.hist["formats_top_key:one_underscore:%d" % any(k.startswith("_") and not k.startswith("__") for k in tops)] += 1
        out.hist["formats_top_key:two_underscores(py dont-care):%d" % any(k.startswith("__") for k in tops)] += 1
        out.hist["formats_top_key:trailing_underscore:%d" % any(k.endswith("_") and not k.startswith("_") for k in tops)] += 1
        why = check_formats(c)
        if why:
            out.fail(c, why)
    for _ in range(ctx.n(150, 2500)):
        c = gen_program_case(rng)
        seen, exc, base = run_program(c)
        out.case(c, True)
        out.hist["program"] += 1
        out.hist["program_flags:%d" % len(c["flags"])] += 1
        why = oracle_program(c, seen, exc, base)
        if why:
            out.fail(c, why)
    out.exhaustive = True  # level pairs x depth x overlap shape, and suffix subsets, are enumerated completely
    out.extra["table_obligations"] = 3  # generated_order_documented, merge_order_levels, generated_suffixes_documented
    return out
