"""C04 - tasks run depth-first in request order; identical invocations run once."""
import contextlib
import io
import itertools
import json

import common
from common import Outcome, LeanDriver

ID = "C04"
PROPS = ["Invoke/Props/C04.lean"]
TARGETS = ["drv_exec"]
DRIVER_ROOTS = ["Driver/Exec.lean"]
GENERATED = []
RULE = ("case = (acyclic pre/post graph over 2-6 tasks with parameters and defaults, plain references and call(...) "
        "with baked positional/keyword arguments; tasks may have aliases, underscore names, autoprint, live in sub-collections "
        "(dotted names, sub-collection default shortcut); signatures range over plain parameters with defaults, *rest, "
        "keyword-only parameters and **kw, and call(...) entries differ in named values, in later extra positionals, in "
        "keyword-only values or in **kw entries; argument values are ints and strings plus - in call(...) entries and "
        "(name, kwargs) requests - lists, dicts, sets, tuples, nested containers (equal ones built separately), 1 / 1.0 / True, "
        "None, NaN objects and objects with their own __eq__ and no __hash__; DIFFERENT tasks may bear the same name in different collections (namesakes, "
        "own bodies, equal or different signatures); helper tasks may be registered in NO collection (plain Task objects "
        "reached through pre/post lists only), so that dependency chains are deeper than the collection is large; several "
        "Task objects may wrap ONE body function or the products "
        "of one factory - under the same name in another sub-collection or under another name - each with its own pre/post "
        "lists and options; optional default task; request list of length 0-3, every item under one of the names the task "
        "answers to, in one of four forms: names, (name, kwargs) pairs, contexts from the real Parser, argv through the real "
        "Program; dedupe on/off via config, --no-dedupe or the built-in default; in a quarter of the direct forms the SAME "
        "Executor object runs a second execute() - a new session - after pre/post lists were edited).  Every session runs the "
        "real Executor.execute and is judged on its own; non-trivial = at least two invocations; distinct = distinct canonical "
        "cases.  Exhaustive part: every graph over <=3 parameterless tasks with <=2 pre+post edges per task x every request "
        "list of length <=3 x dedupe on/off, and every pair of pre/post lists (<=1 edge each, thorough <=2) for one function "
        "wrapped by two same-named Task objects x 6 requests x dedupe on/off, every pre/post list of a third task over two "
        "namesake tasks docs.build / www.build x every request list of length <=2 x dedupe on/off, and every ordered pair "
        "out of a menu of 6-8 argument lists for a task with *rest / keyword-only / **kw parameters called as pre- and "
        "post-task, every ordered pair out of 20 awkward values (as keyword / positional of a defaulted parameter) and out of 9 "
        "*rest / **kw spellings for a task called as pre- and post-task, 81 pairs of (name, kwargs) requests, and every "
        "pre/post pattern of dependency chains of depth 3-6 with one or two registered tasks and unregistered helpers; "
        "thorough adds every 4-task graph (3468) x every "
        "request list of length <=2 with dedupe on, a random 12% of the length-3 requests / 25% of the dedupe-off runs")
TRUSTED = ["Lean 4.33 kernel", "axioms propext/Classical.choice/Quot.sound only",
           "harness/props/c04.py correspondence + canonicalisation (Task subclass that records the literal call arguments)",
           "CPython argument binding, dict/tuple equality (modelled: kwEq, bind, bindS; the oracle binds with its own bound_of)",
           "model Invoke/Model/Executor.lean hand-written, tied by correspondence on every run"]
ASSUMPTIONS = ["task graphs are acyclic (a cyclic pre/post graph makes expand_calls recurse forever; outside the property)",
               "two invocations are identical iff same task and the bound arguments compare equal with Python == (so 1, 1.0 and True "
               "are one value, two NaN objects are not, one NaN object reached twice through one call entry is); the model sees a "
               "value only as its ==-class within the case; hashability is not modelled",
               "one execute() call is one session: nothing carries over to a later execute() on the same Executor; each "
               "occurrence of a task is surrounded by the pre/post lists of THAT Task object as they are when execute() starts",
               "Task objects that are one dict key (same name, same body function) share one entry of the returned mapping; the "
               "oracle accepts any of their return values there",
               "collection lookup of the requested names and CLI parsing are C10's / C01's subject: the model's request is "
               "the (task, kwargs) list that Executor.normalize reads",
               "effective_args_dedupe: proved for call lists in which distinct tasks differ in name or code (otherwise: known "
               "finding C04-task-eq-by-code) and every call can be bound to its task's signature (otherwise executing it raises "
               "TypeError)"]

INTS = [0, 1]
STRS = ["a", "b"]
# parameter menus: (name, default[, kind]); default None = required (string typed); ["i",n] / ["s",txt];
# kind: "pk" positional-or-keyword (the default), "var" = *name, "ko" keyword-only, "varkw" = **name
def pkind(p):
    return p[2] if len(p) > 2 else "pk"


def named_params(params, kinds=("pk", "ko")):
    return [p for p in params if pkind(p) in kinds]


def has_kind(params, kind):
    return any(pkind(p) == kind for p in params)


def needs_args(params):
    return any(p[1] is None for p in named_params(params))


def cli_requestable(params):
    return not has_kind(params, "var") and not has_kind(params, "varkw")


XMENUS = [
    [["x", None], ["rest", None, "var"]],
    [["rest", None, "var"]],
    [["x", ["s", "a"]], ["k", ["i", 0], "ko"]],
    [["x", None], ["rest", None, "var"], ["k", ["i", 1], "ko"]],
    [["x", ["i", 0]], ["kw", None, "varkw"]],
    [["rest", None, "var"], ["k", ["s", "a"], "ko"], ["kw", None, "varkw"]],
]
MENUS = [
    [],
    [],
    [["x", ["i", 0]]],
    [["x", ["i", 1]]],
    [["x", ["s", "a"]]],
    [["x", None]],
    [["x", ["i", 0]], ["y", ["i", 1]]],
    [["x", None], ["y", ["s", "b"]]],
    [["x", ["s", "a"]], ["y", ["i", 0]]],
]


# ------------------------------------------------------------------ building the real objects

class EqObj:
    """an argument object with a custom __eq__ (equal iff same k) and no __hash__"""
    __hash__ = None

    def __init__(self, k):
        self.k = k

    def __eq__(self, other):
        return isinstance(other, EqObj) and other.k == self.k

    def __repr__(self):
        return "EqObj(%r)" % (self.k,)


class Values:
    """Argument values of one case.  A value is written as a JSON spec
        ["i",n] ["s",txt] ["f",x] ["b",bool] ["none"] ["nan",uid] ["obj",k]
        ["l",[specs]] ["t",[specs]] ["set",[specs]] ["fset",[specs]] ["d",[[key,spec],...]] ["od",[[key,spec],...]]
    mat() builds a FRESH Python object for every use (equal-but-distinct lists, dicts, ...); a NaN is one float
    object per uid (a call entry reached twice passes the same object twice, two entries never share one).
    cls() numbers the objects of the case by Python `==` - the only thing the model knows about a value."""

    def __init__(self):
        self.nans = {}
        self.pool = []

    def mat(self, v):
        k = v[0]
        if k in ("i", "s", "f", "b"):
            return v[1]
        if k == "none":
            return None
        if k == "nan":
            return self.nans.setdefault(v[1], float("nan"))
        if k == "obj":
            return EqObj(v[1])
        if k == "l":
            return [self.mat(x) for x in v[1]]
        if k == "t":
            return tuple(self.mat(x) for x in v[1])
        if k == "set":
            return set(self.mat(x) for x in v[1])
        if k == "fset":
            return frozenset(self.mat(x) for x in v[1])
        if k == "od":
            import collections
            return collections.OrderedDict((kk, self.mat(x)) for kk, x in v[1])
        if k == "d":
            return dict((kk, self.mat(x)) for kk, x in v[1])
        raise ValueError(v)

    def cls(self, obj):
        for n, rep in enumerate(self.pool):
            try:
                if rep is obj or rep == obj:
                    return n
            except Exception:  # noqa
                pass
        self.pool.append(obj)
        return len(self.pool) - 1


class Runtime:
    def __init__(self):
        self.log = []  # (tid, bound dict, literal pos, literal kw)
        self.literal = None
        self.vs = Values()


def make_body(rt, name, params, uid):
    """A factory whose products share one code object (as tasks made by a user's factory function do); bodies made by
    different calls differ in their code (the constant `uid`), like functions written separately."""
    parts, bound, star = [], [], False
    for p in params:
        k = pkind(p)
        if k == "var":
            parts.append("*" + p[0])
            bound.append("%r: list(%s)" % (p[0], p[0]))
            star = True
        elif k == "varkw":
            parts.append("**" + p[0])
            bound.append("%r: dict(%s)" % (p[0], p[0]))
        else:
            if k == "ko" and not star:
                parts.append("*")
                star = True
            parts.append(p[0] if p[1] is None else "%s=%r" % (p[0], p[1][1]))
            bound.append("%r: %s" % (p[0], p[0]))
    src = ("def make(_rt, _tid):\n"
           "    def %s(c%s):\n"
           "        return _rt_enter(_rt, _tid, {%s}, %d)\n"
           "    return %s\n") % (name, "".join(", " + x for x in parts), ", ".join(bound), uid, name)
    env = {"_rt_enter": rt_enter}
    exec(src, env)
    return env["make"]


def rt_enter(rt, tid, bound, uid=None):
    lit = rt.literal
    rt.literal = None
    if lit is not None and lit[0] is not None:
        tid = lit[0]  # the Task OBJECT that was called (several objects may share one body function)
    rt.log.append((tid, bound, lit[1] if lit else None, lit[2] if lit else None))
    return ("ret", len(rt.log) - 1)


def mk_calls(tasks, lst, vs):
    from invoke import Call
    out = []
    for j, pos, kw in lst:
        if not pos and not kw:
            out.append(tasks[j])
        else:
            out.append(Call(tasks[j], args=tuple(vs.mat(v) for v in pos), kwargs={k: vs.mat(v) for k, v in kw}))
    return out


def build(case):
    """-> (runtime, tasks(list of Task), root Collection, primary cli names)"""
    from invoke import Collection, Task

    rt = Runtime()

    class LTask(Task):
        def __call__(self, *args, **kwargs):
            rt.literal = (getattr(self, "_vidx", None), list(args[1:]), dict(kwargs))
            return super().__call__(*args, **kwargs)

    tasks, makers, bodies = [], {}, {}
    for i, t in enumerate(case["tasks"]):
        if t.get("body_of") is not None:
            body = bodies[t["body_of"]]  # the very same function object, wrapped once more
        elif t.get("code_of") is not None:
            body = makers[t["code_of"]](rt, i)  # a factory product: same code object, different closure
            makers[i] = makers[t["code_of"]]
        else:
            makers[i] = make_body(rt, t["name"], t["params"], i)
            body = makers[i](rt, i)
        bodies[i] = body
        obj = LTask(body, name=t["name"], pre=mk_calls(tasks, t["pre"], rt.vs), post=mk_calls(tasks, t["post"], rt.vs),
                    autoprint=bool(t.get("autoprint")), aliases=tuple(t.get("aliases") or ()))
        obj._vidx = i
        tasks.append(obj)
    root = Collection()
    subs = {}
    names = []
    for i, t in enumerate(case["tasks"]):
        if t.get("hidden"):
            names.append(None)  # a helper task that is in no collection: reachable through pre/post lists only
            continue
        if t.get("ns"):
            if t["ns"] not in subs:
                subs[t["ns"]] = Collection(t["ns"])
            subs[t["ns"]].add_task(tasks[i], default=bool(t.get("sub_default")))
            names.append((t["ns"] + "." + t["name"]).replace("_", "-"))
        else:
            root.add_task(tasks[i], default=(case.get("default") == i))
            names.append(t["name"].replace("_", "-"))
    for sc in subs.values():
        root.add_collection(sc)
    return rt, tasks, root, names


def spellings(case, idx, cli):
    """the names under which task idx can be requested in one session"""
    t = case["tasks"][idx]
    ns = t.get("ns")
    local = [t["name"].replace("_", "-")] + [a.replace("_", "-") for a in (t.get("aliases") or [])]
    if not cli:
        local += [x for x in [t["name"]] + list(t.get("aliases") or []) if "_" in x]
    out = [(ns.replace("_", "-") + "." + x) if ns else x for x in local]
    if ns and not cli and "_" in ns:
        out.append(ns + "." + t["name"])
    if ns and t.get("sub_default"):
        out.append(ns.replace("_", "-"))
    return out


def req_name(item, names):
    return item[2] if len(item) > 2 and item[2] else names[item[0]]


def argv_for(case, names):
    argv = []
    for item in case["req"]:
        idx, kw = item[0], item[1]
        argv.append(req_name(item, names))
        params = dict((p[0], p[1]) for p in case["tasks"][idx]["params"])
        kwd = dict((k, v) for k, v in kw)
        # required parameters positionally, in signature order, then flags
        for p in case["tasks"][idx]["params"]:
            if p[1] is None and p[0] in kwd:
                argv.append(str(kwd[p[0]][1]))
        for k, v in kw:
            if params[k] is not None:
                argv += [("-" if len(k) == 1 else "--") + k, str(v[1])]
    return argv


def session_case(case, k):
    """the case as it stands in session k (0 = first execute(); 1 = after the edits, second execute())"""
    if k == 0 or not case.get("second"):
        return case
    c = dict(case)
    c["tasks"] = [dict(t) for t in case["tasks"]]
    for i, slot, lst in case["second"].get("edits", []):
        c["tasks"][i][slot] = lst
    c["req"] = case["second"]["req"]
    return c


def key_classes(case):
    """dict-key identity of a Task: same name and the very same body function object"""
    out = []
    for i, t in enumerate(case["tasks"]):
        j = t.get("body_of")
        out.append(out[j] if j is not None and case["tasks"][j]["name"] == t["name"] else i)
    return out


def run_impl(case):
    """Runs the real code.  -> list (one per execute() call) of
    dict(log=[(task idx, bound, pos, kw)], results={key class: value}|None, reqkw=[(idx, kw)], error=None|str)"""
    from invoke import Executor, Config
    from invoke.parser import Parser, ParserContext

    rt, tasks, root, names = build(case)
    keyc = key_classes(case)
    form = case["form"]
    dd, via = case["dedupe"], case.get("dedupe_via", "config")
    sessions = []
    sink = io.StringIO()

    def finish(res, reqkw, err, start):
        results = None
        if res is not None:
            results = {}
            for t, v in res.items():
                vi = getattr(t, "_vidx", None)
                results[keyc[vi] if vi is not None and vi < len(keyc) else "?%s" % getattr(t, "name", t)] = v
        sessions.append({"log": list(rt.log[start:]), "results": results, "reqkw": reqkw, "error": err, "base": start,
                         "vs": rt.vs})

    def by_position(cs, contexts):
        items = cs["req"]
        if len(items) != len(contexts):
            return None
        return [(items[n][0], c.as_kwargs) for n, c in enumerate(contexts)]

    if form == "program":
        res, reqkw, err = None, None, None
        try:
            with contextlib.redirect_stdout(sink), contextlib.redirect_stderr(sink):
                from invoke import Program

                box = {}

                class CapExec(Executor):
                    def execute(self, *a):
                        box["req"] = a
                        box["res"] = super().execute(*a)
                        return box["res"]

                if dd:
                    Program(namespace=root, executor_class=CapExec).run(["inv"] + argv_for(case, names), exit=False)
                else:
                    # --no-dedupe is only a core flag when the collection is loaded through a Loader
                    import types
                    from invoke.loader import Loader

                    mod = types.ModuleType("tasks")
                    mod.ns = root

                    class MemLoader(Loader):
                        def __init__(self, config=None, **kw):
                            super().__init__(config=config)

                        def load(self, name=None):
                            return mod, "/nonexistent/verif-c04"

                    Program(loader_class=MemLoader, executor_class=CapExec).run(
                        ["inv", "--no-dedupe"] + argv_for(case, names), exit=False)
                res = box.get("res")
                reqkw = by_position(case, box.get("req", ()))
        except Exception as e:  # noqa
            err = "%s: %s" % (type(e).__name__, e)
        finish(res, reqkw, err, 0)
        return sessions

    if via == "default":
        cfg = Config(lazy=True)
    elif via == "missing":
        cfg = Config(defaults={}, lazy=True)  # no `tasks` tree at all: execute() falls back to dedupe on
    else:
        cfg = Config(overrides={"tasks": {"dedupe": dd}}, lazy=True)
    ex = Executor(root, cfg)
    for k in range(2 if case.get("second") else 1):
        cs = session_case(case, k)
        start = len(rt.log)
        res, reqkw, err = None, None, None
        try:
            if k == 1:
                for i, slot, lst in case["second"].get("edits", []):
                    setattr(tasks[i], slot, mk_calls(tasks, lst, rt.vs))
            with contextlib.redirect_stdout(sink), contextlib.redirect_stderr(sink):
                if form == "names":
                    req = [req_name(it, names) for it in cs["req"]]
                    reqkw = [(it[0], {}) for it in cs["req"]]
                elif form == "pairs":
                    reqkw = [(it[0], dict((kk, rt.vs.mat(v)) for kk, v in it[1])) for it in cs["req"]]
                    req = [(req_name(it, names), kwo) for it, (_i, kwo) in zip(cs["req"], reqkw)]
                else:
                    pr = Parser(root.to_contexts(), initial=ParserContext()).parse_argv(argv_for(cs, names))
                    req = list(pr[1:])
                    reqkw = by_position(cs, req)
                res = ex.execute(*req)
        except Exception as e:  # noqa
            err = "%s: %s" % (type(e).__name__, e)
        finish(res, reqkw, err, start)
    return sessions


# ------------------------------------------------------------------ model side

def enc_chars(s):
    return ".".join(str(ord(c)) for c in s)


def enc_obj(vs, obj):
    """a value as the model sees it: its number among the values of the case, by Python =="""
    return "i%d" % vs.cls(obj)


def enc_kw_obj(vs, items):
    return "+".join("%s=%s" % (enc_chars(k), enc_obj(vs, o)) for k, o in items)


def enc_pos_obj(vs, objs):
    return "+".join(enc_obj(vs, o) for o in objs)


def classes(case):
    """equality class of each task under Task.__eq__ (same name, and the same body object or the same code object)"""
    out = []
    for i, t in enumerate(case["tasks"]):
        j = t.get("code_of") if t.get("code_of") is not None else t.get("body_of")
        out.append(out[j] if j is not None and case["tasks"][j]["name"] == t["name"] else i)
    return out


def model_line(case, reqkw, vs):
    cls, keyc = classes(case), key_classes(case)
    ts = []
    for i, t in enumerate(case["tasks"]):
        def calls(lst):
            return ",".join("%d/%s/%s" % (j, enc_pos_obj(vs, [vs.mat(v) for v in pos]),
                                          enc_kw_obj(vs, [(k, vs.mat(v)) for k, v in kw])) for j, pos, kw in lst)

        def plist(ps):
            return "+".join((enc_chars(q[0]) + "!") if q[1] is None else "%s=%s" % (enc_chars(q[0]), enc_obj(vs, vs.mat(q[1])))
                            for q in ps)
        sig = "%s~%s~%d~%d" % (plist(named_params(t["params"], ("pk",))), plist(named_params(t["params"], ("ko",))),
                               has_kind(t["params"], "var"), has_kind(t["params"], "varkw"))
        ts.append("%d:%d:%s:%s:%s" % (cls[i], keyc[i], sig, calls(t["pre"]), calls(t["post"])))
    req = ",".join("%d/%s" % (i, enc_kw_obj(vs, list(kw.items()))) for i, kw in reqkw)
    dflt = case.get("default")
    return "exec %d %s %s %s" % (1 if case["dedupe"] else 0, "-" if dflt is None else str(dflt), ";".join(ts) or "-", req or "-")


def canon_impl(r):
    vs = r["vs"]
    log = []
    for tid, _bound, pos, kw in r["log"]:
        if pos is None or kw is None:  # the literal call arguments were not observable (Task.__call__ bypassed)
            log.append("%d/?/?" % tid)
            continue
        log.append("%d/%s/%s" % (tid, enc_pos_obj(vs, pos), enc_kw_obj(vs, sorted(kw.items(), key=lambda kv: kv[0]))))
    res = "-"
    if r["results"] is not None:
        res = ",".join("%s=%d" % (k, v[1] - r.get("base", 0)) for k, v in sorted(r["results"].items(), key=lambda kv: str(kv[0])))
    return ",".join(log), res


def canon_model(out):
    parts = out.split(" | ")
    if len(parts) != 3:
        return out, "?", "?"
    res = ",".join(sorted((x for x in parts[1].split(",") if x), key=lambda s: str(int(s.split("=")[0]))))
    return parts[0], res, parts[2]


# ------------------------------------------------------------------ oracle (states the property)

def bound_of(case, idx, pos, kw, vs):
    """the arguments the body must receive (own binding against the signature, independent of invoke): positionals fill
    the positional-or-keyword parameters in order, further ones go to *rest; keywords go to the parameter of that name,
    others to **kw; then defaults"""
    out = {}
    params = case["tasks"][idx]["params"]
    kwd = dict((k, vs.mat(v)) for k, v in kw)
    pk = named_params(params, ("pk",))
    for n, p in enumerate(pk):
        if n < len(pos):
            out[p[0]] = vs.mat(pos[n])
        elif p[0] in kwd:
            out[p[0]] = kwd.pop(p[0])
        else:
            out[p[0]] = None if p[1] is None else vs.mat(p[1])
    for p in params:
        k = pkind(p)
        if k == "var":
            out[p[0]] = [vs.mat(v) for v in pos[len(pk):]]
        elif k == "ko":
            out[p[0]] = kwd.pop(p[0]) if p[0] in kwd else (None if p[1] is None else vs.mat(p[1]))
    for p in params:
        if pkind(p) == "varkw":
            out[p[0]] = dict(kwd)
    return out


def ref_expand(case, idx, pos, kw, vs, lit_kw=None, memo=None):
    """recursive reference definition: pre-tasks (expanded), the task, post-tasks (expanded).
    entries: (task, bound arguments, literal spelling).  One call entry reached twice yields the same argument objects
    twice (memo), as the same Call object does."""
    memo = {} if memo is None else memo
    out = []
    t = case["tasks"][idx]
    for e in t["pre"]:
        out += ref_expand(case, e[0], e[1], e[2], vs, None, memo)
    key = (id(pos), id(kw))
    if key not in memo:
        lit = (tuple(vs.mat(v) for v in pos), dict((k, vs.mat(v)) for k, v in kw) if lit_kw is None else lit_kw)
        memo[key] = (bound_of(case, idx, pos, kw, vs), lit, pos, kw)  # keep pos/kw alive: ids stay unique
    out.append((idx, memo[key][0], memo[key][1]))
    for e in t["post"]:
        out += ref_expand(case, e[0], e[1], e[2], vs, None, memo)
    return out


def first_occurrences(entries, key):
    seen, out = [], []
    for e in entries:
        k = key(e)
        if k not in seen:
            seen.append(k)
            out.append(e)
    return out


def oracle(case, r):
    """-> None | why.  `why` starts with a [tag] when the failure is exactly a known divergence class."""
    if case.get("dedupe_via") == "missing":
        return None  # a config without any `tasks` tree: the property does not say whether dedupe is on (model compared only)
    if r["error"]:
        return "execution raised " + r["error"]
    req = case["req"]
    reqkw = r["reqkw"]
    vs, memo = r["vs"], {}
    if not req and case.get("default") is not None:
        full = ref_expand(case, case["default"], [], [], vs, None, memo)
    else:
        full = []
        for n, it in enumerate(req):
            idx, kw = it[0], it[1]
            lit_kw = reqkw[n][1] if reqkw is not None and n < len(reqkw) else None
            full += ref_expand(case, idx, [], kw, vs, lit_kw, memo)
    if case["dedupe"]:
        want = first_occurrences(full, lambda e: (e[0], sorted(e[1].items())))
    else:
        want = full
    got = [(tid, b) for tid, b, _p, _k in r["log"]]
    wantb = [(e[0], e[1]) for e in want]
    cls = classes(case)
    # what the code is known to do instead where Task.__eq__ cannot tell two Task objects apart (known finding
    # C04-task-eq-by-code): first occurrence under (name+code class, bound arguments)
    known_alt = [(e[0], e[1]) for e in first_occurrences(full, lambda e: (cls[e[0]], sorted(e[1].items())))]
    # is this a case on which that known divergence cannot show?  (used only to prefer the most telling failing input)
    r["pure"] = (not case["dedupe"]) or known_alt == wantb
    # statistics only: would a comparison of the LITERAL args/kwargs (the rule before the repair of #22/#30) run more?
    r["respelled"] = case["dedupe"] and len(first_occurrences(
        full, lambda e: (e[0], e[2][0], sorted(e[2][1].items())))) != len(want)
    if got != wantb:
        why = "executed %s, the property demands %s" % (got, wantb)
        if case["dedupe"] and got == known_alt:
            return "[task-eq] " + why
        return why
    if r["results"] is not None:
        # keys of the mapping are Task objects; objects wrapping one function under one name are one dict key
        keyc = key_classes(case)
        ran = {}
        for seq, (tid, _b) in enumerate(got):
            ran.setdefault(keyc[tid], []).append(seq)
        if sorted(map(str, r["results"].keys())) != sorted(map(str, ran.keys())):
            return "returned mapping has keys %s, executed tasks are %s" % (sorted(map(str, r["results"])), sorted(ran))
        for tid, v in r["results"].items():
            if not (isinstance(v, tuple) and v[0] == "ret" and (v[1] - r.get("base", 0)) in ran[tid]):
                return "returned mapping gives task %s the value %r which is not a return value of that task (its executions: %s)" % (tid, v, ran[tid])
    return None


KNOWN_TAGS = {
    "C04-task-eq-by-code": ("[task-eq]",),
}


def match_known(entry, failure):
    tags = KNOWN_TAGS.get(entry.get("id"), ())
    why = failure["why"]
    if why.startswith("session ") and ": " in why:
        why = why.split(": ", 1)[1]
    return any(why.startswith(t + " ") for t in tags)


def replay(case):
    rs = run_impl(case)
    for k, r in enumerate(rs):
        cs = session_case(case, k)
        why = oracle(cs, r)
        if why:
            return False, ("session %d: " % (k + 1) if len(rs) > 1 else "") + why
    return True, "ok: executed %s" % [[(t, b) for t, b, _p, _k in r["log"]] for r in rs]


# ------------------------------------------------------------------ generators

_A, _B = ["s", "a"], ["s", "b"]
_K1, _K2 = ["d", [["k", ["i", 1]]]], ["d", [["k", ["i", 2]]]]
# unhashable and otherwise awkward argument values; few enough that equal ones meet often
AWKWARD = [
    ["l", [_A]], ["l", [_A]], ["l", [_A, _B]], _K1, _K1, _K2, ["set", [["i", 1], ["i", 2]]], ["t", [_A]],
    ["l", [["l", [_A]], _K1]], ["l", [["l", [_A]], _K1]], ["d", [["k", ["l", [_A]]]]],
    ["i", 1], ["f", 1.0], ["b", True], ["i", 0], ["f", 0.0], ["b", False], ["none"],
    ["obj", 1], ["obj", 1], ["obj", 2], "nan", "nan-in-list",
    # the same contents in another container type: list vs tuple differ under ==, set vs frozenset and dict vs
    # OrderedDict do not
    ["t", [_A]], ["t", [_A, _B]], ["l", [["t", [_A]], _K1]], ["t", [["l", [_A]], _K1]], ["fset", [["i", 1], ["i", 2]]],
    ["od", [["k", ["i", 1]]]], ["d", [["k", ["t", [_A]]]]],
]


def rand_awkward(rng):
    v = rng.choice(AWKWARD)
    if v == "nan":
        return ["nan", rng.randrange(1 << 30)]
    if v == "nan-in-list":
        return ["l", [["nan", rng.randrange(1 << 30)]]]
    return v


def rand_value(rng, param, awkward=0.0):
    if awkward and rng.random() < awkward:
        return rand_awkward(rng)
    if param is not None and param[1] is not None and param[1][0] == "i":
        return ["i", rng.choice(INTS)]
    return ["s", rng.choice(STRS)]


def rand_call(rng, tasks, j, allow_plain=True):
    """a pre/post entry referring to task j: [j, pos, kw]"""
    params = tasks[j]["params"]
    pk = named_params(params, ("pk",))
    required = [p for p in pk if p[1] is None]
    exotic = len(pk) != len(params)
    pos, kw = [], []
    aw = rng.choice([0.0, 0.0, 0.35, 0.7])  # how often this entry carries lists, dicts, sets, 1/1.0/True, NaN, objects
    if required or exotic or not allow_plain or rng.random() < 0.5:
        # positional prefix of random length, rest by keyword
        npos = min(rng.choice([0, 0, 1, len(pk)]) if pk else 0, len(pk))
        if has_kind(params, "var") and rng.random() < 0.7:
            npos = len(pk)
        for p in pk[:npos]:
            pos.append(rand_value(rng, p, aw))
        if has_kind(params, "var") and npos == len(pk):
            for _ in range(rng.choice([0, 1, 1, 2, 2, 3])):  # the extra positionals of *rest
                pos.append(rand_value(rng, None, aw))
        for p in pk[npos:] + named_params(params, ("ko",)):
            if p[1] is None or rng.random() < 0.6:
                kw.append([p[0], rand_value(rng, p, aw)])
        if has_kind(params, "varkw"):
            for name in rng.sample(["z", "w"], rng.choice([0, 0, 1, 1, 2])):  # the entries of **kw
                kw.append([name, rand_awkward(rng) if rng.random() < aw else ["i", rng.choice(INTS)]])
        rng.shuffle(kw)
    return [j, pos, kw]


NS = [None, "p", "q_r", "s"]


def rand_edges(rng, tasks, i):
    out = {"pre": [], "post": []}
    if i > 0:
        for slot in ("pre", "post"):
            for _ in range(rng.choice([0, 0, 1, 1, 2])):
                out[slot].append(rand_call(rng, tasks, rng.randrange(i)))
    return out


def rand_options(rng, i):
    al = []
    if rng.random() < 0.25:
        al = [rng.choice(["a%d", "al_%d"]) % i]
    return {"aliases": al, "autoprint": rng.random() < 0.15}


def rand_req(rng, tasks, form, prefer=()):
    cli = form in ("cli", "program")
    req = []
    for _ in range(rng.randint(1, 3)):
        for _try in range(20):
            j = rng.randrange(len(tasks))
            if prefer and rng.random() < 0.6:
                j = rng.choice(list(prefer))
            params = tasks[j]["params"]
            if tasks[j].get("hidden"):
                continue
            if form == "names" and needs_args(params):
                continue
            if cli and not cli_requestable(params):
                continue
            kw = []
            if form != "names":
                aw = rng.choice([0.0, 0.0, 0.4]) if form == "pairs" else 0.0
                for p in named_params(params):
                    if p[1] is None or rng.random() < 0.6:
                        kw.append([p[0], rand_value(rng, p, aw)])
                if has_kind(params, "varkw"):
                    for name in rng.sample(["z", "w"], rng.choice([0, 1, 1, 2])):
                        kw.append([name, rand_awkward(rng) if rng.random() < aw else ["i", rng.choice(INTS)]])
            req.append([j, kw, rng.choice(spellings({"tasks": tasks}, j, cli))])
            break
    return req


def random_case(rng):
    n = rng.randint(2, 5)
    chainy = rng.random() < 0.15
    if chainy:
        n = rng.randint(4, 6)
    tasks = []
    for i in range(n):
        t = {"name": rng.choice(["t%d", "t%d", "t_%d"]) % i, "params": rng.choice(MENUS if rng.random() < 0.7 else XMENUS),
             "code_of": None, "body_of": None, "ns": rng.choice([None, None, None, None, "p", "q_r"]), "sub_default": False}
        if i > 0 and rng.random() < 0.3:
            # a NAMESAKE: a different task (own body, own code) with the name of an earlier one, in another collection
            j = rng.randrange(i)
            free = [x for x in NS if x not in [u["ns"] for u in tasks if u["name"] == tasks[j]["name"]]]
            if free:
                t["name"], t["ns"] = tasks[j]["name"], rng.choice(free)
                if rng.random() < 0.6:
                    t["params"] = tasks[j]["params"]
        t.update(rand_edges(rng, tasks, i))
        if chainy and i > 0:  # a long dependency chain: every task leans on its predecessor
            t[rng.choice(["pre", "post"])].append(rand_call(rng, tasks, i - 1))
        t.update(rand_options(rng, i))
        tasks.append(t)
    # several Task objects over one function (body_of) / over the products of one factory (code_of): same name in another
    # sub-collection or a different name, each with its OWN pre/post lists and options
    derived = []
    if rng.random() < 0.4:
        for _ in range(rng.randint(1, 3)):
            i = len(tasks)
            j = rng.randrange(n)
            same = rng.random() < 0.65
            taken = [t["ns"] for t in tasks if t["name"] == tasks[j]["name"]]
            free = [x for x in NS if x not in taken]
            if same and not free:
                same = False
            t = {"name": tasks[j]["name"] if same else "d%d" % i, "params": tasks[j]["params"], "code_of": None, "body_of": None,
                 "ns": rng.choice(free) if same else rng.choice(NS), "sub_default": False}
            t[rng.choice(["body_of", "body_of", "code_of"])] = j
            t.update(rand_edges(rng, tasks, i))
            t.update(rand_options(rng, i))
            tasks.append(t)
            derived.append(i)
        if rng.random() < 0.5:  # somebody depends on one of them
            i = len(tasks)
            t = {"name": "t%d" % i, "params": [], "code_of": None, "body_of": None, "ns": None, "sub_default": False,
                 "pre": [rand_call(rng, tasks, rng.choice(derived))], "post": [], "aliases": [], "autoprint": False}
            tasks.append(t)
    # helper tasks that are registered nowhere (plain Task objects referenced only from pre/post lists); the last task,
    # which may depend on all others, always stays registered
    if rng.random() < 0.3:
        ph = rng.choice([0.4, 0.8])
        for t in tasks[:-1]:
            if rng.random() < ph:
                t["hidden"] = True
                t["ns"] = None
    for ns in set(t["ns"] for t in tasks if t["ns"]):
        if rng.random() < 0.5:
            rng.choice([t for t in tasks if t["ns"] == ns and not t.get("hidden")])["sub_default"] = True
    form = rng.choice(["names", "pairs", "pairs", "cli", "cli", "program"])
    prefer = derived + [t[j] for t in tasks for j in ("body_of", "code_of") if t.get(j) is not None]
    prefer += [i for i, t in enumerate(tasks) if sum(1 for u in tasks if u["name"] == t["name"]) > 1]
    prefer = [i for i in prefer if not tasks[i].get("hidden")]
    if any(t.get("hidden") for t in tasks):
        prefer += [len(tasks) - 1] * 2
    req = rand_req(rng, tasks, form, prefer)
    default = None
    if form in ("names", "program") and rng.random() < 0.15:
        cands = [i for i, t in enumerate(tasks) if not t["ns"] and not t.get("hidden") and not needs_args(t["params"])]
        if cands:
            default = rng.choice(cands)
            req = []
    if not req and default is None:
        form = "pairs"
        req = rand_req(rng, tasks, form, prefer)
    if not req and default is None:  # e.g. everything requestable was skipped by chance: ask for the last task
        j = len(tasks) - 1
        req = [[j, [[q[0], rand_value(rng, q)] for q in named_params(tasks[j]["params"]) if q[1] is None],
                spellings({"tasks": tasks}, j, False)[0]]]
    dedupe = rng.random() < 0.7
    via = "config"
    if form != "program" and dedupe and rng.random() < 0.3:
        via = rng.choice(["default", "default", "missing"])
    case = {"tasks": tasks, "default": default, "form": form, "req": req, "dedupe": dedupe, "dedupe_via": via}
    # the same Executor object runs a second session; pre/post lists may be edited in between
    if form != "program" and rng.random() < 0.25:
        edits = []
        if rng.random() < 0.6:
            for _ in range(rng.randint(1, 2)):
                i = rng.randrange(1, len(tasks))
                slot = rng.choice(["pre", "post"])
                edits.append([i, slot, rand_edges(rng, tasks, i)[slot]])
        req2 = rand_req(rng, tasks, form, prefer) if rng.random() < 0.6 else [list(x) for x in req]
        if req2:
            case["second"] = {"req": req2, "edits": edits}
    return case


def edge_lists(i, total):
    """all (pre, post) with len(pre)+len(post) <= total over tasks < i (plain references)"""
    out = []
    for a in range(total + 1):
        for b in range(total + 1 - a):
            for pre in itertools.product(range(i), repeat=a):
                for post in itertools.product(range(i), repeat=b):
                    out.append((list(pre), list(post)))
    return out


def exhaustive_graphs(n, total):
    per = [edge_lists(i, total) for i in range(n)]
    for combo in itertools.product(*per):
        yield [{"name": "t%d" % i, "params": [], "pre": [[j, [], []] for j in pre], "post": [[j, [], []] for j in post],
                "code_of": None, "ns": None} for i, (pre, post) in enumerate(combo)]


# ------------------------------------------------------------------ run

def run(ctx):
    out = Outcome()
    rng = ctx.rng
    drv = LeanDriver("drv_exec")
    cases = []
    # 1. the witnesses of the repaired findings (DESIGN section 4 #22, #30) and the twin-task witness first
    cases += [dict(c) for c in WITNESSES]
    # 2. exhaustive small scope (parameterless, plain references)
    big = ctx.thorough or ctx.escalated
    for n in ((1, 2, 3, 4) if big else (1, 2, 3)):
        graphs = list(exhaustive_graphs(n, 2))
        reqs = [list(r) for k in range(1, 4) for r in itertools.product(range(n), repeat=k)]
        for g in graphs:
            for rq in reqs:
                if n == 4 and len(rq) == 3 and rng.random() > 0.12:
                    continue
                for dd in (True, False):
                    if n == 4 and not dd and rng.random() > 0.25:
                        continue
                    cases.append({"tasks": g, "default": None, "form": "names", "req": [[j, []] for j in rq],
                                  "dedupe": dd, "dedupe_via": "config"})
    # 2b. one function wrapped by two Task objects (same name, two sub-collections) with their own pre/post lists
    for pa, qa in itertools.product(edge_lists(2, 2 if big else 1), repeat=2):
        g = [_t("t0"), _t("t1"),
             _t("build", pre=[[j, [], []] for j in pa[0]], post=[[j, [], []] for j in pa[1]], ns="p"),
             dict(_t("build", pre=[[j, [], []] for j in qa[0]], post=[[j, [], []] for j in qa[1]], ns="q"), body_of=2)]
        for rq in ([2], [3], [2, 3], [3, 2], [2, 2], [3, 3]):
            for dd in (True, False):
                cases.append({"tasks": g, "default": None, "form": "names", "req": [[j, []] for j in rq],
                              "dedupe": dd, "dedupe_via": "config"})
    # 2c. namesakes: two DIFFERENT tasks called `build` (own bodies) in two sub-collections, a third task with every
    #     pre/post list over them, every request list of length <= 2
    for pre, post in edge_lists(2, 2):
        g = [_t("build", ns="docs"), _t("build", ns="www"),
             _t("site", pre=[[j, [], []] for j in pre], post=[[j, [], []] for j in post])]
        for rq in [list(r) for k in (1, 2) for r in itertools.product(range(3), repeat=k)]:
            for dd in (True, False):
                cases.append({"tasks": g, "default": None, "form": "names", "req": [[j, []] for j in rq],
                              "dedupe": dd, "dedupe_via": "config"})
    # 2d. one task with *rest / keyword-only / **kw parameters called twice with argument lists out of a small menu
    #     (pairs that agree on a prefix and differ only in a later extra positional, a keyword-only value, a **kw entry)
    A, B = ["s", "a"], ["s", "b"]
    menus = [
        ([["x", None], ["rest", None, "var"]],
         [([A], []), ([A, B], []), ([A, B, B], []), ([A, B, A], []), ([B], []), ([], [["x", A]])]),
        ([["x", ["s", "a"]], ["k", ["i", 0], "ko"], ["kw", None, "varkw"]],
         [([], []), ([], [["k", ["i", 0]]]), ([], [["k", ["i", 1]]]), ([], [["z", ["i", 1]]]), ([], [["z", ["i", 0]]]),
          ([A], []), ([], [["x", A], ["z", ["i", 1]]]), ([], [["z", ["i", 1]], ["w", ["i", 1]]])]),
        ([["rest", None, "var"], ["k", ["s", "a"], "ko"]],
         [([], []), ([A], []), ([A, A], []), ([A], [["k", A]]), ([A], [["k", B]]), ([], [["k", A]])]),
    ]
    for params, calls in menus:
        for c1, c2 in itertools.product(calls, repeat=2):
            g = [_t("stop", params), _t("main", pre=[[0, c1[0], c1[1]]], post=[[0, c2[0], c2[1]]])]
            for dd in (True, False):
                cases.append({"tasks": g, "default": None, "form": "names", "req": [[1, []]], "dedupe": dd,
                              "dedupe_via": "config"})
    # 2e. unhashable / awkward argument values: one task called as pre- and as post-task of another with every ordered
    #     pair out of a menu of values (equal lists, dicts, sets and nested containers written twice, 1 / 1.0 / True,
    #     two NaNs, objects with their own __eq__, the default left out), as keyword, as positional, as *rest extra and
    #     as **kw entry
    L1, L1b, L2 = ["l", [_A]], ["l", [["s", "a"]]], ["l", [_A, _B]]
    NEST = ["l", [["l", [_A]], _K1]]
    vals = [L1, L1b, L2, _K1, ["d", [["k", ["i", 1]]]], _K2, ["set", [["i", 1], ["i", 2]]], ["set", [["i", 2], ["i", 1]]], NEST,
            ["l", [["l", [["s", "a"]]], ["d", [["k", ["i", 1]]]]]], ["i", 1], ["f", 1.0], ["b", True], ["nan", 1], ["nan", 2],
            ["obj", 1], ["obj", 1], ["obj", 2], ["none"], None,
            # ... and the same contents in another container type (top level and nested)
            ["t", [_A]], ["t", [_A, _B]], ["l", [["t", [_A]], _K1]], ["t", [["l", [_A]], _K1]], ["fset", [["i", 1], ["i", 2]]],
            ["od", [["k", ["i", 1]]]], ["d", [["k", ["t", [_A]]]]], ["d", [["k", ["l", [_A]]]]]]
    spell = lambda v, how: ([], []) if v is None else (([v], []) if how else ([], [["t", v]]))  # noqa: E731
    for n1, v1 in enumerate(vals):
        for n2, v2 in enumerate(vals):
            c1, c2 = spell(v1, (n1 + n2) % 2), spell(v2, n1 % 2)
            g = [_t("build", [["t", ["i", 1]]]), _t("main", pre=[[0, c1[0], c1[1]]], post=[[0, c2[0], c2[1]]])]
            for dd in (True, False):
                cases.append({"tasks": g, "default": None, "form": "names", "req": [[1, []]], "dedupe": dd, "dedupe_via": "config"})
    xcalls = [([_A, ["t", [_A]]], []), ([_A], [["z", ["t", [_A]]]]), ([_A], [["z", L1]]),
              ([_A, L1], []), ([_A, L1b], []), ([_A, L2], []), ([_A, L1, L1], []), ([_A], [["z", _K1]]),
              ([_A], [["z", ["d", [["k", ["i", 1]]]]]]), ([_A], [["z", _K2]]), ([_A], [["z", ["nan", 3]]]), ([_A], [["z", ["nan", 3]]])]
    for c1, c2 in itertools.product(xcalls, repeat=2):
        g = [_t("stop", [["x", None], ["rest", None, "var"], ["kw", None, "varkw"]]),
             _t("main", pre=[[0, c1[0], c1[1]]], post=[[0, c2[0], c2[1]]])]
        for dd in (True, False):
            cases.append({"tasks": g, "default": None, "form": "names", "req": [[1, []]], "dedupe": dd, "dedupe_via": "config"})
    # ... and as direct (name, kwargs) requests
    for v1, v2 in itertools.product([L1, L1b, L2, _K1, ["d", [["k", ["i", 1]]]], ["i", 1], ["b", True], ["obj", 1], ["obj", 1],
                                     ["t", [_A]], ["t", [_A, _B]], ["fset", [["i", 1]]], ["set", [["i", 1]]], ["od", [["k", ["i", 1]]]]],
                                    repeat=2):
        g = [_t("build", [["t", ["i", 1]]])]
        cases.append({"tasks": g, "default": None, "form": "pairs", "req": [[0, [["t", v1]]], [0, [["t", v2]]]], "dedupe": True,
                      "dedupe_via": "config"})
    # 2f. dependency chains of depth 3-6 whose helper tasks are registered in NO collection (plain Task objects reached
    #     through pre/post lists only): every pre/post pattern of the links, one or two registered tasks, dedupe on/off
    for depth in (3, 4, 5, 6):
        for bits in itertools.product(("pre", "post"), repeat=depth - 1):
            if depth == 6 and sum(b == "post" for b in bits) not in (0, 1, 4, 5) and not big:
                continue
            for second in (None, 0, depth - 2):
                g = []
                for i in range(depth):
                    t = _t("h%d" % i)
                    if i > 0:
                        t[bits[i - 1]] = [[i - 1, [], []]]
                    if i == depth - 1:
                        t["post"] = t["post"] + [[0, [], []]]  # the chain's end is also a post-task of the top
                    t["hidden"] = i != depth - 1 and i != second
                    g.append(t)
                rq = [[depth - 1, []]] + ([[second, []]] if second is not None else [])
                for dd in (True, False):
                    cases.append({"tasks": g, "default": None, "form": "names", "req": rq, "dedupe": dd, "dedupe_via": "config"})
    # ... and one invocation as call(...) entry, the other as (name, kwargs) request of the same session
    for v1, v2 in itertools.product([L1, ["t", [_A]], L2, ["t", [_A, _B]], NEST, ["t", [["l", [_A]], _K1]], _K1, ["od", [["k", ["i", 1]]]]],
                                    repeat=2):
        g = [_t("emit", [["t", ["i", 1]]]), _t("main", pre=[[0, [], [["t", v1]]]])]
        for rq in ([[1, []], [0, [["t", v2]]]], [[0, [["t", v2]]], [1, []]]):
            cases.append({"tasks": g, "default": None, "form": "pairs", "req": rq, "dedupe": True, "dedupe_via": "config"})
    out.exhaustive = True
    n_exh = len(cases)
    # 3. random graphs with parameters, baked arguments, all request forms, several names per task, shared bodies,
    #    a second session on the same Executor object
    for _ in range(ctx.n(3000, 50000)):
        cases.append(random_case(rng))
    fails = []
    runs = []  # (case number, session number, case as it stands in that session, implementation result)
    for n, c in enumerate(cases):
        for k, r in enumerate(run_impl(c)):
            runs.append((n, k, session_case(c, k), r))
    lines = [model_line(cs, r["reqkw"] or [], r["vs"]) for (_n, _k, cs, r) in runs]
    model = drv.run(lines) if ctx.model_ok else [None] * len(lines)
    for (n, k, cs, r), m in zip(runs, model):
        c = cases[n]
        if k == 0:
            out.case(c, len(r["log"]) >= 2)
            out.hist["form:" + c["form"]] += 1
            out.hist["dedupe:%s/%s" % ("on" if c["dedupe"] else "off", c.get("dedupe_via"))] += 1
            if n >= n_exh:
                out.hist["log_len:%d" % min(len(r["log"]), 12)] += 1
                if any(t.get("code_of") is not None for t in c["tasks"]):
                    out.hist["with_factory_twins"] += 1
                if any(t.get("body_of") is not None for t in c["tasks"]):
                    out.hist["with_shared_body"] += 1
                cl = classes(c)
                if any(cl[i] != i and (t["pre"], t["post"]) != (c["tasks"][cl[i]]["pre"], c["tasks"][cl[i]]["post"])
                       for i, t in enumerate(c["tasks"])):
                    out.hist["equal_tasks_with_different_pre_post"] += 1
                nm = [t["name"] for t in c["tasks"]]
                if any(nm.count(t["name"]) > 1 and cl[i] == i and not any(cl[j] == i for j in range(len(cl)) if j != i)
                       for i, t in enumerate(c["tasks"])):
                    out.hist["with_namesakes(different_bodies)"] += 1
                if any(not cli_requestable(t["params"]) or has_kind(t["params"], "ko") for t in c["tasks"]):
                    out.hist["with_varargs_kwonly_or_varkw_signature"] += 1
                blob = json.dumps([t["pre"] + t["post"] for t in c["tasks"]] + [c["req"]])
                if any(x in blob for x in ('["l", [', '["d", [', '["set", [', '["obj", ', '["od", [')):
                    out.hist["with_unhashable_arguments"] += 1
                if '["t", [' in blob and '["l", [' in blob:
                    out.hist["with_lists_and_tuples"] += 1
                if any(x in blob for x in ('["f", ', '["b", ', '["nan", ', '["none"]', '["t", [', '["fset", [')):
                    out.hist["with_cross_type_equal_nan_or_none_arguments"] += 1
                if any(t.get("hidden") for t in c["tasks"]):
                    out.hist["with_unregistered_helper_tasks"] += 1

                    def depth_of(i, memo={}):
                        return 1 + max([depth_of(e[0]) for e in c["tasks"][i]["pre"] + c["tasks"][i]["post"]] or [0])
                    if max(depth_of(i) for i in range(len(c["tasks"]))) > sum(1 for t in c["tasks"] if not t.get("hidden")):
                        out.hist["chain_deeper_than_registered_tasks"] += 1
                if c.get("default") is not None:
                    out.hist["default_task"] += 1
                if any(pos or kw for t in c["tasks"] for (_j, pos, kw) in t["pre"] + t["post"]):
                    out.hist["with_baked_args"] += 1
                if any(len(it) > 2 and it[2] != (c["tasks"][it[0]]["name"]) for it in c["req"]):
                    out.hist["requested_by_alias_dotted_dashed_or_shortcut"] += 1
                seen = {}
                for it in c["req"]:
                    seen.setdefault(it[0], set()).add(it[2] if len(it) > 2 else None)
                if any(len(v) > 1 for v in seen.values()):
                    out.hist["one_task_under_two_names"] += 1
        else:
            out.hist["second_session"] += 1
            if c["second"].get("edits"):
                out.hist["second_session_after_edits"] += 1
        if r["error"]:
            out.hist["impl_error"] += 1
        if m is not None and not r["error"]:
            ilog, ires = canon_impl(r)
            mlog, mres, hyp = canon_model(m)
            out.traces += 1
            out.hist["theorem_hyp_effective_args_dedupe:" + hyp] += 1
            if "?" in ilog:  # compare the order of task identities only
                ilog = ",".join(x.split("/")[0] for x in ilog.split(",") if x)
                mlog = ",".join(x.split("/")[0] for x in mlog.split(",") if x)
                out.hist["literal_args_unobserved"] += 1
            if ilog != mlog or (ires != "-" and ires != mres):
                out.disagree(c, {"session": k + 1, "log": ilog, "results": ires}, {"log": mlog, "results": mres})
        why = oracle(cs, r)
        if r.get("respelled"):
            out.hist["same_effective_args_spelled_differently(dedupe on)"] += 1
        if why:
            out.hist["oracle:" + (why.split(" ")[0] if why.startswith("[") else "other")] += 1
            fails.append((why.startswith("["), bool(r.get("pure")), c, ("session %d: " % (k + 1) if k else "") + why))
    # failures outside the known classes: when some of them are on inputs where the known divergences cannot show,
    # report those (they hold on the unchanged code and fail here) rather than mixed ones
    telling = any(pure and not tagged for tagged, pure, _c, _w in fails)
    for tagged, pure, c, why in fails:
        if tagged or pure or not telling:
            out.fail(c, why)
        else:
            out.hist["oracle_failure_not_listed(mixed_with_known_class)"] += 1
    out.extra["exhaustive_cases"] = n_exh
    return out


def _t(name, params=(), pre=(), post=(), code_of=None, ns=None):
    return {"name": name, "params": [list(p) for p in params], "pre": [list(x) for x in pre], "post": [list(x) for x in post],
            "code_of": code_of, "body_of": None, "ns": ns}


W22 = {"tasks": [_t("pre", [["x", ["i", 1]]]), _t("main", [], pre=[[0, [], []]])], "default": None, "form": "cli",
       "req": [[0, []], [1, []]], "dedupe": True, "dedupe_via": "config"}
W30 = {"tasks": [_t("t", [["x", ["i", 0]]]), _t("a", [], pre=[[0, [], [["x", ["i", 0]]]]]), _t("b", [], pre=[[0, [], []]])],
       "default": None, "form": "names", "req": [[1, []], [2, []]], "dedupe": True, "dedupe_via": "config"}
WTWIN = {"tasks": [_t("deploy", ns="staging"), _t("deploy", code_of=0, ns="prod")], "default": None, "form": "names",
         "req": [[0, []], [1, []]], "dedupe": True, "dedupe_via": "config"}
WITNESSES = [W22, W30, WTWIN]

LEVEL_TEXT = ("Lean 4 proof (expand_dfs, pre_before_post_after, args_exact, dedupe_first_occurrence, nodedupe_runs_all, "
              "results_last) that for every finite pre/post tree, request list and dedupe flag the modelled Executor runs the "
              "depth-first expansion in request order, skips exactly the invocations equal (Call.__eq__) to an earlier one, and "
              "returns each executed task's last result; effective_args_dedupe shows that Call.__eq__ IS 'same task, same bound "
              "arguments (defaults applied)' for bindable calls of tasks that differ in name or code (a counterexample theorem "
              "shows the latter is needed: known finding; the pre-repair literal rule survives as a pinned counterexample). "
              "The model is tied to invoke.executor / invoke.tasks on every run by a differential check against the real "
              "Executor.execute (exhaustive small scope + random graphs with parameters, four request forms incl. the real "
              "Parser and Program) and an independent recursive reference oracle")
TECHNIQUE = "Lean 4 theorems over all finite task trees (structural/strong induction) + model/implementation correspondence + reference oracle"
