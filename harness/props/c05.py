"""C05 - exit status is reported truthfully and decides return vs. raise; the program's own exit status."""
import itertools
import os

import common
from common import Outcome, LeanDriver

ID = "C05"
PROPS = ["Invoke/Props/C05.lean"]
TARGETS = ["drv_exit", "drv_runner"]
DRIVER_ROOTS = ["Driver/Exit.lean", "Driver/Runner.lean"]
GENERATED = ["Runner"]
RULE = ("cases = (a) fin: the REAL Runner.run/_finish/Promise.join over a scripted process, full truth table exit code x warn x "
        "hide x pty x timeout {none,unfired,fired} x watcher error x thread exception {none,in,out,err} x sync/async; "
        "(b) wait: raw wait statuses obtained from the kernel (fork + _exit(n) for all n in 0..255, fork + kill(self, s) for every "
        "terminating signal) and synthesized ones (core flag, stopped, random 16-bit) fed to the real Local.returncode pty branch; "
        "(c) real: invoke.Context().run on real children `exit N` / `kill -SIG $$`, pty on/off, warn on/off, sync/async; "
        "(d) prog: the real Program.run with bodies raising Exit / UnexpectedExit / running a failing real child / parse errors; "
        "(e) histories of several runs on one Runner object; (f) one promise joined several times / left through `with` after joins. "
        "COMMAND TEXT is a dimension of (a) and (d) as well (braces, %, backslashes, quotes, newlines, non-ASCII, empty), for "
        "UnexpectedExit / CommandTimedOut / Failure, direct str()/repr() and through Program.run; (f) joins x timeout {absent, "
        "given and not reached (scripted and real child), given and reached (real child)} x warn x join count x exit via with; "
        "OUTPUT TEXT is a dimension of (a) and (d): what the failing scripted/real child printed on stdout/stderr (hidden or not) is "
        "drawn from texts with characters special to Python's own templating ({ } {} {0} {{x}} ${VAR} %s %(x)s %), JSON, tails "
        "longer than the 10 displayed lines, non-ASCII, empty - the program's exit status and the return/raise decision must not "
        "depend on it and the failure must be renderable ([render] clause: str()/repr() do not raise). "
        "non-trivial = every case except status-zero-without-any-failure-cause; distinct = distinct case dicts")
TRUSTED = ["Lean 4.33 kernel", "axioms propext/Classical.choice/Quot.sound only",
           "tools/extractors/runner.py (behavioural probing of Runner._finish, Program.run, Exit.code)",
           "harness/props/c05.py + _c05util.py correspondence + canonicalisation",
           "model Invoke/Model/Exit.lean hand-written, tied by generated tables and correspondence on every run",
           "CPython os.waitpid / os.WIF* macros / subprocess.Popen.returncode (modelled, not verified)"]
ASSUMPTIONS = ["Linux wait-status layout (exit code in bits 8..15, signal in bits 0..6, core flag bit 7) - `encodeWait`; "
               "validated on every run against raw statuses obtained from the running kernel",
               "subprocess.Popen.returncode reports code / -signal (non-pty branch delegates to it)",
               "a worker-thread exception other than WatcherError is outside the statement (oracle: don't care); the anchored "
               "order thread > watcher > timeout > exit is checked by the generated table + correspondence"]
LEVEL_TEXT = ("Lean 4 proofs (waitstatus_decode for all codes 0..255 and signals 1..64 with/without core flag, ok_iff_zero, "
              "finish_decision_table / returns_iff / failure_carries_same_result / warn_irrelevant_for_timeout_and_watcher over "
              "the raise order REGENERATED from the real Runner._finish by probing all 32 cause combinations, "
              "program_exit_code over the probed Program.run exit map, async_join_same_decision; second_join_same_decision / "
              "later_joins_same_decision over EVERY schedule of the runner transition system: a second or third Promise.join() "
              "takes the decision of the first); the model is tied to the "
              "implementation on every run by the generated tables, a differential correspondence check over the full truth "
              "table through the real Runner threads, real wait statuses from the kernel, real children (pty on/off) and the "
              "real Program.run, gate-scheduled runs of the real threads with several joins of one promise, plus a direct oracle")
TECHNIQUE = "Lean 4 theorems (omega/decide/case analysis, all finite) over regenerated tables + model/implementation correspondence + real children"

QUICK_CODES = [0, 1, 2, 126, 127, 128, 255]

# the COMMAND text itself: characters special to Python's own templating, %, backslashes, quotes, newlines, non-ASCII,
# empty (the scripted process does not interpret it; REAL_CMDS are valid shell with the same shapes)
CMD_TEXTS = ["echo ${var}", "{ ls; }", "find . -name '*.pyc' -exec rm {} ;", "echo {0} {1}", "echo {{x}}", "printf '%s\\n' x",
             "echo 100%", "echo %(x)s %d", "a\\b \\{ \\n", "echo \"q\" 'r' `t`", "line1\nline2 {\n}", "\u00e9{\u00fc} \u4e2d", "{", "}",
             "{!r}", "{:>8}", "{a.b}{0[0]}", "", "x" * 2000 + "{}"]
REAL_CMDS = [(": ${var}; exit 3", 3), ("{ true; }; exit 4", 4), ("echo '{}' >/dev/null; exit 5", 5),
             ("printf '%s' x >/dev/null; exit 6", 6), ("true\nexit 7", 7), (": \u00e9 '{0}'; exit 8", 8), (": \\{ \"}\"; exit 9", 9)]

# what the failing command printed: characters special to Python's own templating, JSON, long tails (> 10 lines, the
# error display shows the last 10), non-ASCII, empty, no trailing newline
OUT_TEXTS = ["", "plain\n", "{", "}", "{}", "{0}", "{1} {0}\n", "{{x}}\n", "${HOME}\n", "$V %s %(x)s 100%\n", "%", "%d%%\n",
             '{"k": [1, {"a": 2}], "s": "}"}\n', "{command} {!r} {:>8}\n", "\n\n}\n",
             "".join("line %d\n" % i for i in range(15)) + "tail {0} {}\n",
             "head { } {0}\n" + "".join("line %d\n" % i for i in range(14)),
             "".join("{%d}\n" % i for i in range(25)),
             "\u00e9t\u00e9 {\u00fc} \u4e2d\n", "no newline {x}", "x" * 3000 + "{}\n"]


# ------------------------------------------------------------------ oracles (state the property directly)

def oracle_fin(case, o, twin):
    """o = outcome of the real runner; twin() = outcome of the same scripted run under warn=True (lazy)."""
    why = oracle_fin_decision(case, o, twin)
    if why is None and case["thread"] == "none" and o.get("render"):
        # separate clause: the failure "carries that same complete result" - rendering it is how users see it
        return "[render] %s raised for command %r that printed stdout=%r stderr=%r: %s" % (
            o["exact"], case.get("cmd", "the-command"), case.get("out", "hello "), case.get("err", "oops"), o["render"])
    return why


def oracle_fin_decision(case, o, twin):
    if case["thread"] != "none":
        return None  # worker-thread crashes are outside the statement
    wa, to = case["watcher"], case["timer"] == "fired"
    if wa or to:
        own = []
        if wa:
            own.append("Failure")
        if to:
            own.append("CommandTimedOut")
        if o["exact"] not in own:
            return "causes watcher=%s timeout=%s must raise their own failure type %s regardless of warn=%s; got %s" % (
                wa, to, own, case["warn"], o["exact"])
        if o["exact"] == "Failure" and o["reason"] != "WatcherError":
            return "Failure raised for a watcher error does not carry the WatcherError (reason=%s)" % o["reason"]
        return None
    code = case["code"]
    if code == 0 or case["warn"]:
        if o["kind"] != "return":
            return "status %d, warn=%s: must return normally, got %s" % (code, case["warn"], o["exact"])
        if o["exited"] != code:
            return "returned result reports exited=%r, true status is %d" % (o["exited"], code)
        if o["ok"] != (code == 0) or o["failed"] != (code != 0) or o["truth"] != (code == 0) or o["return_code"] != code:
            return "status %d: ok=%s failed=%s bool=%s return_code=%s" % (code, o["ok"], o["failed"], o["truth"], o["return_code"])
        return None
    if o["exact"] != "UnexpectedExit":
        return "status %d, warn=False: must raise UnexpectedExit, got %s" % (code, o["exact"])
    if o["exited"] != code:
        return "UnexpectedExit.result.exited=%r, true status is %d" % (o["exited"], code)
    if o["ok"]:
        return "UnexpectedExit.result.ok is True for status %d" % code
    t = twin()
    if t["kind"] != "return" or t["result"] != o["result"]:
        diff = sorted(k for k in o["result"] if (t.get("result") or {}).get(k, "<missing>") != o["result"][k])
        return "UnexpectedExit does not carry the same complete result the run returns under warn: fields %s differ (%s)" % (
            diff, "; ".join("%s: %r vs %r" % (k, o["result"][k], (t.get("result") or {}).get(k)) for k in diff if k != "env"))
    return None


def oracle_wait(case, rc):
    if case["how"] == "E":
        want = case["n"]
    elif case["how"] == "S":
        want = -case["n"]
    else:
        return None  # arbitrary synthesized status: correspondence only
    if rc != want:
        return "wait status %d (%s %d%s) decoded as %r, true status is %d" % (
            case["status"], "exit" if case["how"] == "E" else "signal", case["n"], " +core" if case.get("core") else "", rc, want)
    return None


def oracle_real(case, o, want):
    if want is None:
        return None
    if o["exited"] != want:
        return "real child %r (pty=%s) really ended with status %d, result reports %r" % (case["cmd"], case["pty"], want, o["exited"])
    if o["ok"] != (want == 0):
        return "status %d but ok=%s" % (want, o["ok"])
    should_return = want == 0 or case["warn"]
    if should_return != (o["kind"] == "return"):
        return "status %d, warn=%s: %s" % (want, case["warn"], o["kind"])
    if not should_return and o["kind"] != "UnexpectedExit":
        return "status %d, warn=False: raised %s, not UnexpectedExit" % (want, o["kind"])
    return None


def prog_want(spec):
    b = spec["body"]
    if b == "success":
        return 0
    if b == "parse":
        return 1
    if b == "ue":
        return spec["exited"]
    if b in ("real", "scripted", "realout"):
        return spec["want"]
    if b == "exit":
        if spec.get("code") is not None:
            return spec["code"]
        return None  # no explicit code: the statement says "the code of the Exit" -> compared with Exit(...).code below
    return None


def oracle_prog(spec, got):
    want = prog_want(spec)
    if want is None and spec["body"] == "exit":
        from invoke import Exit
        want = Exit(spec.get("message"), spec.get("code")).code
    if want is not None and got != want:
        if isinstance(got, str) and got.startswith("crash:"):
            return "Program.run with %r died with %s instead of exiting with status %r" % (spec, got[6:], want)
        return "Program.run with %r exits with %r, the property demands %r" % (spec, got, want)
    return None


# ------------------------------------------------------------------ case execution

def fin_line(case):
    return "%s %d %d %d %d %d %d" % ("join" if case["async"] else "fin", 0 if case["thread"] == "none" else 1,
                                     1 if case["watcher"] else 0, 0 if case["timer"] == "none" else 1,
                                     1 if case["timer"] == "fired" else 0, case["code"], 1 if case["warn"] else 0)


def check_fin(case):
    import props._c05util as u
    o = u.run_fin(case)
    why = oracle_fin(case, o, lambda: u.run_fin(case, warn=True))
    return u.canon_fin(o), why


def wait_status(case):
    import props._c05util as u
    if case["src"] == "kernel":
        return u.kernel_status(case["how"], case["n"])
    return case["status"]


def check_wait(case):
    import props._c05util as u
    st = wait_status(case)
    case = dict(case, status=st)
    rc = u.local_returncode_pty(st)
    return st, rc, oracle_wait(case, rc)


def check_real(case):
    import props._c05util as u
    if case["cmd"].startswith("exit "):
        want = int(case["cmd"].split()[1])
    else:
        sig = int(case["cmd"].split()[1][1:])
        ref = u.reference_status("/bin/bash", case["cmd"], case["pty"])
        want = -sig if ref == -sig else None  # the shell survived / ignored the signal: nothing to demand
    o = u.run_real(case["cmd"], case["pty"], case["warn"], case.get("async", False))
    return o, want, oracle_real(case, o, want)


def prog_line(spec):
    b = spec["body"]
    if b == "success":
        return "prog success"
    if b == "parse":
        return "prog parse"
    if b == "ue":
        return "prog ue %d" % spec["exited"]
    if b in ("real", "scripted", "realout"):
        return "prog ue %d" % spec["want"]
    return "prog exit %s %d" % ("none" if spec.get("code") is None else spec["code"], 1 if spec.get("message") else 0)


def reuse_case(case):
    """HISTORY: one Runner object runs several commands in a row (with / without a timeout, different exit codes,
    warn on/off); each run must be decided by its own status: return iff status 0 or warn, else UnexpectedExit -
    and never a timed-out failure when no timeout is in effect or the timer did not fire.

    A run is [status, warn kwarg (True/False, or None = not given), timeout, config edit]; the optional config edit
    [how, value] is made IN PLACE on the runner's context config before that run (how = "attr": `config.run.warn = v`,
    "item": `config["run"]["warn"] = v`, "timeout": `config.timeouts.command = v`).  The warn in effect at a call is the
    kwarg if given, else the value configured AT THE TIME OF THAT CALL, else the default (False)."""
    from invoke import Context, Config
    from invoke.exceptions import UnexpectedExit, CommandTimedOut
    from fakerunner import Scripted
    conf = Config()
    r = Scripted(Context(conf), finish_when="drained")
    cfg_warn, trail = False, []
    for i, run in enumerate(case["runs"]):
        rc, warn_kw, timeout = run[0], run[1], run[2]
        edit = run[3] if len(run) > 3 else None
        if edit:
            how, val = edit
            if how == "attr":
                conf.run.warn = val
                cfg_warn = bool(val)
            elif how == "item":
                conf["run"]["warn"] = val
                cfg_warn = bool(val)
            elif how == "timeout":
                conf.timeouts.command = val
            trail.append((i, how, val))
        warn = cfg_warn if warn_kw is None else warn_kw
        r._out, r._err, r._exited = [b"o%d" % i], [], rc
        r._drained = {"out": False, "err": False}
        kw = {"timeout": timeout} if timeout is not None else {}
        if warn_kw is not None:
            kw["warn"] = warn_kw
        try:
            res = r.run("cmd%d" % i, hide=True, in_stream=False, **kw)
            got = ("return", res.exited)
        except UnexpectedExit as e:
            got = ("UnexpectedExit", e.result.exited)
        except CommandTimedOut as e:
            got = ("CommandTimedOut", e.result.exited)
        want = ("return", rc) if (rc == 0 or warn) else ("UnexpectedExit", rc)
        if got != want:
            return ("run %d of one Runner object (status %d, warn kwarg %s, warn configured at this call %s [in-place config "
                    "edits so far: %r], timeout=%r): got %s, the property demands %s" % (
                        i, rc, "absent" if warn_kw is None else warn_kw, cfg_warn, trail, timeout, got, want))
    return None


def settle(runner):
    """a later join happens "later": let a cancelled / expired timer thread of the runner finish first, so that every
    further join sees the steady state (deterministic instead of racing the timer thread's exit)"""
    t = getattr(runner, "_timer", None)
    if t is not None and hasattr(t, "join"):
        try:
            t.join(1.0)
        except RuntimeError:
            pass


def joins_case(case):
    """HISTORY: one asynchronous run whose promise is joined several times (explicit join()s, and/or leaving a
    `with promise:` block, which joins again): EVERY join must take the same decision from the command's status -
    return iff status 0 or warn, else UnexpectedExit carrying that status; with a timeout that was REACHED every join
    raises CommandTimedOut regardless of warn; a timeout that was given but NOT reached changes nothing.

    case["timeout"]: "absent" | "unreached" (scripted child, timeout 30) | "unreached-real" (real child `exit rc`, timeout
    30) | "reached" (real child `sleep`, timeout 0.15)"""
    from invoke import Context, Config
    from invoke.exceptions import UnexpectedExit, CommandTimedOut
    from invoke.runners import Local
    from fakerunner import Scripted
    rc, warn, tmo = case["rc"], case["warn"], case.get("timeout", "absent")
    want = ("return", rc) if (rc == 0 or warn) else ("UnexpectedExit", rc)
    kw = dict(hide=True, in_stream=False, warn=warn, asynchronous=True)
    if tmo == "reached":
        want = ("CommandTimedOut", None)
        r = Local(Context(Config()))
        p = r.run("sleep 5", timeout=0.15, **kw)
    elif tmo == "unreached-real":
        r = Local(Context(Config()))
        p = r.run("exit %d" % rc if rc >= 0 else "kill %d $$" % rc, timeout=30, **kw)
    else:
        r = Scripted(Context(Config()), out=[b"o"], exited=rc, finish_when="drained")
        if tmo == "unreached":
            kw["timeout"] = 30
        p = r.run("cmd", **kw)
    what = "status %d, warn=%s, timeout %s" % (rc, warn, tmo)

    def one(f):
        try:
            res = f()
            return ("return", getattr(res, "exited", rc))
        except UnexpectedExit as e:
            return ("UnexpectedExit", e.result.exited)
        except CommandTimedOut:
            return ("CommandTimedOut", None)

    try:
        for i in range(case["joins"]):
            got = one(p.join)
            if got != want:
                return "join %d of one promise (%s): got %s, the property demands %s" % (i + 1, what, got, want)
            settle(r)
        if case["with"]:
            def leave():
                with p:
                    pass
                return p.runner  # no result object here: only return-vs-raise is observable
            got = one(leave)
            if got[0] != want[0] or (got[0] == "UnexpectedExit" and got != want):
                return "leaving `with promise:` after %d join(s) (%s): got %s, the property demands %s" % (
                    case["joins"], what, got[0], want[0])
    finally:
        try:
            r.stop()
        except Exception:  # noqa
            pass
    return None


def reuse_real_case(case):
    """HISTORY on one REAL `Local` runner object: commands with different exit statuses in a row, with and without a pty;
    each run's outcome follows ITS OWN exit status (return iff 0 or warn; UnexpectedExit carrying that status otherwise)"""
    from invoke import Context, Config, Local
    from invoke.exceptions import UnexpectedExit
    r = Local(Context(Config()))
    for i, (status, pty, warn) in enumerate(case["runs"]):
        try:
            res = r.run("exit %d" % status, pty=pty, warn=warn, hide=True, in_stream=False)
            got = ("return", res.exited)
        except UnexpectedExit as e:
            got = ("UnexpectedExit", e.result.exited)
        want = ("return", status) if (status == 0 or warn) else ("UnexpectedExit", status)
        if got != want:
            return "run %d of one real Local object (exit %d, pty=%s, warn=%s) got %r; the property demands %r" % (
                i, status, pty, warn, got, want)
    return None


def replay(case):
    import props._c05util as u
    k = case["kind"]
    if k == "reuse_real":
        if any(p for _, p, _ in case["runs"]) and not u.pty_available():
            return True, "skipped: no pty can be allocated here"
        try:
            why = common.with_timeout(reuse_real_case, 60, case)
        except common.Hang:
            why = "[hang] the runs did not return"
        return why is None, why or "ok"
    if k == "joins":
        try:
            why = common.with_timeout(joins_case, 60, case)
        except common.Hang:
            why = "[hang] the join did not return"
        return why is None, why or "ok"
    if k == "reuse":
        try:
            why = common.with_timeout(reuse_case, 60, case)
        except common.Hang:
            why = "[hang] the runs did not return"
        return why is None, why or "ok"
    if k == "fin":
        got, why = check_fin(case)
        return why is None, why or "ok: %s" % got
    if k == "wait":
        st, rc, why = check_wait(case)
        return why is None, why or "ok: status %d -> %r" % (st, rc)
    if k == "real":
        if case["pty"] and not u.pty_available():
            return True, "skipped: no pty can be allocated here"
        o, want, why = check_real(case)
        return why is None, why or "ok: %r" % o
    if k == "prog":
        got = u.program_exit(case["spec"])
        why = oracle_prog(case["spec"], got)
        return why is None, why or "ok: exit status %r" % got
    return True, "unknown case kind"


# ------------------------------------------------------------------ run

def run(ctx):
    import props._c05util as u
    out = Outcome()
    rng = ctx.rng
    drv = LeanDriver("drv_exit")
    big = ctx.thorough or ctx.escalated
    cases, lines = [], []

    # (a) the truth table through the real Runner threads ------------------------------------------
    codes = [0, 1, 2, 126, 127, 255, -9, -15] if not big else [0, 1, 2, 3, 64, 126, 127, 128, 254, 255, -1, -2, -9, -11, -15, -64]
    hides = [None, True] if not big else [None, True, "out", "err", "both", False]
    for code, warn, hide, pty, timer, watcher, thread, asy in itertools.product(
            codes, [False, True], hides, [False, True], ["none", "unfired", "fired"], [False, True],
            ["none", "in", "out", "err"], [False, True]):
        if pty and thread == "err":
            continue  # no stderr reader under a pty
        if pty and thread == "out" and watcher:
            continue  # the only reader crashes before any watcher could see output
        # thread == none: the full product; the (don't-care for the oracle) thread-exception rows are sampled
        if thread != "none" and rng.random() < (0.8 if thread in ("out", "err") else 0.6):
            continue
        cases.append({"kind": "fin", "code": code, "warn": warn, "hide": hide, "pty": pty, "timer": timer,
                      "watcher": watcher, "thread": thread, "async": asy})
        lines.append(fin_line(cases[-1]))

    # (b) wait statuses --------------------------------------------------------------------------
    for n in range(256):
        cases.append({"kind": "wait", "src": "kernel", "how": "E", "n": n})
        lines.append("wait E %d" % n)
    sigs = u.terminating_signals()
    for s in sigs:
        cases.append({"kind": "wait", "src": "kernel", "how": "S", "n": s})
        lines.append("wait S %d 0" % s)
    for s in range(1, 65):  # synthesized: every signal number with and without the core flag
        for core in (0, 1):
            st = s + 128 * core
            cases.append({"kind": "wait", "src": "synth", "how": "S", "n": s, "core": core, "status": st})
            lines.append("wait S %d %d" % (s, core))
    for _ in range(ctx.n(300, 5000)):
        st = rng.choice([rng.randrange(65536), rng.randrange(256) * 256 + 127, rng.randrange(256) * 256 + rng.randrange(128)])
        cases.append({"kind": "wait", "src": "synth", "how": "any", "status": st})
        lines.append("rc %d" % st)

    # (c) real children --------------------------------------------------------------------------
    have_pty = u.pty_available()
    if not have_pty:
        out.extra["pty"] = "no pty can be allocated in this environment: real pty=True runs skipped"
    exit_codes = QUICK_CODES if not big else list(range(256))
    real_sigs = [1, 2, 6, 9, 11, 13, 15] if not big else sigs
    for pty in (False, True):
        if pty and not have_pty:
            continue
        for n in exit_codes:
            for warn in (False, True):
                cases.append({"kind": "real", "cmd": "exit %d" % n, "pty": pty, "warn": warn, "async": (n + warn) % 3 == 0})
                lines.append("fin 0 0 0 0 %d %d" % (n, warn))
        for s in real_sigs:
            warn = bool(s % 2)
            cases.append({"kind": "real", "cmd": "kill -%d $$" % s, "pty": pty, "warn": warn, "async": s % 4 == 0})
            lines.append("wait S %d 0" % s)

    # (d) the program's own exit status -------------------------------------------------------------
    specs = [{"body": "success"}]
    for n in ([1, 2, 7, 126, 127, 255, -9, -15] if not big else list(range(1, 256)) + [-s for s in sigs]):
        specs.append({"body": "ue", "exited": n, "hide": rng.choice([[], ["stdout", "stderr"]])})
    for n in ([0, 1, 3, 64, 255] if not big else range(0, 256)):
        specs.append({"body": "exit", "code": n, "message": rng.choice([None, "bye"])})
    specs += [{"body": "exit", "code": None, "message": None}, {"body": "exit", "code": None, "message": "bye"},
              {"body": "exit", "code": None, "message": ""}]
    for cmd, want in [("exit 3", 3), ("exit 255", 255), ("kill -9 $$", -9), ("exit 126", 126)]:
        specs.append({"body": "real", "cmd": cmd, "want": want})
    for argv in (["inv", "nosuchtask"], ["inv", "--no-such-core-flag"], ["inv", "probe", "--bogus"], ["inv", "probe", "-x"],
                 ["inv", "-c"]):
        specs.append({"body": "parse", "argv": argv})
    # (d') OUTPUT TEXT as a dimension: the exit status is the failing command's code WHATEVER the command printed
    tails = [t for t in OUT_TEXTS if t]
    for i, text in enumerate(OUT_TEXTS):
        for hide in (True, "out", "err", None):
            for where in ("out", "err", "both"):
                if not big and (i + len(where) + (0 if hide is None else len(str(hide)))) % 2 and hide is not True:
                    continue
                o = text if where in ("out", "both") else rng.choice(["", "plain\n"])
                e = text if where in ("err", "both") else rng.choice(["", "plain\n"])
                specs.append({"body": "scripted", "out": o, "err": e, "hide": hide, "want": rng.choice([1, 2, 3, 127, 255]),
                              "pty": False})
        specs.append({"body": "ue", "exited": rng.choice([1, 7, 255]), "hide": ["stdout", "stderr"], "out": text, "err": text})
        specs.append({"body": "scripted", "out": text, "err": "", "hide": True, "want": 4, "pty": True})
    for text in (tails if big else rng.sample(tails, 6)):
        specs.append({"body": "realout", "out": text, "err": rng.choice(tails), "hide": rng.choice([True, "out", "err"]),
                      "want": rng.choice([1, 3, 255])})
    # (d'') COMMAND TEXT as a dimension: same demand, whatever the command line looks like
    for i, cmd in enumerate(CMD_TEXTS):
        specs.append({"body": "ue", "exited": rng.choice([1, 7, 255]), "hide": ["stdout", "stderr"], "cmd": cmd,
                      "out": rng.choice(["", "plain\n"]), "err": ""})
        specs.append({"body": "ue", "exited": rng.choice([2, 127]), "hide": [], "cmd": cmd, "out": "", "err": ""})
        specs.append({"body": "scripted", "out": rng.choice(OUT_TEXTS), "err": "", "hide": rng.choice([True, "out", "err", None]),
                      "want": rng.choice([1, 3, 255]), "pty": False, "cmd": cmd})
    for cmd, want in REAL_CMDS:
        specs.append({"body": "real", "cmd": cmd, "want": want})
    for s in specs:
        cases.append({"kind": "prog", "spec": s})
        lines.append(prog_line(s))
    # (a'') the command text for direct run() callers: UnexpectedExit, CommandTimedOut, Failure, returned result  [render]
    for i, cmd in enumerate(CMD_TEXTS):
        for timer, watcher, warn in (("none", False, False), ("fired", False, False), ("fired", False, True), ("none", True, False),
                                     ("none", False, True)):
            for hide in ((True, None) if big else (rng.choice([True, None, "out", "err"]),)):
                c = {"kind": "fin", "code": rng.choice([1, 2, 255, -9]), "warn": warn, "hide": hide, "pty": rng.random() < 0.25,
                     "timer": timer, "watcher": watcher, "thread": "none", "async": rng.random() < 0.3,
                     "out": rng.choice(OUT_TEXTS[:3] + [rng.choice(OUT_TEXTS)]), "err": "", "cmd": cmd}
                cases.append(c)
                lines.append(fin_line(c))
    # (a') the same dimension for direct run() callers: the decision does not depend on the text, and the failure
    # (or result) can be rendered  [render]
    for i, text in enumerate(OUT_TEXTS):
        for hide in (True, None, "out", "err"):
            for timer, watcher, warn in (("none", False, False), ("fired", False, False), ("none", True, True), ("none", False, True)):
                if not big and (i + len(str(hide)) + len(timer) + watcher) % 3 == 0:
                    continue
                where = rng.choice(["out", "err", "both"])
                c = {"kind": "fin", "code": rng.choice([1, 2, 255, -9]), "warn": warn, "hide": hide, "pty": rng.random() < 0.25,
                     "timer": timer, "watcher": watcher, "thread": "none", "async": rng.random() < 0.3,
                     "out": text if where != "err" else "plain\n", "err": text if where != "out" else ""}
                cases.append(c)
                lines.append(fin_line(c))

    model = drv.run(lines) if ctx.model_ok else [None] * len(lines)

    for c, m in zip(cases, model):
        k = c["kind"]
        if k == "fin":
            nontrivial = not (c["code"] == 0 and c["thread"] == "none" and not c["watcher"] and c["timer"] != "fired")
            out.case(c, nontrivial)
            got, why = check_fin(c)
            out.hist["fin:" + got.split()[0]] += 1
            if "out" in c:
                out.hist["fin:output-text-dimension"] += 1
            if "cmd" in c:
                out.hist["fin:command-text-dimension:" + got.split()[0]] += 1
            if c["async"]:
                out.hist["fin:async"] += 1
        elif k == "wait":
            out.case(c, True)
            try:
                st, rc, why = check_wait(c)
            except LookupError as e:
                # the direct probe of the pty decoding needs Local.status; the real pty children below still cover it
                out.extra["wait_probe"] = "skipped: %s" % e
                out.hist["wait:skipped"] += 1
                continue
            if c["src"] == "kernel" and c["how"] == "S" and os.WIFEXITED(st):
                # the signal did not terminate the forked child (blocked / ignored in this environment): nothing to check
                out.hist["wait:signal-not-fatal"] += 1
                continue
            got = ("%d %s" % (st, "none" if rc is None else rc)) if c["how"] != "any" else ("none" if rc is None else str(rc))
            out.hist["wait:%s:%s" % (c["src"], c["how"])] += 1
        elif k == "real":
            out.case(c, True)
            try:
                o, want, why = check_real(c)
            except OSError as e:
                if c["pty"]:
                    out.extra["pty"] = "pty run failed with %r: skipped" % (e,)
                    out.hist["real:pty-skipped"] += 1
                    continue
                raise
            out.hist["real:%s:%s" % ("pty" if c["pty"] else "pipe", "exit" if c["cmd"].startswith("exit") else "signal")] += 1
            if want is None:
                out.hist["real:signal-not-fatal"] += 1
                continue
            if c["cmd"].startswith("exit"):
                got = "%s %s %s" % (o["kind"], o["exited"], "1" if o["ok"] else "0")
            else:
                # model line is the wait-status decoding of that signal: compare the reported status
                got = "%d %s" % (-want, o["exited"])
            if o["pty"] != c["pty"]:
                why = why or "requested pty=%s, result.pty=%s" % (c["pty"], o["pty"])
        else:
            out.case(c, c["spec"]["body"] != "success")
            code = u.program_exit(c["spec"])
            why = oracle_prog(c["spec"], code)
            got = str(code)
            out.hist["prog:" + c["spec"]["body"]] += 1
            if any(ch in c["spec"].get("out", "") + c["spec"].get("err", "") for ch in "{}%"):
                out.hist["prog:output-with-template-chars"] += 1
            if "cmd" in c["spec"] and any(ch in c["spec"]["cmd"] for ch in "{}%\\\n"):
                out.hist["prog:command-with-template-chars"] += 1
        if m is not None:
            out.traces += 1
            if m != got:
                out.disagree(c, got, m)
        if why:
            out.fail(c, why)
    # (e) histories: one Runner object reused for several runs
    for _ in range(ctx.n(40, 400)):
        runs = [[rng.choice([0, 0, 1, 3]), rng.random() < 0.5, rng.choice([None, None, 30])] for _ in range(rng.randint(2, 4))]
        c = {"kind": "reuse", "runs": runs}
        out.case(c, True)
        out.hist["reuse"] += 1
        ok, why = replay(c)
        if not ok:
            out.fail(c, why)
    # (e') the same with the runner's config edited IN PLACE between the runs: return vs raise follows the warn in effect
    # at that call (kwarg, else configured at the time of the call, else default)
    for _ in range(ctx.n(80, 800)):
        runs = []
        for j in range(rng.randint(2, 5)):
            edit = None
            if j and rng.random() < 0.7:
                x = rng.random()
                edit = [rng.choice(["attr", "item"]), rng.choice([True, False, True, None])] if x < 0.85 else ["timeout", rng.choice([None, 30])]
            runs.append([rng.choice([0, 1, 1, 3, 255]), rng.choice([None, None, None, True, False]), rng.choice([None, None, 30]), edit])
        c = {"kind": "reuse", "runs": runs}
        out.case(c, True)
        out.hist["reuse:config-edited-in-place"] += 1
        ok, why = replay(c)
        if not ok:
            out.fail(c, why)
    # (f) histories: one promise joined several times / left through a `with` block after joins
    for rc in ([0, 1, 3, -9] if not big else [0, 1, 2, 3, 127, 255, -9, -15]):
        for warn in (False, True):
            for joins in (1, 2, 3):
                for w in (False, True):
                    for tmo in ("absent", "unreached"):
                        c = {"kind": "joins", "rc": rc, "warn": warn, "joins": joins, "with": w, "timeout": tmo}
                        out.case(c, True)
                        out.hist["joins:timeout-" + tmo] += 1
                        ok, why = replay(c)
                        if not ok:
                            out.fail(c, why)
    # the timeout dimension on REAL children: given and reached / given and not reached
    for warn in (False, True):
        for joins, w in (((1, True), (2, False), (3, True)) if not big else ((1, False), (1, True), (2, False), (2, True), (3, False), (3, True))):
            for tmo, rc in (("reached", 0), ("unreached-real", 0), ("unreached-real", 3)):
                c = {"kind": "joins", "rc": rc, "warn": warn, "joins": joins, "with": w, "timeout": tmo}
                out.case(c, True)
                out.hist["joins:timeout-" + tmo] += 1
                ok, why = replay(c)
                if not ok:
                    out.fail(c, why)
    # one REAL Local object, several commands with different statuses, pty and plain mixed
    for _ in range(ctx.n(6, 40)):
        runs = [[rng.choice([0, 0, 1, 3, 7]), rng.random() < 0.6, rng.random() < 0.3] for _ in range(rng.randint(2, 4))]
        c = {"kind": "reuse_real", "runs": runs}
        out.case(c, True)
        out.hist["reuse-real-local"] += 1
        ok, why = replay(c)
        if not ok:
            out.fail(c, why)
    # several joins of ONE promise on the gate scheduler, against the model's `rejoin` (Props/C05 second_join_same_decision):
    # random schedules (timer expiry, kills, exits, worker faults, interrupts) through the first join, then one or two
    # further joins with timer steps in between; model and implementation must agree on EVERY join's outcome, and - the
    # property - every join must take the decision of the first
    import runnerio
    jcases = []
    for _ in range(ctx.n(160, 1600)):
        jc = runnerio.gen_case(rng, rng.choice(["timer", "timer", None, "fault"]))
        if jc["start_fails"]:
            continue
        jc["async"] = True
        jc["joins"] = rng.choice([2, 2, 3])
        jc["sched"] = jc["sched"] + ["main", "timer", "main", "main"] * 12
        jcases.append(jc)

    def joins_oracle(case, raw, obs):
        if obs["main"] != "done" or not obs["earlier"]:
            return None
        for k, o in enumerate(obs["earlier"].split(";")):
            if o != obs["outcome"]:
                return "join #%d of one promise decided %s, the last join decided %s" % (k + 1, o, obs["outcome"])
        return None

    before = out.traces
    runnerio.run_cases(ctx, out, jcases, oracle=joins_oracle)
    out.hist["gated-multi-join"] += len(jcases)
    out.extra["gated_multi_join_traces"] = out.traces - before
    out.exhaustive = True
    out.extra["table_obligations"] = 6  # finish_order, finish_probe_agrees/complete, exit_probe_agrees, exit_obj_probe_agrees, exitCodeMap_eq
    out.extra["terminating_signals_probed"] = sigs
    return out
