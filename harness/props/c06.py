"""C06 - a config behaves like a nested dict under any history of edits and reloads."""
import copy
import itertools

import common
import cfglib
from cfglib import Ref, ABSENT
from common import Outcome, LeanDriver

ID = "C06"
PROPS = ["Invoke/Props/C06.lean"]
TARGETS = ["drv_config"]
DRIVER_ROOTS = ["Driver/Config.lean"]
GENERATED = ["Clone"]
RULE = ("a case is one operation history on a real Config (ops {get,set,del by item/attribute, get(), pop, popitem, clear, "
        "setdefault, update, contains, len, iter, keys, items} at the root or through nested proxies navigated by item or "
        "attribute syntax, interleaved with load_defaults/load_overrides/load_collection/load_shell_env and clone); quick: "
        "every history mutating-op^(<=2) x any-op over a 3-key depth-2 universe (exhaustive) + random histories of length "
        "<=40 over a 5-key depth-3 type-consistent universe + held-proxy bursts; after EVERY op the result / exception class "
        "and the deep plain view of every object are compared with the Lean model and with a plain nested dict that received "
        "the same operations on top of the current merge; a case is non-trivial when at least one mutation succeeded; "
        "distinct = distinct histories")
TRUSTED = ["Lean 4.33 kernel", "axioms propext/Classical.choice/Quot.sound only",
           "harness/cfglib.py + harness/props/c06.py (correspondence, canonicalisation, dict oracle)",
           "CPython dict semantics (the oracle IS a Python dict)",
           "models Invoke/Model/Config.lean (pure) and Invoke/Model/ConfigCache.lean (cache objects + handles) hand-written, "
           "both tied by correspondence on every run (root histories / handle histories incl. stale handles)"]
ASSUMPTIONS = ["values are type-consistent (a key path is a section in every level and every write, or a leaf in all of them)",
               "each MODELLED operation goes through a proxy navigated from the root for that operation; proxy handles kept "
               "across other operations are exercised oracle-only (bursts; handle histories): what a stale handle READS is not "
               "demanded to be dict-like ONLY up to known finding C06-stale-held-handle: results and effects of operations through "
               "a handle must equal those of a plain nested dict (the root's view at the handle's path); failures of handles "
               "obtained before a re-merge of their object carry the stale tag and are matched by the known finding; every "
               "edit through a handle whose section still exists must be effective at the root and in later clones (untagged)",
               "history_refines_dict_partial: dict-valued writes only at key paths that are sections in no lower level "
               "(known findings C06-section-write-merges / C06-section-rewrite-resurrects cover the rest)",
               "popitem / iteration order are unconstrained: the reference follows the key the implementation chose"]

# ------------------------------------------------------------------ universes

# random tier: which paths are sections / leaves (type consistency); MODS_ONLY sections never occur in a lower level
SHAPE = {}
for sec in [("a",), ("b",), ("a", "a"), ("b", "b"), ("n",), ("a", "n")]:
    SHAPE[sec] = "sec"
for lf in [("c",), ("d",), ("a", "b"), ("a", "c"), ("a", "d"), ("b", "a"), ("b", "c"), ("b", "d"), ("a", "a", "a"),
           ("a", "a", "b"), ("a", "a", "c"), ("b", "b", "a"), ("b", "b", "c"), ("n", "a"), ("n", "b"), ("n", "c"),
           ("a", "n", "a"), ("a", "n", "b")]:
    SHAPE[lf] = "leaf"
MODS_ONLY = {("n",), ("a", "n")}
KEYS = ["a", "b", "c", "d", "n"]
# settings NAMED like dict-protocol / Config methods (root, nested, one whole section): they are read and written with
# ITEM syntax - attribute access yields the method, as documented
METHOD_NAMES = ["keys", "items", "values", "get", "pop", "update", "clear", "copy", "setdefault", "popitem", "clone", "merge"]
for lf in [("keys",), ("get",), ("clone",), ("a", "items"), ("a", "clear"), ("a", "pop"), ("b", "values"), ("b", "copy"),
           ("b", "setdefault"), ("b", "b", "popitem"), ("a", "a", "merge"), ("update", "a"), ("update", "keys"),
           ("update", "update"), ("n", "items")]:
    SHAPE[lf] = "leaf"
SHAPE[("update",)] = "sec"
KEYS += METHOD_NAMES
# settings named like attributes of `type` (the METACLASS) that instances do not have: plain settings for the clean code
# (`key not in dir(obj)`), so they are read, written and deleted by ATTRIBUTE syntax as well as by item syntax
META_NAMES = ["mro", "__name__", "__qualname__", "__bases__"]
for lf in [("mro",), ("__name__",), ("a", "mro"), ("a", "__qualname__"), ("b", "__bases__"), ("b", "b", "mro"),
           ("a", "a", "__name__"), ("update", "mro"), ("n", "mro")]:
    SHAPE[lf] = "leaf"
KEYS += META_NAMES


def plain_syntax(op):
    """method-named keys are addressed by item syntax only (in place; also inside a handle operation)"""
    tgt = op.get("sub", op)
    for st in op.get("path", []):
        if st[0] in METHOD_NAMES:
            st[1] = False
    if tgt.get("k") in METHOD_NAMES and tgt.get("op") in ("SA", "DA", "GA"):
        tgt["op"] = {"SA": "SI", "DA": "DI", "GA": "GI"}[tgt["op"]]
    return op


def in_mods_only(p):
    return any(tuple(p[:i]) in MODS_ONLY for i in range(1, len(p) + 1))


def leaf(rng, p):
    """leaf type fixed by the last key: a int, b str, c bool, d list; None anywhere but lists"""
    k = p[-1]
    if k == "d":
        return [rng.choice("xyz") for _ in range(rng.randint(0, 2))]
    if rng.random() < 0.12:
        return None
    if k == "a":
        return rng.randint(0, 9)
    if k == "b":
        return rng.choice(["x", "y", "zz"])
    return rng.random() < 0.5


def tree(rng, path=(), lower=True, dens=0.55):
    d = {}
    ks = list(KEYS)
    rng.shuffle(ks)
    for k in ks:
        p = path + (k,)
        if p not in SHAPE or rng.random() > dens:
            continue
        if lower and in_mods_only(p):
            continue
        d[k] = tree(rng, p, lower, dens) if SHAPE[p] == "sec" else leaf(rng, p)
    return d


def share_variant(rng, data):
    """make ONE dict object sit at two key paths of this level's data (a.a and b.b: both sections whose common leaves
    are `a` and `c`); returns the sharing description [[src path, dst path]]"""
    common = {k: leaf(rng, ("a", "a", k)) for k in rng.sample(["a", "c"], rng.randint(1, 2))}
    for top in rng.sample(["a", "b"], 2):  # (insertion order decides which occurrence is walked second)
        if not isinstance(data.get(top), dict):
            data[top] = {}
        data[top] = dict(data.pop(top))
    data["a"]["a"] = common
    data["b"]["b"] = copy.deepcopy(common)
    pairs = [[["a", "a"], ["b", "b"]]] if rng.random() < 0.5 else [[["b", "b"], ["a", "a"]]]
    return {"pairs": pairs, "top": list(data)}


def equal_variant(rng, d):
    """a fresh tree `==` to `d`: keys reordered at every depth, some 0/1 <-> False/True swaps"""
    ks = list(d)
    rng.shuffle(ks)
    out = {}
    for k in ks:
        v = d[k]
        if isinstance(v, dict):
            out[k] = equal_variant(rng, v)
        elif isinstance(v, bool) and rng.random() < 0.4:
            out[k] = int(v)
        elif isinstance(v, int) and not isinstance(v, bool) and v in (0, 1) and rng.random() < 0.6:
            out[k] = bool(v)
        else:
            out[k] = copy.deepcopy(v)
    return out


def sections(t, pre=()):
    out = [pre]
    for k, v in t.items():
        if isinstance(v, dict):
            out += sections(v, pre + (k,))
    return out


def gen_env(rng, t):
    env = {}
    for p, old in cfglib.leaves(t):
        if isinstance(old, list) or rng.random() > 0.3 or (in_mods_only(p) and rng.random() < 0.9) \
                or any("_" in k for k in p):
            continue
        env["_".join(p).upper()] = rng.choice(["0", "1", "7", "42"]) if p[-1] != "c" else rng.choice(["0", "1", "", "yes"])
    if rng.random() < 0.3:
        env["UNRELATED_X"] = "1"
    return env


def gen_history(rng, maxlen=40, risky=0.03, files=False, clone_p=0.03, into_p=0.0, coll_p=0.0, max_objs=3,
                classes=None, reload_p=0.17, levels=False, focus=0.0, dictwrites=True, share_p=0.0, srcedit_p=0.0, shapes=True, proxy_ok=True, eqreload_p=0.0):
    """random history guided by a reference simulation (independent of the implementation)"""
    ops = [{"o": 0, "op": "NEW", "defaults": tree(rng), "overrides": tree(rng, dens=0.3)}]
    if files:
        ops[0]["op"] = "NEWF"
        for s in ("system", "user", "project", "runtime"):
            ops[0][s] = tree(rng, dens=0.4) if rng.random() < 0.7 else None
    for fld in ("defaults", "overrides", "system", "user", "project", "runtime"):
        if isinstance(ops[0].get(fld), dict) and rng.random() < share_p:
            ops[0].setdefault("share", {})[fld] = share_variant(rng, ops[0][fld])
    # clone target classes whose global_defaults() hands out ONE shared table (a module-level constant)
    const_cls = {k for k in range(len(classes or [])) if rng.random() < 0.5}
    refs = [cfglib.new_ref(ops[0])]
    # the level dicts the caller still holds (object, slot) -> current content; shared levels are left alone
    held = {(0, fld): ops[0][fld] for fld in ("defaults", "overrides") if fld not in ops[0].get("share", {})}
    n = rng.randint(3, maxlen)
    while len(ops) < n:
        o = 0 if rng.random() < focus else rng.randrange(len(refs))
        ref = refs[o]
        r = rng.random()
        op = {"o": o}
        extra = []
        mine = [k for k in held if k[0] == o]
        if mine and rng.random() < eqreload_p:
            # reload a level with EQUAL-BUT-NOT-IDENTICAL content: a new dict object with another key order and / or
            # equal values of another type (1 <-> True, 0 <-> False)
            slot = rng.choice(mine)[1]
            data = equal_variant(rng, held[(o, slot)])
            held[(o, slot)] = data
            e = {"o": o, "op": "LOAD", "slot": slot, "data": data, "eqreload": True}
            ops.append(e)
            try:
                ref.apply(e)
            except cfglib.RefSkip:
                pass
            continue
        if mine and rng.random() < srcedit_p:
            # CALLER-SIDE in-place edit of data supplied earlier, made visible by load_*(the same object) / merge()
            slot = rng.choice(mine)[1]
            data = copy.deepcopy(held[(o, slot)])
            lp = [k for k, v in SHAPE.items() if v == "leaf" and not in_mods_only(k)]
            present = [k for k, _ in cfglib.leaves(data)]
            if present and rng.random() < 0.35:
                k = rng.choice(present)
                cfglib.del_total(data, list(k))
                ed = {"o": o, "op": "EDITSRC", "slot": slot, "keys": list(k), "data": data}
            else:
                k = rng.choice(present) if present and rng.random() < 0.5 else rng.choice(lp)
                v = leaf(rng, k)
                cfglib.set_total(data, list(k), v)
                ed = {"o": o, "op": "EDITSRC", "slot": slot, "keys": list(k), "v": v, "data": data}
            held[(o, slot)] = data
            t = rng.random()
            trig = ({"o": o, "op": "LOADSAME", "slot": slot, "data": copy.deepcopy(data)} if t < 0.55 else
                    {"o": o, "op": "MERGE"} if t < 0.9 else {"o": o, "op": "ENV", "env": {}})
            for e in (ed, trig):
                ops.append(e)
                try:
                    ref.apply(e)
                except cfglib.RefSkip:
                    pass
            continue
        if r < reload_p and levels and rng.random() < 0.45:
            w = rng.random()
            if w < 0.6:
                # unmerged level loads, made visible by whatever merges next
                for _ in range(rng.randint(1, 2)):
                    kind = rng.choice(["defaults", "defaults", "overrides", "collection"])
                    extra.append({"o": o, "op": "LOADU", "slot": kind,
                                  "data": tree(rng, dens=0.3 if kind == "overrides" else 0.55)})
                t = rng.random()
                tmp = ref.clone()
                for e in extra:
                    tmp.apply(e)
                both = [k for k, v in ref.tree.items() if not isinstance(v, dict) and k in tmp.tree
                        and not isinstance(tmp.tree[k], dict)]
                if t < 0.25 and both:
                    # a deletion right after the unmerged load (of a key the old AND the new view have)
                    extra.append({"o": o, "op": rng.choice(["DI", "DA"]), "path": [], "k": rng.choice(both)})
                elif t < 0.4:
                    extra.append({"o": o, "op": "MERGE"})
                elif t < 0.6:
                    extra.append({"o": o, "op": "LOAD", "slot": "collection", "data": tree(rng)})
                elif t < 0.75:
                    extra.append({"o": o, "op": "ENV", "env": {}})
                else:
                    lk = rng.choice([k for k in KEYS if SHAPE.get((k,)) == "leaf"])
                    extra.append({"o": o, "op": "SI", "path": [], "k": lk, "v": leaf(rng, (lk,))})
                op = extra.pop(0)
            elif levels == "nofiles":
                op.update(op="LOAD", slot="collection", data=tree(rng))
            elif w < 0.85:
                op.update(op="RUNTIME", data=tree(rng, dens=0.4) if rng.random() < 0.8 else None)
            else:
                op.update(op="PROJECT", data=tree(rng, dens=0.4))
        elif r < reload_p:  # reloads
            kind = rng.choice(["defaults", "collection", "collection", "overrides", "ENV", "ENV"])
            if kind == "ENV":
                op.update(op="ENV", env=gen_env(rng, ref.tree))
            else:
                op.update(op="LOAD", slot=kind, data=tree(rng, dens=0.3 if kind == "overrides" else 0.55))
                if kind == "collection" and rng.random() < coll_p:
                    op["via_coll"] = True
        elif r < reload_p + clone_p and len(refs) < max_objs and classes and rng.random() < 0.15:
            # a FRESH instance of a clone target class: it must read exactly that class's defaults table
            k = rng.randrange(len(classes))
            op.update(op="FRESH", cls=k, into=copy.deepcopy(classes[k]), const=k in const_cls)
        elif r < reload_p + clone_p and len(refs) < max_objs:
            op.update(op="CLONE")
            if rng.random() < into_p:
                if classes:
                    op["cls"] = rng.randrange(len(classes))
                    op["into"] = copy.deepcopy(classes[op["cls"]])
                    op["const"] = op["cls"] in const_cls
                else:
                    op["into"] = tree(rng, dens=0.4)
        else:
            secs = sections(ref.tree)
            path = rng.choice(secs) if rng.random() < 0.9 else tuple(rng.choice(KEYS) for _ in range(rng.randint(1, 2)))
            op["path"] = [[k, rng.random() < 0.4] for k in path]
            cur = cfglib.get_path(ref.tree, list(path))
            present = list(cur) if isinstance(cur, dict) else []
            cand = [k for k in KEYS if path + (k,) in SHAPE]
            if not cand:
                continue
            k = rng.choice(present) if present and rng.random() < 0.6 else rng.choice(cand)
            full = path + (k,)
            if full not in SHAPE:
                continue
            op["k"] = k
            if r < 0.55:  # writes
                if SHAPE[full] == "sec":
                    if not dictwrites or not (in_mods_only(full) or rng.random() < risky):
                        continue
                    v = tree(rng, full, lower=False, dens=0.5)
                else:
                    v = leaf(rng, full)
                w = rng.random()
                if w < 0.45:
                    op.update(op="SI", v=v)
                elif w < 0.7:
                    op.update(op="SA", v=v)
                elif w < 0.85:
                    op.update(op="SD")
                    if not (SHAPE[full] == "leaf" and v is None and rng.random() < 0.5):
                        op["d"] = v
                    if SHAPE[full] == "sec" and "d" not in op:
                        continue
                else:
                    # update with several keys of this section
                    m, kw = {}, {}
                    for kk in rng.sample(cand, rng.randint(1, len(cand))):
                        f2 = path + (kk,)
                        if SHAPE[f2] == "sec":
                            if not dictwrites or not (in_mods_only(f2) or rng.random() < risky):
                                continue
                            vv = tree(rng, f2, lower=False, dens=0.5)
                        else:
                            vv = leaf(rng, f2)
                        (m if rng.random() < 0.5 else kw)[kk] = vv
                    op.update(op="UPD", kw=kw)
                    del op["k"]
                    if m or rng.random() < 0.5:
                        op["m"] = m
            elif r < 0.82:  # deletions
                w = rng.random()
                if w < 0.35:
                    op["op"] = "DI"
                elif w < 0.5:
                    op["op"] = "DA"
                elif w < 0.75:
                    op["op"] = "POP"
                    if rng.random() < 0.5:
                        op["d"] = leaf(rng, full) if SHAPE[full] == "leaf" else {}
                elif w < 0.9:
                    op["op"] = "PI"
                    del op["k"]
                    if present:
                        op["chosen"] = present[-1]
                else:
                    op["op"] = "CLR"
                    del op["k"]
            else:
                op["op"] = rng.choice(cfglib.READS)
                if op["op"] in ("LEN", "KEYS", "ITER", "ITEMS"):
                    del op["k"]
        for op in [op] + extra:
            if op["op"] in ("LOAD", "LOADU", "RUNTIME", "PROJECT") and isinstance(op.get("data"), dict) \
                    and not op.get("via_coll") and rng.random() < share_p:
                op["share"] = {"data": share_variant(rng, op["data"])}
            if op["op"] in ("LOAD", "LOADU"):
                held.pop((op["o"], op["slot"]), None)
                if not op.get("via_coll") and "share" not in op:
                    held[(op["o"], op["slot"])] = op["data"]
            if op["op"] == "UPD" and "m" in op and shapes:
                op["shape"] = rng.choice(SHAPES_IN_USE if proxy_ok else cfglib.UPDATE_SHAPES)
            ops.append(plain_syntax(op))
            if op["op"] == "UPD" and op.get("shape") == "proxy":
                # known finding C06-update-from-proxy: what this call wrote is not what dict.update writes, and the
                # difference can stay latent (the value written equals the one already visible) until a later reload;
                # the history ends here so that a later failure is never a consequence of this call
                n = len(ops)
            try:
                if op["op"] == "FRESH":
                    refs.append(cfglib.Ref({"defaults": op["into"]}))
                elif op["op"] == "CLONE":
                    k = ref.clone()
                    if op.get("into") is not None:
                        k.reload("defaults", cfglib.deep_merge(op["into"], k.levels["defaults"]))
                    refs.append(k)
                else:
                    ref.apply(op)
            except cfglib.RefSkip:
                ops.pop()
                if extra:
                    ops.append({"o": o, "op": "MERGE"})  # never leave an unmerged load dangling
                break
    return ops


def gen_sub(rng, path, ref):
    """an operation to issue through a handle held on section `path`"""
    cand = [k for k in KEYS if tuple(path) + (k,) in SHAPE and SHAPE[tuple(path) + (k,)] == "leaf"]
    if not cand:
        return None
    cur = cfglib.get_path(ref.tree, list(path))
    present = [k for k in (cur if isinstance(cur, dict) else {}) if k in cand]
    k = rng.choice(present) if present and rng.random() < 0.65 else rng.choice(cand)
    full = tuple(path) + (k,)
    r = rng.random()
    if r < 0.28:
        return {"op": rng.choice(["SI", "SA"]), "k": k, "v": leaf(rng, full)}
    if r < 0.48:
        return {"op": rng.choice(["DI", "DA"]), "k": k}
    if r < 0.58:
        sub = {"op": "POP", "k": k}
        if rng.random() < 0.5:
            sub["d"] = 0
        return sub
    if r < 0.64:
        return {"op": "PI"}
    if r < 0.69:
        return {"op": "CLR"}
    if r < 0.79:
        return {"op": "SD", "k": k, "d": leaf(rng, full)}
    if r < 0.85:
        kvs = {kk: leaf(rng, tuple(path) + (kk,)) for kk in rng.sample(cand, rng.randint(1, len(cand)))}
        if rng.random() < 0.6:
            ks = list(kvs)
            cut = rng.randint(1, len(ks))
            return {"op": "UPD", "m": {k2: kvs[k2] for k2 in ks[:cut]}, "kw": {k2: kvs[k2] for k2 in ks[cut:]},
                    "shape": rng.choice(cfglib.UPDATE_SHAPES)}
        return {"op": "UPD", "kw": kvs}
    sub = {"op": rng.choice(["GI", "HAS", "KEYS", "LEN"]), "k": k}
    if sub["op"] in ("KEYS", "LEN"):
        del sub["k"]
    return sub


def gen_handle_history(rng, maxlen=24, files=False, clone_p=0.1, levels="nofiles"):
    """a random history (edits from the root, reloads - also unmerged ones -, clones) into which proxy HANDLES are
    woven: obtained at some point (`HOLD`, depth 1-2), kept across the later operations, used for every kind of edit
    and read (`HOP`) - also after the view has been re-merged, after reloads, on clones"""
    # (no dict-valued writes here: a written dict is stored BY REFERENCE in the modifications and, until the next
    # re-merge, in the cache object - a stale handle would alias it; the cached model copies values)
    base = gen_history(rng, maxlen=maxlen, risky=0.02, files=files, clone_p=clone_p, max_objs=3, reload_p=0.2, levels=levels,
                       focus=0.6, dictwrites=False, share_p=0.1, proxy_ok=False)
    out, refs, handles = [], [], []

    def weave():
        if not refs or (out and out[-1]["op"] in ("LOADU", "EDITSRC")):
            return
        r = rng.random()
        if r < 0.3 or not handles:
            o = rng.randrange(len(refs))
            secs = [x for x in sections(refs[o].tree) if x]
            if secs:
                path = rng.choice(secs)
                handles.append((len(handles), o, path))
                out.append(plain_syntax({"o": o, "op": "HOLD", "h": len(handles) - 1,
                                         "path": [[k, rng.random() < 0.4] for k in path]}))
        elif r < 0.75:
            h, o, path = rng.choice(handles)
            sub = gen_sub(rng, path, refs[o])
            if sub:
                out.append(plain_syntax({"o": o, "op": "HOP", "h": h, "sub": sub}))
                try:
                    refs[o].apply(dict(copy.deepcopy(sub), path=[[k, False] for k in path]))
                except cfglib.RefSkip:
                    pass

    for op in base:
        weave()
        out.append(op)
        try:
            if op["op"] in ("NEW", "NEWF"):
                refs.append(cfglib.new_ref(op))
            elif op["op"] == "CLONE":
                refs.append(refs[op.get("o", 0)].clone())
            else:
                refs[op.get("o", 0)].apply(op)
        except cfglib.RefSkip:
            pass
    for _ in range(rng.randint(1, 4)):
        weave()
    return out


# ------------------------------------------------------------------ exhaustive small scope

SMALL_NEW = {"o": 0, "op": "NEW", "defaults": {"a": {"a": 1, "b": "x"}, "b": 3}, "overrides": {"a": {"b": "y"}}}


def P(*steps):
    return [[s.lstrip("@"), s.startswith("@")] for s in steps]


SMALL_MUT = [
    {"op": "SI", "path": P(), "k": "b", "v": 9},
    {"op": "SA", "path": P("a"), "k": "a", "v": 8},
    {"op": "SI", "path": P("@a"), "k": "c", "v": None},
    {"op": "SI", "path": P(), "k": "c", "v": {"a": 1}},          # dict at a key no lower level has
    {"op": "SA", "path": P("c"), "k": "a", "v": 5},
    {"op": "SI", "path": P(), "k": "a", "v": {"c": True}},        # finding #17 territory
    {"op": "SI", "path": P(), "k": "a", "v": {}},                 # finding #18 territory after a deletion
    {"op": "DI", "path": P(), "k": "a"},
    {"op": "DI", "path": P("a"), "k": "a"},
    {"op": "DA", "path": P("@a"), "k": "b"},
    {"op": "DA", "path": P(), "k": "b"},
    {"op": "DI", "path": P(), "k": "c"},
    {"op": "POP", "path": P("a"), "k": "a"},
    {"op": "POP", "path": P(), "k": "c", "d": 0},
    {"op": "PI", "path": P("a")},
    {"op": "PI", "path": P()},
    {"op": "CLR", "path": P("a")},
    {"op": "CLR", "path": P()},
    {"op": "SD", "path": P("a"), "k": "c", "d": False},
    {"op": "SD", "path": P("@a"), "k": "c"},
    {"op": "SD", "path": P(), "k": "b"},
    {"op": "UPD", "path": P("a"), "m": {"a": 5}, "kw": {"c": True}},
    {"op": "UPD", "path": P(), "kw": {"b": 1}},
    {"op": "LOAD", "slot": "defaults", "data": {"a": {"a": 5, "c": False}, "b": 0}},
    {"op": "LOAD", "slot": "defaults", "data": {"b": 2}},
    {"op": "LOAD", "slot": "overrides", "data": {}},
    {"op": "LOAD", "slot": "collection", "data": {"a": {"a": 7}, "b": 8}},
    {"op": "ENV", "env": {"B": "5", "A_A": "6", "A_C": "1", "ZZ": "1"}},
    {"op": "CLONE"},
]
SMALL_READ = [
    {"op": "GI", "path": P("a"), "k": "a"},
    {"op": "GA", "path": P(), "k": "a"},
    {"op": "GA", "path": P("@a"), "k": "c"},
    {"op": "GI", "path": P("c"), "k": "a"},
    {"op": "GET", "path": P("a"), "k": "c"},
    {"op": "HAS", "path": P("a"), "k": "a"},
    {"op": "HAS", "path": P(), "k": "c"},
    {"op": "LEN", "path": P("a")},
    {"op": "KEYS", "path": P()},
    {"op": "ITER", "path": P("a")},
    {"op": "ITEMS", "path": P()},
]


def small_histories(depth):
    """mutating-op^(<depth) x (one further mutating op | all reads in a row); after CLONE ops target the clone"""
    def build(seq):
        ops, o = [copy.deepcopy(SMALL_NEW)], 0
        for t in seq:
            t = copy.deepcopy(t)
            t["o"] = o
            ops.append(t)
            if t["op"] == "CLONE":
                o += 1
        return ops
    for k in range(0, depth):
        for pre in itertools.product(SMALL_MUT, repeat=k):
            for last in SMALL_MUT:
                yield build(list(pre) + [last])
            yield build(list(pre) + SMALL_READ)


# ------------------------------------------------------------------ held proxies (oracle only)

def held_case(rng):
    """a proxy object used for a burst of consecutive operations, optionally after its own section was deleted"""
    d = tree(rng, dens=0.8)
    secs = [s for s in sections(d) if s]
    if not secs:
        return None
    path = rng.choice(secs)
    detach = rng.random() < 0.4
    burst = []
    for _ in range(rng.randint(1, 4)):
        cand = [k for k in KEYS if path + (k,) in SHAPE and SHAPE[path + (k,)] == "leaf"]
        if not cand:
            return None
        k = rng.choice(cand)
        w = rng.random()
        if w < 0.4:
            burst.append({"op": "SI", "k": k, "v": leaf(rng, path + (k,))})
        elif w < 0.6:
            burst.append({"op": "DI", "k": k})
        elif w < 0.7:
            burst.append({"op": "POP", "k": k, "d": 0})
        elif w < 0.8:
            burst.append({"op": "SD", "k": k, "d": leaf(rng, path + (k,))})
        elif w < 0.9:
            burst.append({"op": "GI", "k": k})
        else:
            burst.append({"op": rng.choice(["LEN", "KEYS", "CLR"])})
    cut = rng.randint(1, len(path)) if detach else 0
    return {"kind": "held", "defaults": d, "path": list(path), "detach": cut, "burst": burst}


def run_held(case):
    """oracle: the same statements on a plain nested dict (natural aliasing).  Returns why or None."""
    from invoke.config import Config
    c = Config(defaults=copy.deepcopy(case["defaults"]), lazy=True, **cfglib.NOFILES)
    ref = copy.deepcopy(case["defaults"])
    p, pr = c, ref
    for k in case["path"]:
        p, pr = p[k], pr[k]
    if case["detach"]:
        anc = case["path"][:case["detach"]]
        q, qr = c, ref
        for k in anc[:-1]:
            q, qr = q[k], qr[k]
        del q[anc[-1]]
        del qr[anc[-1]]
    for op in case["burst"]:
        n, k = op["op"], op.get("k")

        def do(t, is_ref):
            if n == "SI":
                t[k] = copy.deepcopy(op["v"])
                return None
            if n == "DI":
                del t[k]
                return None
            if n == "POP":
                return t.pop(k, op["d"])
            if n == "SD":
                return t.setdefault(k, copy.deepcopy(op["d"]))
            if n == "GI":
                return t[k]
            if n == "LEN":
                return len(t)
            if n == "KEYS":
                return sorted(t.keys())
            if n == "CLR":
                return t.clear()
        outs = []
        for t, is_ref in ((p, False), (pr, True)):
            try:
                outs.append("v" + cfglib.canon(cfglib.deplain(do(t, is_ref))) if n != "KEYS" else "K" + ",".join(do(t, is_ref)))
            except Exception as e:
                outs.append(cfglib.errname(e))
        if cfglib.is_internal(outs[0]):
            return "internal error %s from %s through a held proxy" % (outs[0], op)
        if outs[0] != outs[1]:
            return "%s through a held proxy gave %s, a held nested dict gives %s" % (op, outs[0], outs[1])
        try:
            v = cfglib.plain(c)
        except Exception as e:
            return "config unreadable after %s through a held proxy: %r" % (op, e)
        if cfglib.canon(v) != cfglib.canon(ref):
            return "after %s through a held proxy the config reads %s, the nested dict %s" % (op, cfglib.canon(v), cfglib.canon(ref))
    return None


# ------------------------------------------------------------------ known-finding signatures

KNOWN_SIGS = ("C06-section-write-merges", "C06-section-rewrite-resurrects", "C06-update-from-proxy",
              "C06-rewritten-key-order")
SHAPES_IN_USE = list(cfglib.UPDATE_SHAPES)  # + "proxy" once known finding C06-update-from-proxy is listed (see run)


def classify(ops):
    """signature of the FIRST oracle failure of a history on the real code, or None (see `signature`)"""
    ops = copy.deepcopy(ops)
    _, results, views = cfglib.run_impl(ops)
    return signature(cfglib.judge(ops[:len(results)], results, views, order=True), ops)


def signature(f, ops=None):
    """signature of a failure record of `cfglib.judge`, or None when there is no failure.

    'C06-update-from-proxy'         the failing operation is `update(<another Config / DataProxy>)`: dict.update takes
                                    it as a mapping, DataProxy.update iterates it as pairs (IndexError / garbage keys)

    'C06-section-write-merges'      a dict-valued write to a key path that is a section in the merge of the lower
                                    levels: the lower levels' settings below it still show through (everything the
                                    implementation shows in excess is exactly the lower levels' content)
    'C06-section-rewrite-resurrects' the same, where the section had been deleted before the write
    anything else -> 'other'"""
    if f is not None and ops is not None and f["at"] < len(ops) and ops[f["at"]]["op"] == "UPD" \
            and ops[f["at"]].get("shape") == "proxy":
        return "C06-update-from-proxy"
    if f is None:
        return None
    if f["kind"] == "order-rewritten":  # order-only, in a section where a deleted key was re-written / below a dict write
        return "C06-rewritten-key-order"
    if f["kind"] != "view" or not f["diffs"]:
        return "other"
    ref = f["refs"][f["obj"]]
    base = ref.base()
    sig = None
    for p, kind in f["diffs"]:
        if kind != "impl-only":
            return "other"
        cover = [w for w in ref.dictwrites if tuple(w[0]) == p[:len(w[0])] and isinstance(cfglib.get_path(base, w[0]), dict)]
        if not cover:
            return "other"
        if cfglib.get_path(base, list(p)) != cfglib.get_path(f["view"], list(p)):
            return "other"
        w = cover[-1]
        deleted_before = any(e[0] == "del" and e[1] == w[0][:len(e[1])] for e in ref.journal[:w[2]])
        s = "C06-section-rewrite-resurrects" if (deleted_before and not w[1]) else "C06-section-write-merges"
        sig = s if sig in (None, s) else "+".join(sorted(set(sig.split("+")) | {s}))
    return sig


def match_known(entry, failure):
    case = failure["case"]
    if not entry.get("match"):
        return False
    if entry["match"] == "C06-stale-held-handle":
        # ONLY dict-likeness failures of a handle obtained before the last re-merge of its object (tag computed from
        # the history); edits not effective at the root, clone mismatches and internal errors never carry the tag
        if case.get("kind") != "handle":
            return False
        why = cfglib.judge_handles(copy.deepcopy(case["ops"]))
        return bool(why) and why.endswith(cfglib.STALE_TAG)
    if case.get("kind") != "hist":
        return False
    sig = classify(case["ops"])
    return sig is not None and all(x in KNOWN_SIGS for x in sig.split("+")) and entry["match"] in sig.split("+")


# ------------------------------------------------------------------ replay / run

def check_hist(ops):
    """returns (ops actually run, impl rows, failure or None)"""
    _, results, views = cfglib.run_impl(ops)
    ops = ops[:len(results)]
    return ops, cfglib.rows(results, views), cfglib.judge(ops, results, views, order=True), results


def replay(case):
    if case.get("kind") == "held":
        why = run_held(case)
        return why is None, why or "ok"
    if case.get("kind") == "handle":
        why = cfglib.judge_handles(copy.deepcopy(case["ops"]))
        return why is None, why or "ok"
    ops = copy.deepcopy(case["ops"])
    ops, _, f, _ = check_hist(ops)
    return f is None, (f["why"] if f else "ok")


def run(ctx):
    out = Outcome()
    rng = ctx.rng
    drv = LeanDriver("drv_config")
    # `update(<another configuration>)` is generated only once its known finding is listed (it fails on the clean tree)
    del SHAPES_IN_USE[:]
    SHAPES_IN_USE.extend(cfglib.UPDATE_SHAPES)
    if any(e.get("id") == "C06-update-from-proxy" and e.get("status") == "known" for e in common.known_findings("C06")):
        SHAPES_IN_USE.append("proxy")
    hists = []
    depth = 4 if (ctx.thorough or ctx.escalated) else 3
    if depth == 4:
        # length-4 histories: random third of the prefixes
        for ops in small_histories(3):
            hists.append(("small", ops))
        allp = list(itertools.product(SMALL_MUT, repeat=3))
        for pre in rng.sample(allp, 6000):
            o, ops = 0, [copy.deepcopy(SMALL_NEW)]
            for t in list(pre) + [rng.choice(SMALL_MUT)]:
                t = copy.deepcopy(t)
                t["o"] = o
                ops.append(t)
                if t["op"] == "CLONE":
                    o += 1
            hists.append(("small4", ops))
    else:
        for ops in small_histories(3):
            hists.append(("small", ops))
    out.exhaustive = True
    for _ in range(ctx.n(1000, 30000)):
        hists.append(("random", gen_history(rng, share_p=0.1, srcedit_p=0.05, eqreload_p=0.05)))
    for _ in range(ctx.n(150, 3000)):
        hists.append(("risky", gen_history(rng, maxlen=12, risky=0.5)))
    ran, lines, impl_rows = [], [], []
    for tag, ops in hists:
        ops2, row, f, results = check_hist(ops)
        case = {"kind": "hist", "ops": ops2}
        muts = [r for o, r in zip(ops2, results) if o["op"] in cfglib.MUTATORS and not r.startswith("E:")]
        out.case(case, bool(muts))
        out.hist["hist_" + tag] += 1
        out.hist["levels_with_shared_subobject"] += sum(len(o.get("share", {})) for o in ops2)
        out.hist["ops"] += len(ops2)
        for o, r in zip(ops2, results):
            out.hist["op_" + o["op"] + ("_err" if r.startswith("E:") else "")] += 1
            out.hist["reload_equal_content_other_object"] += bool(o.get("eqreload"))
            out.hist["caller_side_edit"] += o["op"] == "EDITSRC"
            if o["op"] == "UPD" and "m" in o:
                out.hist["update_shape_" + o.get("shape", "dict") + ("+kw" if o.get("kw") else "")] += 1
        if any(o["op"] in ("LOAD", "ENV") for o in ops2) and muts:
            out.hist["hist_with_reload_and_mutation"] += 1
        if f is not None:
            f_case = {"kind": "hist", "ops": ops2[:f["at"] + 1]}
            sig = signature(f, ops2)
            out.hist["oracle_" + sig] += 1
            # failures carrying a known-finding signature are sampled (run.py re-checks each one against
            # known_findings.json); every other failure is always reported
            if not all(x in KNOWN_SIGS for x in sig.split("+")) or out.hist["oracle_" + sig] <= 12:
                out.fail(f_case, f["why"])
        ran.append(case)
        lines.append(cfglib.line(ops2))
        impl_rows.append(row)
    if ctx.model_ok:
        model = drv.run(lines)
        for case, m, i in zip(ran, model, impl_rows):
            out.traces += 1
            if m != i:
                ms, is_ = m.split("|"), i.split("|")
                k = next((j for j in range(min(len(ms), len(is_))) if ms[j] != is_[j]), min(len(ms), len(is_)))
                out.disagree({"kind": "hist", "ops": case["ops"][:k + 1]}, is_[k] if k < len(is_) else None,
                             ms[k] if k < len(ms) else None)
    # held proxies: oracle only
    for _ in range(ctx.n(600, 10000)):
        c = held_case(rng)
        if c is None:
            continue
        out.case(c, True)
        out.hist["held_detached" if c["detach"] else "held"] += 1
        why = run_held(c)
        if why:
            out.fail(c, why)
    # handles kept across other operations: the dict-likeness oracle (known finding for stale handles) AND correspondence
    # with the CACHED Lean model, which predicts exactly what a stale handle reads and does
    hlines, hrows, hcases = [], [], []
    for _ in range(ctx.n(300, 12000)):
        ops = gen_handle_history(rng)
        c = {"kind": "handle", "ops": ops}
        out.case(c, any(o["op"] == "HOP" for o in ops))
        out.hist["handle_histories"] += 1
        out.hist["handle_ops"] += sum(1 for o in ops if o["op"] == "HOP")
        rows = []
        run = copy.deepcopy(ops)
        why = cfglib.judge_handles(run, rows=rows)
        hlines.append(cfglib.line_cache(run[:len(rows)]))
        hrows.append("|".join(rows))
        hcases.append({"kind": "handle", "ops": run[:len(rows)]})
        if why and why.endswith(cfglib.STALE_TAG):
            # known finding C06-stale-held-handle: sampled (run.py re-checks each one against known_findings.json)
            out.hist["oracle_C06-stale-held-handle"] += 1
            if out.hist["oracle_C06-stale-held-handle"] <= 12:
                out.fail(c, why)
        elif why:
            out.fail(c, why)
    if ctx.model_ok and hlines:
        for case, m, i in zip(hcases, drv.run(hlines), hrows):
            out.traces += 1
            out.hist["handle_histories_vs_cached_model"] += 1
            if m != i:
                ms, is_ = m.split("|"), i.split("|")
                k = next((j for j in range(min(len(ms), len(is_))) if ms[j] != is_[j]), min(len(ms), len(is_)))
                out.disagree({"kind": "handle", "ops": case["ops"][:k + 1]}, is_[k] if k < len(is_) else None,
                             ms[k] if k < len(ms) else None)
    out.extra["table_obligations"] = 0
    nh = max(1, sum(v for k, v in out.hist.items() if k.startswith("hist_") and k != "hist_with_reload_and_mutation"))
    out.extra["share_of_histories_within_partial_hypothesis"] = round(
        1 - sum(v for k, v in out.hist.items() if k.startswith("oracle_C06")) / nh, 3)
    return out


LEVEL_TEXT = ("Lean 4 proofs about the Config bookkeeping model (view = obliterate(merge(levels + modifications), deletions)): "
              "one-step theorems set_then_get, del_then_absent, untouched_paths_keep_merged_value for EVERY base (= across any "
              "reload), navigated_write_is_valid; history_refines_dict_partial / reachable_reads_like_dict (for every history "
              "of operations of the WHOLE op set - every_op_is_its_edits: get/set/del, pop, popitem, clear, setdefault, "
              "update(mapping, **kw) reduce to write/delete edits - interleaved with reloads, the configuration reads like the "
              "plain nested dict 'current merge + the same edits'; side condition: dict-valued writes go to keys that are "
              "sections in no lower level - findings #17/#18 have counterexample theorems), no_internal_error and "
              "navigated_write_succeeds (type consistency is an invariant; merge, obliterate, excise never raise), outputs_agree "
              "(navigation errors and values read, section-valued included, agree with the dict); for HELD PROXY HANDLES a cached "
              "model (merge() rebuilds the view as fresh dict objects; a handle is a captured address + key path): "
              "cache_view_eq_pure_view_partial / cache_roundtrip (abstraction: the cache after a merge reads as Cfg.view), "
              "fresh_handle_is_dict_like, edit_through_handle_reaches_root (stale or not), stale_handle_counterexample "
              "(known finding C06-stale-held-handle); the models "
              "is tied to invoke.config on every run by a differential correspondence check over exhaustive short and random "
              "long operation histories, and a plain nested Python dict driven by the same operations is the always-on oracle")
TECHNIQUE = ("Lean 4 theorems over all histories (simulation by path-function semantics, base-independent step lemmas) + "
             "model/implementation correspondence on operation histories + dict-twin oracle")
