"""C07 - parsing is total, side-effect free and fails only with the documented parse error."""
import itertools

import common
from common import Outcome, LeanDriver

ID = "C07"
PROPS = ["Invoke/Props/C07.lean"]
TARGETS = ["drv_parser"]
DRIVER_ROOTS = ["Driver/Parser.lean"]
GENERATED = ["Parser"]
RULE = ("cases = (parser specification, argv). Specifications: 6 fixed signature sets (real @task signatures through "
        "Collection.to_contexts and hand-built ParserContexts; with/without initial context; ignore_unknown on/off) plus random "
        "signature sets; argv: EXHAUSTIVE over all token lists of length <=2 over the full alphabet derived from the contexts "
        "and of length 3 (thorough: 3 full, 4 reduced) over a reduced alphabet, plus random fuzz up to length 12. "
        "A case is non-trivial when the argv contains at least one token that is a task name/alias or a flag spelling "
        "of one of the contexts; distinct = distinct (specification, argv) pairs. Plus an INTERLEAVING family: a parse that has "
        "another complete parse in between two of its tokens (re-entrant from an argument's kind callable, or on a second "
        "thread parked by an Event handshake), on the same or another Parser: each outcome must equal the outcome run alone. "
        "And a VALUE-SHAPE family: values containing every character that str.splitlines / regex '.', '$', '\\s' / str.strip treat "
        "specially (leading, inner, trailing) for value, optional-value, list flags, positionals and core value flags in the "
        "'=', glued and spaced spellings must be accepted verbatim; integer texts (zero-padded, prefixed literals, underscores, "
        "surrounding whitespace, non-ASCII digits) for int flags / positionals must be accepted iff Python's int(text) accepts them; "
        "str.format / %-formatting metacharacters ('{', '}', '{}', '{0}', '{x}', '${V}', '{!r}', '%s', '%(x)s', '{{', '1.5}', ...) "
        "for EVERY owner - str (verbatim), int and float flags / positionals (refused with the documented ParseError whose "
        "message names the argument and quotes the value), Boolean and incrementable flags ('=' / glued attachment: nothing but "
        "ParseError) - in the '=', spaced (long and short), glued and positional spellings; float and no-value owners are "
        "outside the Lean model and judged by the oracle only")
TRUSTED = ["Lean 4.33 kernel", "axioms propext/Classical.choice/Quot.sound only",
           "harness/props/c07.py correspondence + canonicalisation", "tools/extractors/parser.py (state table, dispatch probes)",
           "model Invoke/Model/Parser.lean hand-written, tied by correspondence on every run",
           "CPython int(), str.partition, list.insert-while-iterating, copy.deepcopy (modelled)"]
ASSUMPTIONS = ["argument kinds are the documented ones (str, int, bool, list); a counter (incrementable) has an integer default "
               "(predicate specWF, evaluated on every generated specification)",
               "an arbitrary `kind` callable may raise anything: only ValueError is turned into ParseError by the parser "
               "(outside the theorem; recorded as an observation)",
               "purity of the implementation is validated metamorphically (fingerprints, repeated parse), the model is pure by construction"]
LEVEL_TEXT = ("Lean 4 proof that the modelled parse loop terminates (no_fuel_exhaustion / parse_never_out_of_fuel) and that for every "
              "well-formed parser specification and EVERY token list parseArgv returns a result or a ParseError of one of the "
              "documented kinds (parse_total, error_only_documented, see_value_else_unreachable), plus the four 'raises exactly in "
              "the documented situation' corollaries; model tied to invoke.parser on every run by regenerated state/dispatch "
              "tables and a differential correspondence check (exhaustive small scope + random fuzz); purity of the "
              "implementation validated metamorphically")
TECHNIQUE = "Lean 4 theorems over all token lists / all well-formed specs (machine invariant) + model/implementation correspondence + metamorphic purity check"

NODEFAULT = "<nodefault>"


# ------------------------------------------------------------------ encoding (shared with c18)

def enc(s):
    return ".".join(str(ord(c)) for c in s)


def enc_opt(s):
    return "~" if s is None else enc(s)


def enc_default(d):
    if d is None:
        return "n"
    if isinstance(d, bool):
        return "b:%d" % d
    if isinstance(d, int):
        return "i:%d" % d
    if isinstance(d, str):
        return "s:" + enc(d)
    if isinstance(d, list):
        return "l:" + ",".join(enc(x) for x in d)
    raise ValueError("default outside the model: %r" % (d,))


KINDS = {str: "str", int: "int", bool: "bool", list: "list"}


def enc_arg(a):
    """a: real invoke Argument"""
    return "/".join([",".join(enc(n) for n in a.names), KINDS[a.kind], enc_default(a.default),
                     "1" if a.positional else "0", "1" if a.optional else "0", "1" if a.incrementable else "0",
                     enc_opt(a.attr_name)])


def enc_ctx(c):
    """c: real ParserContext"""
    return "%s|%s|%s" % (enc_opt(c.name), ",".join(enc(x) for x in c.aliases), ";".join(enc_arg(a) for a in c.args.values()))


def enc_registry(ctxs):
    return "&".join(enc_ctx(c) for c in ctxs) if ctxs else "~"


def enc_argv(argv):
    return ",".join(enc(t) for t in argv) if argv else "~"


def show_val(v):
    if v is None:
        return "N"
    if isinstance(v, bool):
        return "b%d" % v
    if isinstance(v, int):
        return "i%d" % v
    if isinstance(v, str):
        return "s" + enc(v)
    if isinstance(v, list):
        return "l%d" % len(v) + "".join("/" + enc(x) for x in v)
    return "?" + type(v).__name__


def show_ctx(c):
    return enc_opt(c.name) + "{" + ",".join(enc(a.name) + "=" + show_val(a.value) for a in c.args.values()) + "}"


def show_result(res):
    return "OK:" + "&".join(show_ctx(c) for c in res) + ":U" + ",".join(enc(t) for t in res.unparsed) + ":R" + enc(res.remainder)


def kind_of(msg):
    """ParseError kind from the message shape - used ONLY to sharpen the correspondence; an unrecognised
    message degrades to '?' (class-only comparison), the oracle never looks at messages."""
    if msg.startswith("No idea what"):
        return "no-idea"
    if "needed value and was not given one" in msg:
        return "needed-value"
    if "did not receive required positional" in msg:
        return "missing-positional"
    if "is ambiguous when given after an optional-value flag" in msg:
        return "ambiguous"
    if "got invalid value" in msg:
        return "invalid-value"
    if "doesn't take any value" in msg:
        return "takes-no-value"
    return "?"


def same_outcome(impl, model):
    if impl == model:
        return True
    if impl.startswith("E:parse:?") and model.startswith("E:parse:"):
        return True
    return False


# ------------------------------------------------------------------ building real parsers from JSON-able specs

def mk_task(td):
    """td = {"name", "params": [[name] | [name, default]], "positional": None|[..], "optional": [..], "iterable": [..],
             "incrementable": [..], "aliases": [..], "auto_shortflags": bool}"""
    from invoke import Task
    parts = ["c"]
    for p in td["params"]:
        parts.append(p[0] if len(p) == 1 else "%s=%r" % (p[0], p[1]))
    scope = {}
    exec("def body(%s):\n    pass\n" % ", ".join(parts), scope)
    return Task(scope["body"], name=td["name"], aliases=tuple(td.get("aliases", ())), positional=td.get("positional"),
                optional=tuple(td.get("optional", ())), iterable=td.get("iterable"), incrementable=td.get("incrementable"),
                auto_shortflags=td.get("auto_shortflags", True))


def mk_ctx(cs):
    """cs = {"name", "aliases", "args": [{"names", "kind", "default", "positional", "optional", "incrementable", "attr"}]}"""
    from invoke.parser import ParserContext, Argument
    kinds = {"str": str, "int": int, "bool": bool, "list": list, "float": float}
    args = [Argument(names=tuple(a["names"]), kind=kinds[a.get("kind", "str")], default=a.get("default"),
                     positional=a.get("positional", False), optional=a.get("optional", False),
                     incrementable=a.get("incrementable", False), attr_name=a.get("attr")) for a in cs["args"]]
    return ParserContext(name=cs.get("name"), aliases=tuple(cs.get("aliases", ())), args=args)


def build(sig):
    """sig = {"initial": None|"core"|ctxspec, "tasks": [taskdef], "contexts": [ctxspec], "ign": bool}
    -> (real Parser, initial ParserContext|None, [ParserContext])   (raises ValueError when the real constructors refuse)"""
    from invoke import Collection, Program
    from invoke.parser import Parser
    ini = sig.get("initial")
    if ini == "core":
        initial = Program(namespace=Collection()).initial_context
    elif ini is None:
        initial = None
    else:
        initial = mk_ctx(ini)
    ctxs = []
    if sig.get("tasks"):
        coll = Collection()
        for td in sig["tasks"]:
            coll.add_task(mk_task(td), name=td["name"])
        ctxs += coll.to_contexts()
    ctxs += [mk_ctx(cs) for cs in sig.get("contexts", [])]
    return Parser(contexts=ctxs, initial=initial, ignore_unknown=bool(sig.get("ign"))), initial, ctxs


def fingerprint(parser):
    """structural fingerprint of everything a parse could modify by accident (public attributes; private ones only
    when present, so that a renamed private helper does not break the harness)"""
    def afp(a):
        return (tuple(a.names), getattr(a.kind, "__name__", str(a.kind)), repr(a.default), repr(a.raw_value), repr(a.value),
                repr(getattr(a, "_value", None)), a.positional, a.optional, a.incrementable, a.attr_name)

    def lex(d):
        return (tuple(d.keys()), tuple(sorted(getattr(d, "aliases", {}).items())))

    def cfp(c):
        if c is None:
            return None
        return (c.name, tuple(c.aliases), tuple((k, afp(a)) for k, a in c.args.items()), lex(c.args), lex(c.flags),
                tuple(sorted(c.inverse_flags.items())), tuple(afp(a) for a in c.positional_args))
    cs = parser.contexts
    return (cfp(parser.initial), tuple((k, cfp(c)) for k, c in cs.items()), lex(cs), parser.ignore_unknown)


def impl_parse(parser, argv):
    """-> (canonical outcome, exception class name or None, argv list unchanged?, [(context name, kwargs)] or None)"""
    from invoke.exceptions import ParseError
    a = list(argv)
    try:
        res = parser.parse_argv(a)
    except ParseError as e:
        return "E:parse:" + kind_of(str(e)), "ParseError", a == list(argv), None
    except Exception as e:  # noqa
        return "E:other:" + type(e).__name__, type(e).__name__, a == list(argv), None
    return show_result(res), None, a == list(argv), [(c.name, dict((x.name, x.value) for x in c.args.values())) for c in res]


# ------------------------------------------------------------------ static view of a specification (for alphabet + oracle)

def translate(name):
    return name.lstrip("_").rstrip("_").replace("_", "-")


def flag_of(name):
    n = translate(name)
    return ("-" if len(n) == 1 else "--") + n


class View:
    """What the oracle knows about a specification: read from the argument lists, not from the parser's tables."""

    def __init__(self, initial, ctxs, ign):
        self.ign = ign
        self.has_initial = initial is not None
        self.initial = self._ctx(initial) if initial is not None else None
        self.tasks = [self._ctx(c) for c in ctxs]
        self.names = {}
        for t in self.tasks:
            for n in [t["name"]] + t["aliases"]:
                self.names.setdefault(n, t)

    @staticmethod
    def _ctx(c):
        args = []
        for a in c.args.values():
            args.append({"names": list(a.names), "key": a.name, "kind": KINDS.get(a.kind, "?"), "default": a.default,
                         "positional": a.positional, "optional": a.optional, "incrementable": a.incrementable})
        flags, inverse = {}, {}
        for a in args:
            for n in a["names"]:
                flags[flag_of(n)] = a
            if a["kind"] == "bool" and a["default"] is True:
                inverse[flag_of("no-" + a["names"][0])] = a
        return {"name": c.name, "aliases": list(c.aliases), "args": args, "flags": flags, "inverse": inverse}

    @staticmethod
    def takes_value(a):
        return a["kind"] != "bool" and not a["incrementable"]

    @staticmethod
    def must_fill(a):
        """a positional that is missing until given (list-type ones start as [] and are never missing)"""
        return a["positional"] and a["default"] is None and a["kind"] != "list" and not a["incrementable"]


def alphabet(view, rich_initial=True):
    """token alphabet derived from the contexts (DESIGN.md C07); returns (full, reduced)"""
    full, red = [], []

    def add(t, core=False):
        if t not in full:
            full.append(t)
        if core and t not in red:
            red.append(t)

    for t in view.tasks:
        add(t["name"], True)
        for al in t["aliases"]:
            add(al)
    ctxs = list(view.tasks) + ([view.initial] if view.initial else [])
    shorts = []
    for c in ctxs:
        rich = rich_initial or c is not view.initial
        firsts = set()
        for fl, a in c["flags"].items():
            first = id(a) not in firsts
            firsts.add(id(a))
            add(fl, first and (rich or fl.startswith("--") is False))
            if not rich:
                continue
            short = not fl.startswith("--")
            if View.takes_value(a):
                add(fl + "=v", first)
                if first or short:
                    add(fl + "=5")
                if first:
                    add(fl + "=")
                    add(fl + "=--")          # a VALUE that looks like the remainder sentinel, delivered inside the token
                if short:
                    if first:
                        add(fl + "--")
                    add(fl + "v1", first)
                    add(fl + "5")
                    add(fl + "x=y")
            else:
                if short:
                    shorts.append(fl[1])
                if first:
                    add(fl + "=v")
        for inv in c["inverse"]:
            add(inv, True)
    for a, b in itertools.permutations(shorts[:3], 2):
        add("-" + a + b, len(red) % 2 == 0)
    for t in ["v", "5", "--zzz", ""]:
        add(t, True)
    add("--", True)
    for t in ["-5", "x=y", "-z", "-zq", "--zzz=1", "-", "=", "-=", "--=x", "abc"]:
        add(t)
    red = red[:13]
    mid = list(red)
    for t in full[::2] + full[1::2]:
        if len(mid) >= 40:
            break
        if t not in mid:
            mid.append(t)
    return full, red, mid


# ------------------------------------------------------------------ oracle: the property, stated on the implementation's outcome

def oracle(view, argv, exc, argv_same, fp_same, repeat_same, kws=None):
    """exc: None | 'ParseError' | other class name.  Returns a failure text or None.
    Depends only on exception TYPES and result values, never on messages."""
    if exc not in (None, "ParseError"):
        return "exception of type %s escaped parse_argv (only ParseError is documented)" % exc
    if not argv_same:
        return "parse_argv modified the token list it was given"
    if not fp_same:
        return "parse_argv modified the parser's contexts / initial context"
    if repeat_same is False:
        return "repeating the same parse gave a different answer"
    body = argv[:argv.index("--")] if "--" in argv else argv
    raised = exc == "ParseError"
    # --- (a) unknown first token
    if body and not view.ign and not (view.initial and any(View.must_fill(a) for a in view.initial["args"])):
        u = body[0]
        heads = {u}
        if u.startswith("-"):
            heads |= {u.split("=")[0], u[:2]}
        known = set(view.names)
        if view.initial:
            known |= set(view.initial["flags"]) | set(view.initial["inverse"])
        if not (heads & known) and not raised:
            return "unknown first token %r was accepted (documented: ParseError)" % u
    if not body or body[0] not in view.names:
        return None
    t = view.names[body[0]]
    rest = body[1:]
    tflags, tinv = t["flags"], t["inverse"]
    fill = [a for a in t["args"] if View.must_fill(a)]

    def plain_bools(toks):
        seen = set()
        for x in toks:
            a = tflags.get(x)
            if a is None or a["kind"] != "bool" or a["incrementable"] or id(a) in seen:
                return False
            seen.add(id(a))
        return True

    # --- (b) a value-requiring flag as the last token
    if rest and plain_bools(rest[:-1]) and not fill:
        f = tflags.get(rest[-1])
        if f is not None and View.takes_value(f) and not f["optional"] and not raised:
            return "value-requiring flag %r left without a value was accepted (documented: ParseError)" % rest[-1]
    # --- (b') ... or followed directly by another flag of the same task
    if len(rest) >= 2 and plain_bools(rest[:-2]) and not fill:
        f, g = tflags.get(rest[-2]), tflags.get(rest[-1])
        if (f is not None and g is not None and g is not f and View.takes_value(f) and not f["optional"] and not raised):
            return ("value-requiring flag %r followed by flag %r (so left without a value) was accepted "
                    "(documented: ParseError)" % (rest[-2], rest[-1]))
    # --- (c) unfilled positionals
    if fill and plain_bools(rest) and not raised:
        return "task %r accepted without its positional argument(s) (documented: ParseError)" % body[0]
    # --- (d) ambiguous token after an optional-value flag
    if len(rest) >= 2:
        o = tflags.get(rest[0])
        x = rest[1]
        if (o is not None and o["optional"] and View.takes_value(o) and o["kind"] != "list" and not x.startswith("-")
                and x not in tflags and x not in tinv and (x in view.names or fill) and not raised):
            return "token %r after optional-value flag %r is ambiguous but was accepted (documented: ParseError)" % (x, rest[0])
    # --- converse: clearly valid invocations must parse
    if not fill and plain_bools(rest) and raised:
        return "task %r with only its own boolean flags %r was refused" % (body[0], rest)
    # --- the task templates are not modified by parsing: a task named again starts from its declared defaults
    if not fill and len(rest) >= 1 and rest[-1] in view.names and view.names[rest[-1]] is t and plain_bools(rest[:-1]):
        if raised or kws is None or len(kws) < 2:
            return "task %r named twice was refused or not returned twice" % body[0]
        defaults = dict((a["key"], [] if a["kind"] == "list" and not a["incrementable"] else a["default"]) for a in t["args"])
        if kws[-1][1] != defaults:
            return ("second occurrence of task %r does not start from its declared defaults: %r (parsing modified the task's "
                    "template context)" % (body[0], kws[-1][1]))
    if not fill and len(rest) == 2:
        f = tflags.get(rest[0])
        v = rest[1]
        if (f is not None and View.takes_value(f) and not f["optional"] and f["kind"] == "str"
                and v not in tflags and v not in tinv and raised):
            return "value %r for string flag %r of task %r was refused" % (v, rest[0], body[0])
    return None


# ------------------------------------------------------------------ signature sets

MINI_CORE = {"name": None, "aliases": [], "args": [
    {"names": ["help", "h"], "optional": True},
    {"names": ["echo", "e"], "kind": "bool", "default": False},
    {"names": ["command-timeout", "T"], "kind": "int"},
    {"names": ["hide"]},
]}

FIXED = [
    # 1: the documented shapes (bool, str, int flags; positional; alias)
    {"id": "S1", "initial": MINI_CORE, "ign": False, "tasks": [
        {"name": "t1", "params": [["flag", False], ["name", "n"], ["count", 0]]},
        {"name": "t2", "params": [["pos"], ["verbose", False]], "aliases": ["tt"]}]},
    # 2: no initial context at all; default-True bool (inverse flag); task names that look like values / share a prefix
    {"id": "S2", "initial": None, "ign": False, "tasks": [
        {"name": "a", "params": [["b", True], ["n", 1]]},
        {"name": "ab", "params": [["x"]]}]},
    # 3: optional-value, list and counter flags; two positionals; ignore_unknown
    {"id": "S3", "initial": MINI_CORE, "ign": True, "tasks": [
        {"name": "o", "params": [["opt", None], ["lst", None], ["v", 0]], "optional": ["opt"], "iterable": ["lst"], "incrementable": ["v"]},
        {"name": "p", "params": [["one"], ["two"], ["flag", False]]}]},
    # 4: task flags shadowing core flags; underscore names
    {"id": "S4", "initial": MINI_CORE, "ign": False, "tasks": [
        {"name": "s", "params": [["echo", False], ["T", 0], ["my_opt", "d"]], "auto_shortflags": False},
        {"name": "e", "params": [["hide", None]], "optional": ["hide"]}]},
    # 5: the real core context of Program (alphabet restricted to the plain core spellings)
    {"id": "S5", "initial": "core", "ign": False, "rich_initial": False, "tasks": [
        {"name": "t", "params": [["pos"], ["name", "x"]]},
        {"name": "u", "params": []}]},
    # 6: hand-built contexts: nicknames, attr_name, optional int, positional int, positional with explicit list kind, no-initial + ign
    {"id": "S6", "initial": None, "ign": True, "contexts": [
        {"name": "k", "aliases": ["kk"], "args": [
            {"names": ["num"], "kind": "int", "positional": True},
            {"names": ["foo-bar", "f", "g"], "attr": "foo_bar", "default": "dv"},
            {"names": ["oi", "i"], "kind": "int", "optional": True},
            {"names": ["yes", "y"], "kind": "bool", "default": True}]},
        {"name": "l", "aliases": [], "args": [
            {"names": ["items", "m"], "kind": "list", "default": []},
            {"names": ["c"], "kind": "int", "default": 2, "incrementable": True}]}]},
]

# 7: the same short letter means flags of DIFFERENT kinds in two tasks (and in the core): multi-character short tokens must be
#    split with the flags of the context they stand in - exhaustive length <= 4 over a tiny alphabet
FIXED.append({"id": "S7", "initial": MINI_CORE, "ign": False, "tasks": [
    {"name": "bb", "params": [["f", False], ["a", False], ["e", "x"]]},
    {"name": "dd", "params": [["f", "x"], ["a", False]]}],
    "tiny": ["bb", "dd", "-fa", "-af", "-ea", "-fe", "v", "-T5"]})

VOCAB = ["a", "b", "n", "ab", "name", "foo", "foo_bar", "v", "lst", "x", "opt", "no_x", "help", "e", "T"]
TASKNAMES = ["t1", "t2", "build", "foo", "a", "v", "deploy_all"]


def rand_taskdef(rng, name):
    k = rng.randint(0, 4)
    names = rng.sample(VOCAB, k)
    params, optional, iterable, incrementable = [], [], [], []
    nodefault = []
    for nm in names:
        kind = rng.choice(["req", "str", "int", "boolF", "boolT", "list", "ctr", "opt", "none"])
        if kind == "req":
            nodefault.append([nm])
            continue
        if kind == "str":
            params.append([nm, rng.choice(["dv", ""])])
        elif kind == "int":
            params.append([nm, rng.choice([0, 7])])
        elif kind == "boolF":
            params.append([nm, False])
        elif kind == "boolT":
            params.append([nm, True])
        elif kind == "list":
            params.append([nm, None])
            iterable.append(nm)
        elif kind == "ctr":
            params.append([nm, rng.choice([0, 2])])
            incrementable.append(nm)
        elif kind == "opt":
            params.append([nm, rng.choice([None, "dflt", 3])])
            optional.append(nm)
        else:
            params.append([nm, None])
    td = {"name": name, "params": nodefault + params, "optional": optional, "iterable": iterable, "incrementable": incrementable,
          "auto_shortflags": rng.random() < 0.8}
    if rng.random() < 0.3:
        td["aliases"] = [name + "al"]
    if rng.random() < 0.15 and params:
        # explicit positional list: a parameter WITH a default made positional as well
        td["positional"] = [p[0] for p in nodefault] + [params[0][0]]
    return td


def rand_ctxspec(rng, name):
    k = rng.randint(0, 4)
    names = rng.sample(["a", "b", "n", "ab", "name", "foo", "foo-bar", "v", "lst", "x", "opt"], k)
    used = set(names)
    specs = []
    for nm in names:
        kind = rng.choice(["str", "int", "bool", "bool", "list", "str", "ctr", "opt", "pos", "posint"])
        nms = [nm]
        if rng.random() < 0.6:
            for ch in nm:
                if ch != "-" and ch not in used and ch != nm:
                    nms.append(ch)
                    used.add(ch)
                    break
        d = {"names": nms, "kind": "str", "default": None, "positional": False, "optional": False, "incrementable": False, "attr": None}
        if "-" in nm:
            d["attr"] = nm.replace("-", "_")
        if kind == "int":
            d.update(kind="int", default=rng.choice([None, 0, 7]))
        elif kind == "bool":
            d.update(kind="bool", default=rng.choice([True, False]))
        elif kind == "list":
            d.update(kind="list", default=[])
        elif kind == "ctr":
            d.update(kind="int", default=rng.choice([0, 2]), incrementable=True)
        elif kind == "opt":
            d.update(optional=True, default=rng.choice([None, "dflt"]), kind=rng.choice(["str", "str", "int"]))
        elif kind == "pos":
            d.update(positional=True)
        elif kind == "posint":
            d.update(positional=True, kind="int")
        else:
            d.update(default=rng.choice([None, "dv"]))
        specs.append(d)
    specs.sort(key=lambda d: not d["positional"])
    return {"name": name, "aliases": [name + "al"] if rng.random() < 0.3 else [], "args": specs}


def rand_sig(rng):
    tn = rng.sample(TASKNAMES, rng.randint(1, 3))
    sig = {"id": "R", "ign": rng.random() < 0.2}
    r = rng.random()
    sig["initial"] = None if r < 0.2 else (MINI_CORE if r < 0.9 else "core")
    sig["rich_initial"] = sig["initial"] != "core"
    if rng.random() < 0.6:
        sig["tasks"] = [rand_taskdef(rng, n) for n in tn]
    else:
        sig["contexts"] = [rand_ctxspec(rng, n.replace("_", "-")) for n in tn]
    return sig


# ------------------------------------------------------------------ run

class Bench:
    """One specification: real parser + view + encoded header for the driver."""

    def __init__(self, sig):
        self.sig = sig
        self.parser, self.initial, self.ctxs = build(sig)
        self.view = View(self.initial, self.ctxs, bool(sig.get("ign")))
        self.header = "P %s %s %s " % ("~" if self.initial is None else enc_ctx(self.initial), enc_registry(self.ctxs),
                                       "1" if sig.get("ign") else "0")
        self.fp0 = fingerprint(self.parser)
        self.rebuilt = 0
        self.interesting = set(self.view.names)
        for c in self.view.tasks + ([self.view.initial] if self.view.initial else []):
            self.interesting |= set(c["flags"]) | set(c["inverse"])

    def rebuild(self):
        self.rebuilt += 1
        self.parser, self.initial, self.ctxs = build(self.sig)
        self.fp0 = fingerprint(self.parser)

    def nontrivial(self, argv):
        for t in argv:
            if t in self.interesting or t.split("=")[0] in self.interesting or t[:2] in self.interesting:
                return True
        return False


def check_case(bench, argv, with_repeat, other=None):
    """runs the real parser on one argv; returns (canonical outcome, oracle failure or None, exception class)"""
    out1, exc, same, kws = impl_parse(bench.parser, argv)
    fp_same = fingerprint(bench.parser) == bench.fp0
    repeat_same = None
    if with_repeat and fp_same:
        if other is not None:
            impl_parse(bench.parser, other)
        out2 = impl_parse(bench.parser, argv)[0]
        repeat_same = out2 == out1
        fp_same = fingerprint(bench.parser) == bench.fp0
    why = oracle(bench.view, argv, exc, same, fp_same, repeat_same, kws)
    if not fp_same:
        bench.rebuild()
    return out1, why, exc


# ------------------------------------------------------------------ family: value shapes (characters and integer literals)

# everything `str.splitlines`, regex `.`/`$`/`\s` and `str.strip` treat specially, in leading / inner / trailing position
SPECIAL_VALUES = ["\n", "a\nb", "\nb", "a\n", "subject\n\nbody", "a\r\nb", "\r", "a\rb", "\t", "a\tb", "a\x0bb", "\x0c",
                  "a\x1cb", "\x1d", "a\x1e", "a\x85b", "\x85", "a\u2028b", "\u2029", "a b", " ", " a", "a ", "a\xa0b", "a\u2003b",
                  "a\n=b", "\n\n"]
# zero-padded decimals, prefixed literals, underscores, surrounding whitespace, non-ASCII digits, signs
INT_VALUES = ["0", "7", "00", "08", "007", "010", "-09", "+010", "-0", "0x1f", "0X1F", "0o17", "0b101", "1_000", "_1", "1_", "1__0",
              " 7", "7 ", "7\n", "\t7", "\x0b7", "7\x1c", "+ 7", "", "+", "-", "7 7", "1e3", "1.0", "\u0663", "\uff17", "1\u0663",
              "\xa07", "7\u2003", "\x857", "99999999999999999999"]

# everything `str.format` / `%`-formatting treat specially: a value is data, never part of a template
FORMAT_VALUES = ["{", "}", "{}", "{0}", "{x}", "${V}", "{!r}", "%s", "%(x)s", "{{", "}}", "{{ x }}", "1.5}", "{0", "}{", "%", "%d",
                 "{:d}", "{0.real}", "{0[0]}"]
FLOAT_VALUES = ["2.5", "1e3", "-0.5", " 7", "abc", "1,5", "0x1f", ""]

VALSHAPE_SIG = {"id": "V1", "initial": MINI_CORE, "ign": False, "tasks": [
    {"name": "vt", "params": [["pos"], ["msg", "m"], ["num", 1], ["opt", None], ["lst", None]], "optional": ["opt"], "iterable": ["lst"]},
    {"name": "nx", "params": [["flag", False]]}],
    "contexts": [{"name": "ip", "aliases": [], "args": [{"names": ["n"], "kind": "int", "positional": True}]}]}


# kinds outside the Lean model (float) and flags that take no value at all: judged by the oracle only
VALSHAPE2_SIG = {"id": "V2", "initial": None, "ign": False, "tasks": [
    {"name": "ft", "params": [["ratio", 1.5], ["level", 2], ["on", False], ["cnt", 0]], "incrementable": ["cnt"]},
    {"name": "nx", "params": [["flag", False]]}],
    "contexts": [{"name": "fp", "aliases": [], "args": [{"names": ["x"], "kind": "float", "positional": True}]}]}


def py_float(text):
    try:
        return float(text)
    except ValueError:
        return None


def py_int(text):
    """the documented cast: `kind(value)` with kind = int"""
    try:
        return int(text)
    except ValueError:
        return None


def valshape_cases():
    cases = []
    str_owners = [("vt", "msg", "--msg", "-m"), ("vt", "opt", "--opt", "-o"), ("vt", "lst", "--lst", "-l"),
                  ("vt", "pos", None, None), (None, "hide", "--hide", None)]
    int_owners = [("vt", "num", "--num", "-n"), (None, "command-timeout", "--command-timeout", "-T"), ("ip", "n", None, None)]
    float_owners = [("ft", "ratio", "--ratio", "-r"), ("fp", "x", None, None)]
    int2_owners = [("ft", "level", "--level", "-l")]
    novalue_owners = [("ft", "on", "--on", "-o"), ("ft", "cnt", "--cnt", "-c")]
    for sigid, owners, pool, typ in (("V1", str_owners, SPECIAL_VALUES + FORMAT_VALUES, "str"),
                                     ("V1", int_owners, INT_VALUES + FORMAT_VALUES, "int"),
                                     ("V2", float_owners, FLOAT_VALUES + FORMAT_VALUES, "float"),
                                     ("V2", int2_owners, ["7", "x"] + FORMAT_VALUES, "int"),
                                     ("V2", novalue_owners, ["1", "x"] + FORMAT_VALUES, "novalue")):
        for task, key, lng, sht in owners:
            for v in pool:
                forms = []
                if lng is None:
                    if v.startswith("-"):
                        continue          # a flag-like token is not a positional value
                    forms.append(("positional", [v]))
                else:
                    forms.append(("eq", [lng + "=" + v]))
                    forms.append(("spaced", [lng, v]))
                    if sht:
                        forms.append(("eq", [sht + "=" + v]))
                        forms.append(("spaced", [sht, v]))
                        if v and not v.startswith("="):
                            forms.append(("glued", [sht + v]))
                for form, toks in forms:
                    cases.append({"kind": "valshape", "sigid": sigid, "typ": typ, "task": task, "key": key, "value": v, "form": form,
                                  "toks": toks})
    return cases


def valshape_argv(case):
    toks = case["toks"]
    if case["task"] in ("ip", "fp", "ft"):
        return [case["task"]] + toks + ["nx", "--flag"]
    if case["task"] is None:
        return toks + ["vt", "posv", "nx", "--flag"] if case["value"] != "" or case["form"] != "spaced" else toks + ["vt", "posv", "nx", "--flag"]
    if case["key"] == "pos":
        return ["vt"] + toks + ["nx", "--flag"]
    return ["vt", "posv"] + toks + ["nx", "--flag"]


def parse_message(parser, argv):
    """the text of the ParseError the real parser raises for argv (None when it does not raise one)"""
    from invoke.exceptions import ParseError
    try:
        parser.parse_argv(list(argv))
    except ParseError as e:
        return str(e)
    except Exception:  # noqa
        return None
    return None


def oracle_valshape(case, exc, kws, msg=None):
    """str-like owners: the flag is known and has a value - none of the documented error situations applies - so the parse
    must succeed and deliver the value verbatim.  int / float owners: the outcome is what Python's int(text) / float(text)
    says, and a refusal is the documented ParseError whose message names the argument and quotes the value.  Flags that take
    no value: whatever is glued / `=`-attached to them, nothing but ParseError may leave the parser."""
    if exc not in (None, "ParseError"):
        return "exception of type %s escaped parse_argv (only ParseError is documented); %s %s given %r as %r" % (
            exc, case["typ"], case["key"], case["value"], case["toks"])
    v, key = case["value"], case["key"]
    if case["typ"] == "novalue":
        return None
    want = v
    if case["typ"] in ("int", "float"):
        want = py_int(v) if case["typ"] == "int" else py_float(v)
        if want is None:
            if exc is None:
                return "%s-typed %s accepted the text %r although %s(%r) raises ValueError" % (case["typ"], key, v, case["typ"], v)
            if msg is not None and (repr(v) not in msg or key not in msg or "invalid value" not in msg):
                return ("the ParseError for the invalid %s value %r of %s does not name the argument and quote the value: %r"
                        % (case["typ"], v, key, msg))
            return None
    if exc is not None:
        return ("%s %s given the value %r as %r was refused with a ParseError although the flag is known and has a value%s"
                % (case["typ"], key, v, case["toks"], "" if case["typ"] == "str" else " that %s() accepts (= %r)" % (case["typ"], want)))
    owner = case["task"]
    got = None
    for name, kw in kws:
        if name == owner:
            got = kw.get(key)
    if key == "lst":
        want = [v]
    if got != want or type(got) is not type(want):
        return "%s received %r for the text %r given as %r, expected %r" % (key, got, v, case["toks"], want)
    if kws[-1] != ("nx", {"flag": True}):
        return "the task after the value was not parsed intact: %r" % (kws[-1],)
    return None


# ------------------------------------------------------------------ parses interleaved with other parses

TRIGGER = "PAUSE"
_HOOK = {"fire": None}


class Hooked(str):
    """A str-like `kind` (kind = type(default), as for any task signature) whose construction from the trigger value runs a
    hook once: this is how another parse gets to run IN BETWEEN two tokens of a parse that is in flight."""

    def __new__(cls, value=""):
        fire = _HOOK["fire"]
        if value == TRIGGER and fire is not None:
            _HOOK["fire"] = None
            fire()
        return super().__new__(cls, value)


def hooked_parser(sig):
    """real Parser for `sig` in which every str-typed value argument casts through `Hooked`;
    -> (parser, [(task name, flag spelling or None for a positional)] where the trigger can be placed)"""
    parser, initial, ctxs = build(sig)
    spots = []
    for c in ctxs:
        for a in c.args.values():
            if a.kind is str and not a.incrementable and not a.optional:
                a.kind = Hooked
                if a.positional and a.default is None:
                    spots.append((c.name, None))
                else:
                    spots.append((c.name, flag_of(a.names[0])))
    return parser, spots


def interleave_case(case):
    """Runs one interleaving case on the real code.  Returns (why|None, nontrivial)."""
    p1, _ = hooked_parser(case["sig1"])
    p2 = p1 if case["sig2"] == "same" else hooked_parser(case["sig2"])[0]
    argv1, argv2 = case["argv1"], case["argv2"]
    _HOOK["fire"] = None
    alone1 = impl_parse(p1, argv1)[0]
    alone2 = impl_parse(p2, argv2)[0]
    box = {}

    if case["mode"] == "reenter":
        def fire():
            box["r2"] = impl_parse(p2, argv2)[0]
        _HOOK["fire"] = fire
        try:
            box["r1"] = common.with_timeout(lambda: impl_parse(p1, argv1)[0], 10)
        finally:
            _HOOK["fire"] = None
    else:
        import threading
        parked, resume = threading.Event(), threading.Event()

        def fire():
            parked.set()
            resume.wait(10)

        def worker():
            box["r1"] = impl_parse(p1, argv1)[0]
        _HOOK["fire"] = fire
        t = threading.Thread(target=worker, daemon=True)
        try:
            t.start()
            if parked.wait(10):
                box["r2"] = impl_parse(p2, argv2)[0]
            else:
                box["r2"] = "trigger-not-reached"
        finally:
            resume.set()
            t.join(10)
            _HOOK["fire"] = None
    if "r2" not in box:
        return None, False  # the trigger value never reached a cast (parse failed earlier): nothing was interleaved
    nontrivial = alone1.startswith("OK:") and ("&" in alone1 or ":U" in alone1 and not alone1.split(":U")[1].startswith(":R"))
    if box.get("r2") == "trigger-not-reached":
        return None, False
    if "r1" not in box:
        return "the interleaved parse did not come back", nontrivial
    if box["r1"] != alone1:
        return ("a parse that had another parse (%s) in between gave %s, run alone it gives %s"
                % (case["mode"], box["r1"][:300], alone1[:300])), nontrivial
    if box["r2"] != alone2:
        return ("a parse run in between another parse (%s) gave %s, run alone it gives %s"
                % (case["mode"], box["r2"][:300], alone2[:300])), nontrivial
    return None, nontrivial


def interleave_cases(rng, n):
    sigs = [s for s in FIXED if s["id"] in ("S1", "S3", "S4", "S6")]
    extra = {"id": "I1", "initial": MINI_CORE, "ign": True, "tasks": [
        {"name": "build", "params": [["pos"], ["label", "none"]]},
        {"name": "clean", "params": []},
        {"name": "deploy", "params": [["target", "prod"]]}]}
    sigs = sigs + [extra, dict(extra, id="I2", ign=False, initial=None)]
    out = []
    while len(out) < n:
        sig1 = rng.choice(sigs)
        try:
            _, spots = hooked_parser(sig1)
            b1 = Bench(sig1)
        except ValueError:
            continue
        if not spots:
            continue
        tname, fl = rng.choice(spots)
        full1 = alphabet(b1.view, sig1.get("rich_initial", True))[0]
        names = list(b1.view.names)
        head = [tname] + ([fl, TRIGGER] if fl else [TRIGGER])
        tail = []
        for _ in range(rng.randint(1, 3)):
            tail += structured_argv(b1, full1, rng) if rng.random() < 0.6 else [rng.choice(names + full1[:6])]
        sig2 = "same" if rng.random() < 0.35 else rng.choice(sigs)
        b2 = b1 if sig2 == "same" else Bench(sig2)
        full2 = alphabet(b2.view, b2.sig.get("rich_initial", True))[0]
        argv2 = structured_argv(b2, full2, rng)
        out.append({"kind": "interleave", "mode": rng.choice(["reenter", "threads"]), "sig1": sig1, "sig2": sig2,
                    "argv1": head + tail, "argv2": argv2})
    return out


def replay(case):
    if case.get("kind") == "valshape":
        parser = build(VALSHAPE2_SIG if case.get("sigid") == "V2" else VALSHAPE_SIG)[0]
        argv = valshape_argv(case)
        _, exc, _, kws = impl_parse(parser, argv)
        why = oracle_valshape(case, exc, kws, parse_message(parser, argv) if exc == "ParseError" else None)
        return why is None, why or "ok"
    if case.get("kind") == "interleave":
        why, _ = interleave_case(case)
        return why is None, why or "ok"
    bench = Bench(case["sig"])
    other = case.get("other")
    _, why, exc = check_case(bench, case["argv"], True, other)
    return why is None, why or "ok (%s)" % (exc or "result")


def argvs_for(bench, ctx, rng):
    full, red, mid = alphabet(bench.view, bench.sig.get("rich_initial", True))
    deep = ctx.thorough or ctx.escalated
    if bench.sig.get("tiny"):
        tiny = bench.sig["tiny"]
        out = [[]]
        for n in range(1, 6 if deep else 5):
            out += [list(t) for t in itertools.product(tiny, repeat=n)]
        return out, tiny, tiny
    out = [[]]
    for n in (1, 2):
        out += [list(t) for t in itertools.product(full, repeat=n)]
    if deep:
        out += [list(t) for t in itertools.product(mid, repeat=3)]
        out += [list(t) for t in itertools.product(red[:11], repeat=4)]
        for _ in range(10000):
            out.append([rng.choice(full) for _ in range(rng.choice([3, 3, 4]))])
    else:
        out += [list(t) for t in itertools.product(red, repeat=3)]
        for _ in range(300):
            out.append([rng.choice(full) for _ in range(3)])
    return out, full, red


VALUES = ["v", "5", "-5", "abc", "x=y", "", "7", "a\nb", "08", " 7", "1_0"]


def structured_argv(bench, full, rng):
    """mostly-valid command line built from the signatures (calls x items x spellings), then 0-2 mutations"""
    view = bench.view
    names = list(view.names)
    argv = []
    if view.initial and rng.random() < 0.4:
        argv.append(rng.choice(list(view.initial["flags"]) + ["-x"]))
        a = view.initial["flags"].get(argv[-1])
        if a is not None and View.takes_value(a) and rng.random() < 0.8:
            argv.append(rng.choice(VALUES))
    for _ in range(rng.randint(1, 3)):
        if not names:
            break
        tn = rng.choice(names)
        t = view.names[tn]
        argv.append(tn)
        items = []
        for a in t["args"]:
            if rng.random() < 0.35 and not View.must_fill(a):
                continue
            spell = [f for f, x in t["flags"].items() if x is a]
            fl = rng.choice(spell)
            short = not fl.startswith("--")
            val = rng.choice(VALUES + names[:1])
            if a["positional"] and rng.random() < 0.8:
                items.append([val])
            elif a["incrementable"]:
                items.append([fl] * rng.randint(1, 3) if rng.random() < 0.7 or not short else ["-" + fl[1] * rng.randint(2, 3)])
            elif a["kind"] == "bool":
                inv = [f for f, x in t["inverse"].items() if x is a]
                items.append([rng.choice(inv)] if inv and rng.random() < 0.6 else [fl])
            elif a["kind"] == "list":
                items.append(sum(([fl, rng.choice(VALUES)] for _ in range(rng.randint(1, 3))), []))
            elif a["optional"] and rng.random() < 0.5:
                items.append([fl])
            else:
                form = rng.choice(["sp", "eq", "glued" if short else "sp"])
                items.append([fl, val] if form == "sp" else [fl + "=" + val] if form == "eq" else [fl + val])
        rng.shuffle(items)
        shorts = [i for i in items if len(i) == 1 and len(i[0]) == 2 and i[0].startswith("-") and i[0] != "--"]
        if len(shorts) >= 2 and rng.random() < 0.4:
            for i in shorts[:2]:
                items.remove(i)
            items.append(["-" + shorts[0][0][1] + shorts[1][0][1]])
        for i in items:
            argv += i
    for _ in range(rng.choice([0, 0, 0, 1, 1, 2])):
        op = rng.choice(["ins", "ins", "del", "dup", "swap", "ddash"])
        pos = rng.randint(0, len(argv))
        if op == "ins":
            argv.insert(pos, rng.choice(full))
        elif op == "del" and argv:
            del argv[min(pos, len(argv) - 1)]
        elif op == "dup" and argv:
            argv.insert(pos, argv[min(pos, len(argv) - 1)])
        elif op == "swap" and len(argv) >= 2:
            i = min(pos, len(argv) - 2)
            argv[i], argv[i + 1] = argv[i + 1], argv[i]
        elif op == "ddash":
            argv.insert(pos, "--")
    return argv


def fuzz_argv(bench, full, rng):
    if rng.random() < 0.6:
        return structured_argv(bench, full, rng)
    n = rng.randint(0, 12)
    argv = [rng.choice(full) for _ in range(n)]
    names = list(bench.view.names)
    if argv and names and rng.random() < 0.7:
        argv[0] = rng.choice(names)
    return argv


def run_bench(bench, argvs, ctx, out, drv, tag):
    line = bench.header + ";".join(enc_argv(a) for a in argvs)
    model = None
    if ctx.model_ok:
        res = drv.run([line])[0]
        parts = res.split(";")
        if parts[0] in ("W0", "W1") and len(parts) == len(argvs) + 1:
            out.hist["spec_wf" if parts[0] == "W1" else "spec_not_wf"] += 1
            model = parts[1:]
            if bench.sig.get("tasks") and not bench.sig.get("contexts") and parts[0] != "W1":
                out.fail({"sig": bench.sig, "argv": []}, "a parser built from real task signatures falls outside specWF")
        else:
            out.disagree({"sig": bench.sig, "argv": []}, "spec accepted by the real constructors", res[:200])
    prev = None
    for i, argv in enumerate(argvs):
        case = {"sig": bench.sig, "argv": argv}
        rep = (i % 4 == 0) or len(argv) <= 1
        got, why, exc = check_case(bench, argv, rep, prev if i % 8 == 0 else None)
        if rep and prev is not None and i % 8 == 0:
            case["other"] = prev
        out.case(case, bench.nontrivial(argv))
        out.hist["%s:%s" % (tag, "ok" if exc is None else got if exc == "ParseError" else "escape")] += 1
        if model is not None:
            out.traces += 1
            if not same_outcome(got, model[i]):
                out.disagree(case, got, model[i])
        if why:
            out.fail(case, why)
        prev = argv
        if bench.rebuilt > 12:
            # the parser object is being modified by nearly every parse: the point is made, stop paying for rebuilds
            out.hist["bench_abandoned_after_repeated_impurity"] += 1
            break


def run(ctx):
    out = Outcome()
    rng = ctx.rng
    drv = LeanDriver("drv_parser")
    # 1. exhaustive over the fixed signature sets
    for sig in FIXED:
        bench = Bench(sig)
        argvs, full, red = argvs_for(bench, ctx, rng)
        out.extra.setdefault("alphabet_sizes", {})[sig["id"]] = [len(full), len(red)]
        run_bench(bench, argvs, ctx, out, drv, "exh")
    out.exhaustive = True
    # 2. random signature sets x random fuzz
    nsig = ctx.n(120, 4000)
    built = 0
    while built < nsig:
        sig = rand_sig(rng)
        try:
            bench = Bench(sig)
        except ValueError:
            out.hist["spec_refused_by_constructor"] += 1
            continue
        built += 1
        full = alphabet(bench.view, sig.get("rich_initial", True))[0]
        argvs = [fuzz_argv(bench, full, rng) for _ in range(40)]
        run_bench(bench, argvs, ctx, out, drv, "fuzz")
    # 3. value shapes: characters special to regexes / string methods in every position and spelling; integer literals
    bench = Bench(VALSHAPE_SIG)
    vall = valshape_cases()
    vcases = [c for c in vall if c["sigid"] == "V1"]
    argvs = [valshape_argv(c) for c in vcases]
    model = None
    if ctx.model_ok:
        parts = drv.run([bench.header + ";".join(enc_argv(a) for a in argvs)])[0].split(";")
        if parts[0] in ("W0", "W1") and len(parts) == len(argvs) + 1:
            model = parts[1:]
    parser2 = build(VALSHAPE2_SIG)[0]
    fp2 = fingerprint(parser2)
    idx = -1
    for case in vall:
        argv = valshape_argv(case)
        v1 = case["sigid"] == "V1"
        if v1:
            idx += 1
        parser = bench.parser if v1 else parser2
        got, exc, same, kws = impl_parse(parser, argv)
        msg = parse_message(parser, argv) if exc == "ParseError" and case["typ"] in ("int", "float") else None
        why = oracle_valshape(case, exc, kws, msg)
        if not same or fingerprint(parser) != (bench.fp0 if v1 else fp2):
            why = why or "parse_argv modified its argv or the parser's contexts"
            if v1:
                bench.rebuild()
            else:
                parser2 = build(VALSHAPE2_SIG)[0]
        out.case(case, True)
        ascii_only = all(ord(ch) < 128 for ch in case["value"])
        out.hist["valshape:%s:%s%s" % (case["typ"], "ok" if exc is None else "ParseError" if exc == "ParseError" else "escape",
                                        "" if ascii_only or case["typ"] == "str" else ":non-ascii(oracle only)")] += 1
        if v1 and model is not None and (ascii_only or case["typ"] == "str"):
            # the model's int cast is the ASCII part of int(str); non-ASCII digits / whitespace are judged by the oracle only
            out.traces += 1
            if not same_outcome(got, model[idx]):
                out.disagree(dict(case, sig=VALSHAPE_SIG, argv=argv), got, model[idx])
        if why:
            out.fail(case, why)
    # 4. parses interleaved with other parses (re-entrant from a kind callable; two threads with a deterministic handshake)
    for case in interleave_cases(rng, ctx.n(250, 4000)):
        try:
            why, nontrivial = interleave_case(case)
        except common.Hang:
            why, nontrivial = "the interleaved parse hung", True
        out.case(case, nontrivial)
        out.hist["interleave:%s:%s%s" % (case["mode"], "same-parser" if case["sig2"] == "same" else "other-parser",
                                          "" if nontrivial else ":trivial")] += 1
        if why:
            out.fail(case, why)
    return out
