"""C08 - command execution always terminates, leaving no threads, timers, fds or zombies."""
import gc
import io
import json
import os
import subprocess
import sys
import threading
import time

import common
import runnerio
from common import Outcome, LeanDriver

ID = "C08"
PROPS = ["Invoke/Props/C08.lean"]
TARGETS = ["drv_runner"]
DRIVER_ROOTS = ["Driver/Runner.lean"]
GENERATED = []
RULE = ("(i) gated schedules of the real Runner threads: random prefixes of environment events {stdout/stderr chunk, close, "
        "stdin data/not-ready/EOF, exit, timer expiry, injected reader exception, KeyboardInterrupt in the wait loop, start "
        "failure} and thread steps, then - once the process has ended and the pipes are closed - more fair rounds than the "
        "proved bound; a run that has not returned by then is a hang; compared step-for-step with the Lean transition system; "
        "dead-worker cases where the process never exits; (ii) real-run accounting: repeated real runs of every outcome class "
        "(exit 0 / non-zero / timeout kill / output / async join; pty on/off) counting /proc/self/fd, live threads, live timers "
        "and zombies after gc.collect(); (iii) a controlling pty as input stream: terminal attributes during and after the run. "
        "non-trivial = the environment script has events; distinct by (options, script, schedule)")
TRUSTED = ["Lean 4.33 kernel", "axioms propext/Classical.choice/Quot.sound only", "harness/gate.py gate scheduler + harness/runnerio.py",
           "model Invoke/Model/RunnerIO.lean hand-written, tied by correspondence on every run",
           "CPython thread scheduling (fairness), GC-driven closing of Popen pipe objects, waitpid, termios: exercised by real runs, not proved"]
ASSUMPTIONS = ["fair scheduling: every live thread runs again and again (the real threads poll, so an unfair scheduler can starve them)",
               "ProcessEnds: the process exits or is killed and every holder of the pipes' write ends closes them",
               "fd / thread / zombie accounting is measured after gc.collect(); the pre-collection sawtooth of pipe objects is reported, not demanded"]
LEVEL_TEXT = ("Lean 4 proof of fair termination on the full runner transition system: measure_nonincreasing, progress_exists, "
              "progress_stable, rounds_terminate (any more-than-mu(s) fair rounds from any state in which the process has ended "
              "reach the terminal state, with an explicit bound), reachable_terminates, resources_released, "
              "timer_disarmed_after_return, start_failure_reports, dead_worker_leaves_wait_loop, join_gives_up; tied to the real "
              "threads by gate-scheduled runs (hang = budget exceeded) and to the OS by real-run fd/thread/zombie/termios accounting")
TECHNIQUE = "Lean 4 termination proof (measure + enabledness stability + fair rounds) + gated-thread model/implementation correspondence"


def fair_bound(c):
    b = sum(len(x) // 2 + 1 for x in c["out"]) + sum(len(x) // 2 + 1 for x in c["err"])
    return b + 4 * len(c["ins"] or []) + 24


def gen_terminating(rng):
    c = runnerio.gen_case(rng, rng.choice([None, "output", "stdin", "timer", "fault"]))
    # cut the generator's own completion tail and add a proved-sufficient one
    sched = [t for t in c["sched"]]
    env_left = []
    n_wo = len(c["out"]) - sched.count("wo")
    n_we = len(c["err"]) - sched.count("we")
    env_left += ["wo"] * max(0, n_wo) + ["we"] * max(0, n_we)
    if not any(t.startswith("x") for t in sched):
        env_left.append("x%d" % rng.choice([0, 0, 1, 3]))
    rng.shuffle(env_left)
    env_left.sort(key=lambda t: 1 if t.startswith("x") else 0)
    sched += env_left + ["co", "ce"]
    rnd = ["out"] + ([] if c["pty"] else ["err"]) + (["stdin"] if c["has_in"] else []) + ["main"]
    for _ in range(fair_bound(c)):
        r = rnd[:]
        rng.shuffle(r)
        if c["has_t"] and rng.random() < 0.2:
            r.insert(rng.randrange(len(r) + 1), "timer")
        sched += r
    c["sched"] = sched
    c["expect"] = "terminates"
    return c


def gen_dead_worker(rng):
    c = runnerio.gen_case(rng, "fault")
    c["start_fails"] = False
    c["has_t"] = False  # no kill: the process keeps running, so a reader can only end by the injected fault
    sched = [t for t in c["sched"] if not t.startswith("x") and t not in ("fo", "fe", "bo", "be", "co", "ce", "timer")]
    sched = sched[: rng.randint(0, 12)]
    fault = "fo" if (c["pty"] or rng.random() < 0.5) else "fe"
    if rng.random() < 0.35:  # the worker dies of a BaseException that is not an Exception (e.g. a stream calling sys.exit())
        fault = "b" + fault[1]
    sched.append(fault)
    rnd = ["out"] + ([] if c["pty"] else ["err"]) + (["stdin"] if c["has_in"] else []) + ["main"]
    for _ in range(4 * len(c["ins"] or []) + 20):
        r = rnd[:]
        rng.shuffle(r)
        sched += r
    c["sched"] = sched
    c["expect"] = "dead-worker"
    return c


def oracle(c, o, io_):
    exp = c.get("expect")
    if exp == "terminates":
        if not o["main_done"]:
            return "[hang] the process has ended and every thread kept running for %d fair rounds, yet run() has not returned" % fair_bound(c)
        if o["alive"]:
            return "[leftover-thread] run() returned but I/O workers are still alive: %s" % o["alive"]
        if o.get("alive_at_return") and io_["outcome"] != "raise:ThreadException":
            return "[leftover-thread] at the moment run() returned (%s) I/O workers had not finished yet: %s" % (
                io_["outcome"], o["alive_at_return"])
        if o["timer_state"] == "armed":
            return "[leftover-timer] run() returned but the timeout timer is still armed"
        if c["start_fails"] and io_["outcome"] != "raise:StartFailed":
            return "[start-failure] start failed but the outcome is %s" % io_["outcome"]
    if exp == "dead-worker":
        if not o["main_done"]:
            return "[hang] an I/O worker died while the process kept running and run() did not return"
        if io_["outcome"] != "raise:ThreadException":
            return "[dead-worker] an I/O worker died but the outcome is %s" % io_["outcome"]
        if o["timer_state"] == "armed":
            return "[leftover-timer] run() raised but the timeout timer is still armed"
    return None


# ------------------------------------------------------------------ real-run accounting

def fds():
    return len(os.listdir("/proc/self/fd"))


def zombies():
    n = 0
    me = str(os.getpid())
    for p in os.listdir("/proc"):
        if p.isdigit():
            try:
                st = open("/proc/%s/stat" % p).read().rsplit(")", 1)[1].split()
                if st[1] == me and st[0] == "Z":
                    n += 1
            except Exception:
                pass
    return n


def accounting(case):
    from invoke import Context, Config, Local
    from invoke.exceptions import Failure
    ctx = Context(Config())
    pty = case["pty"]
    kind = case["acct"]
    n = case["n"]

    def one():
        if kind == "exit0":
            Local(ctx).run("true", hide=True, in_stream=False, pty=pty)
        elif kind == "exit3":
            Local(ctx).run("exit 3", hide=True, in_stream=False, pty=pty, warn=True)
        elif kind == "raise3":
            Local(ctx).run("exit 3", hide=True, in_stream=False, pty=pty)
        elif kind == "timeout":
            Local(ctx).run("sleep 5", hide=True, in_stream=False, pty=pty, timeout=0.05)
        elif kind == "output":
            Local(ctx).run("head -c 100000 /dev/zero | tr '\\0' x", hide=True, in_stream=False, pty=pty)
        elif kind == "async":
            p = Local(ctx).run("echo hi", asynchronous=True, pty=pty)
            p.join()
        elif kind == "async_fail":
            p = Local(ctx).run("exit 3", asynchronous=True, pty=pty, timeout=30)
            p.join()
        elif kind == "async_timeout":
            p = Local(ctx).run("sleep 5", asynchronous=True, pty=pty, timeout=0.05)
            p.join()
        elif kind == "stdin":
            Local(ctx).run("cat", hide=True, in_stream=io.StringIO("abc\n"), pty=False)
        elif kind == "worker_dies":
            # a watcher error kills the stdout worker WHILE the command is still running: the call reports it and
            # returns; the fds of the run (pipes, or the pty) must not accumulate
            from invoke.watchers import StreamWatcher
            from invoke.exceptions import WatcherError

            class Boom(StreamWatcher):
                def submit(self, stream):
                    if "oops" in stream:
                        raise WatcherError("boom")
                    return []
            Local(ctx).run("echo oops; sleep 0.4", hide=True, in_stream=False, pty=pty, watchers=[Boom()])
        elif kind == "nostart":
            try:
                Local(ctx).run("true", hide=True, in_stream=False, shell="/nonexistent/shell", pty=False)
            except OSError:
                pass
    gc.collect()
    f0, t0 = fds(), threading.active_count()
    t = time.time()
    for _ in range(n):
        try:
            one()
        except Failure:
            pass
    dt = time.time() - t
    # let cancelled Timer threads and finished workers actually end before counting (they keep the
    # runner - and with it the Popen pipe objects - alive until they exit), then collect twice
    t_wait = time.time()
    while time.time() - t_wait < 1.0 and threading.active_count() > t0:
        time.sleep(0.01)
    gc.collect()
    gc.collect()
    if kind == "worker_dies":
        time.sleep(0.6)  # the surviving commands end; whoever is still to be reaped is not this clause's business
        try:
            while os.waitpid(-1, os.WNOHANG)[0]:
                pass
        except ChildProcessError:
            pass
        gc.collect()
    f1, t1, z = fds(), threading.active_count(), zombies()
    timers = [th for th in threading.enumerate() if isinstance(th, threading.Timer) and th.is_alive()]
    info = {"fds": (f0, f1), "threads": (t0, t1), "zombies": z, "timers": len(timers), "ms_per_run": round(1000 * dt / n, 1)}
    if f1 > f0:
        return "[fd-leak] %s pty=%s: %d runs grew open fds from %d to %d (after gc)" % (kind, pty, n, f0, f1), info
    if t1 > t0:
        return "[thread-leak] %s pty=%s: live threads grew from %d to %d" % (kind, pty, t0, t1), info
    if z:
        return "[zombie] %s pty=%s: %d zombie children" % (kind, pty, z), info
    if timers:
        return "[timer-leak] %s pty=%s: %d live timers" % (kind, pty, len(timers)), info
    return None, info


TTY_HELPER = r'''
import sys, os, pty, termios, fcntl, json, time, io, threading
sys.path.insert(0, %(repo)r)
master, slave = pty.openpty()
pid = os.fork()
if pid == 0:
    os.close(master)
    os.setsid()
    fcntl.ioctl(slave, termios.TIOCSCTTY, 0)
    from invoke import Context, Config, Local
    from invoke.terminals import stdin_is_foregrounded_tty, cbreak_already_set
    f = os.fdopen(slave, 'r')
    out = {'fg': stdin_is_foregrounded_tty(f), 'runs': []}
    seen = {}
    class L(Local):
        def handle_stdin(self, *a, **k):
            def peek():
                time.sleep(0.15); seen['cbreak_during'] = cbreak_already_set(f)
            threading.Thread(target=peek, daemon=True).start()
            return super().handle_stdin(*a, **k)
    LFLAGS = {'echo': termios.ECHO, 'isig': termios.ISIG, 'echoe': termios.ECHOE, 'iexten': termios.IEXTEN}
    def edit(e):
        # what an application does between two commands (e.g. ECHO off for a password prompt)
        attrs = termios.tcgetattr(f)
        if e[0] == '+': attrs[3] |= LFLAGS[e[1:]]
        elif e[0] == '-': attrs[3] &= ~LFLAGS[e[1:]]
        elif e.startswith('vmin='): attrs[6][termios.VMIN] = int(e[5:])    # control characters are terminal mode too
        elif e.startswith('vtime='): attrs[6][termios.VTIME] = int(e[6:])
        termios.tcsetattr(f, termios.TCSADRAIN, attrs)
    ok = True
    for i, e in enumerate(%(edits)r):
        if e: edit(e)
        before = termios.tcgetattr(f)
        mirror = io.StringIO()
        r = {'edit': e}
        try:
            res = L(Context(Config())).run(%(cmd)r if i == 0 else 'true', in_stream=f, out_stream=mirror, hide='err', warn=True)
            if i == 0: out['stdout'] = res.stdout
        except BaseException as ex:
            r['exc'] = type(ex).__name__
        after = termios.tcgetattr(f)
        r['restored'] = (before == after)
        if not r['restored']:
            r['lflag_before'], r['lflag_after'] = before[3], after[3]
            r['cc_diff'] = [i for i, (x, y) in enumerate(zip(before[6], after[6])) if x != y]
        ok = ok and r['restored']
        out['runs'].append(r)
    out.update(restored=ok, cbreak_during=seen.get('cbreak_during'))
    sys.stdout.write('RESULT ' + json.dumps(out) + '\n'); sys.stdout.flush()
    os._exit(0)
else:
    os.close(slave)
    time.sleep(0.5)
    os.write(master, b'abc')
    time.sleep(0.3)
    os.waitpid(pid, 0)
'''


def tty_case(case):
    """a foregrounded controlling terminal as the input stream, several commands in a row, the application
    changing the terminal mode between them: after EVERY command the mode is the one from just before it"""
    src = TTY_HELPER % {"repo": common.REPO, "cmd": case["cmd"], "edits": case.get("edits", [""])}
    p = subprocess.run([sys.executable, "-c", src], capture_output=True, text=True, timeout=60)
    line = [l for l in p.stdout.splitlines() if l.startswith("RESULT ")]
    if not line:
        return None, {"skipped": (p.stderr or p.stdout)[-200:]}
    out = json.loads(line[0][7:])
    if not out.get("fg"):
        return None, {"skipped": "pty not foregrounded in this sandbox", **out}
    if not out.get("restored"):
        bad = [(i, r) for i, r in enumerate(out["runs"]) if not r["restored"]]
        i, r = bad[0]
        return "[tty-not-restored] terminal attributes after command %d of %d differ from those just before it (edit before it: %r; lflag %s -> %s; control characters differing: %s)" % (
            i + 1, len(out["runs"]), r["edit"], r.get("lflag_before"), r.get("lflag_after"), r.get("cc_diff")), out
    return None, out


BRACKET_HELPER = r'''
import sys, os, pty, termios, fcntl, json, io
sys.path.insert(0, %(repo)r)
specs = %(specs)r
master, slave = pty.openpty()
pid = os.fork()
if pid == 0:
    os.close(master)
    os.setsid()
    fcntl.ioctl(slave, termios.TIOCSCTTY, 0)
    from invoke.terminals import character_buffered, cbreak_already_set
    f = os.fdopen(slave, 'r')
    res = []
    for sp in specs:
        stream = f if sp['tty'] else io.StringIO('x')
        if sp['tty']:
            a = termios.tcgetattr(f)
            a[3] = (a[3] | termios.ECHO) if sp['echo'] else (a[3] & ~termios.ECHO)
            a[3] = (a[3] | termios.ICANON) if sp['icanon'] else (a[3] & ~termios.ICANON)
            a[6][termios.VMIN] = sp['vmin']; a[6][termios.VTIME] = sp['vtime']
            termios.tcsetattr(f, termios.TCSADRAIN, a)
            before = termios.tcgetattr(f)
        r = {'during': None, 'raised': False}
        try:
            with character_buffered(stream):
                if sp['tty']:
                    r['during'] = cbreak_already_set(f)
                if sp['tty'] and sp.get('body'):
                    # the command (or anything else) reconfigures the terminal WHILE the bracket is open
                    b = termios.tcgetattr(f)
                    if 'echo' in sp['body']:
                        b[3] |= termios.ECHO
                    if 'icanon' in sp['body']:
                        b[3] |= termios.ICANON
                    if 'vmin' in sp['body']:
                        b[6][termios.VMIN] = 5; b[6][termios.VTIME] = 2
                    termios.tcsetattr(f, termios.TCSADRAIN, b)
                if sp['raise']:
                    raise RuntimeError('body')
        except RuntimeError:
            r['raised'] = True
        r['restored'] = (termios.tcgetattr(f) == before) if sp['tty'] else True
        res.append(r)
    sys.stdout.write('RESULT ' + json.dumps(res) + '\n'); sys.stdout.flush()
    os._exit(0)
else:
    os.close(slave)
    os.waitpid(pid, 0)
'''


def bracket_specs(rng, n):
    specs = []
    for echo in (True, False):
        for icanon in (True, False):
            for vmin, vtime in ((1, 0), (0, 0), (1, 3), (4, 7)):
                for rz in (False, True):
                    specs.append({"tty": True, "echo": echo, "icanon": icanon, "vmin": vmin, "vtime": vtime, "raise": rz})
    specs += [{"tty": False, "echo": True, "icanon": True, "vmin": 1, "vtime": 0, "raise": rz} for rz in (False, True)]
    # the body changes the terminal's mode while the bracket is open (`stty echo </dev/tty` in the command): the mode
    # the terminal had BEFORE the call comes back all the same (theorem `bracket_restores_tty` is over every body)
    for sp in list(specs):
        if sp["tty"] and rng.random() < 0.5:
            specs.append(dict(sp, body=rng.choice(["echo", "icanon", "echo+icanon", "vmin", "echo+icanon+vmin"])))
    rng.shuffle(specs)
    specs = specs[:n]
    # always present: the terminal is ALREADY in cbreak mode (the bracket is inert) and the body reconfigures it
    specs.append({"tty": True, "echo": False, "icanon": False, "vmin": 1, "vtime": 0, "raise": False, "body": "echo+icanon"})
    specs.append({"tty": True, "echo": True, "icanon": True, "vmin": 1, "vtime": 0, "raise": False, "body": "echo+icanon+vmin"})
    return specs


def bracket_run(specs):
    src = BRACKET_HELPER % {"repo": common.REPO, "specs": specs}
    p = subprocess.run([sys.executable, "-c", src], capture_output=True, text=True, timeout=60)
    line = [l for l in p.stdout.splitlines() if l.startswith("RESULT ")]
    return json.loads(line[0][7:]) if line else None


def body_mask(sp):
    b = sp.get("body") or ""
    return (1 if "echo" in b else 0) + (2 if "icanon" in b else 0) + (4 if "vmin" in b else 0)


def bracket_model_line(sp):
    return "T|%d,%d,%d,%d,%d,%d,%d,%d" % (int(sp["tty"]), int(sp["tty"]), int(sp["echo"]), int(sp["icanon"]), sp["vmin"], sp["vtime"],
                                          int(sp["raise"]), body_mask(sp) if sp["tty"] else 0)


INERT_TAG = " {C08-command-reconfigures-already-cbreak-tty}"


def match_known(entry, failure):
    # ONLY: attributes not restored, the bracket inert (terminal already in cbreak mode) AND the body reconfigured it
    return entry.get("id") == "C08-command-reconfigures-already-cbreak-tty" and failure["why"].endswith(INERT_TAG)


def bracket_inert(sp):
    """the terminal is already in cbreak mode: character_buffered leaves it alone (terminals.cbreak_already_set)"""
    return sp["tty"] and not sp["echo"] and not sp["icanon"] and sp["vmin"] == 1 and sp["vtime"] == 0


def bracket_oracle(sp, r):
    if not r["restored"]:
        why = "[tty-not-restored] character_buffered over a terminal with echo=%s icanon=%s vmin=%d vtime=%d (body %s%s): attributes after the block differ from before" % (
            sp["echo"], sp["icanon"], sp["vmin"], sp["vtime"], "raises" if sp["raise"] else "returns",
            ", reconfigures the terminal: " + sp["body"] if sp.get("body") else "")
        if bracket_inert(sp) and body_mask(sp):
            why += INERT_TAG
        return why
    if r["raised"] != sp["raise"]:
        return "[bracket-outcome] the body %s but the block %s" % ("raised" if sp["raise"] else "returned", "raised" if r["raised"] else "returned")
    if sp["tty"] and not r["during"]:
        return "[not-character-buffered] inside the block the terminal is not in cbreak mode"
    return None


def replay(case):
    if "bracket" in case:
        res = bracket_run([case["bracket"]])
        if res is None:
            return True, "skipped: no pty"
        why = bracket_oracle(case["bracket"], res[0])
        return why is None, why or "ok"
    if "acct" in case:
        try:
            why, _ = common.with_timeout(accounting, 120, case)
        except common.Hang:
            why = "[hang] real runs did not return"
    elif "tty" in case:
        why, _ = tty_case(case)
    elif "sched" in case:
        o = runnerio.run_impl(case)
        why = oracle(case, o, runnerio.impl_obs(case, o))
    else:
        return True, "unknown case"
    return why is None, why or "ok"


def run(ctx):
    out = Outcome()
    rng = ctx.rng
    cases = [gen_terminating(rng) for _ in range(ctx.n(700, 7000))] + [gen_dead_worker(rng) for _ in range(ctx.n(250, 2500))]
    runnerio.run_cases(ctx, out, cases, oracle=oracle)
    n = 60 if (ctx.thorough or ctx.escalated) else 12
    acct = {}
    for pty in (False, True):
        for kind in ("exit0", "exit3", "raise3", "timeout", "output", "async", "async_fail", "async_timeout", "worker_dies") + (("stdin", "nostart") if not pty else ()):
            c = {"acct": kind, "pty": pty, "n": max(3, n // 4) if kind in ("timeout", "output", "async_timeout", "worker_dies") else n}
            out.case(c, True)
            out.hist["acct:" + kind] += 1
            try:
                why, info = common.with_timeout(accounting, 120, c)
            except common.Hang:
                why, info = "[hang] real runs of class %s pty=%s did not return" % (kind, pty), {"hang": True}
            except OSError as e:
                out.hist["real_skipped:" + type(e).__name__] += 1
                continue
            acct["%s/pty=%s" % (kind, pty)] = info
            if why:
                out.fail(c, why)
    out.extra["accounting"] = acct
    tt = {}
    hist = [[""], ["", "-echo", "+echo"], ["-isig", "", "+isig", "-echo"], ["vtime=7", "vmin=0", "-echo", "vmin=4"]]
    if ctx.thorough or ctx.escalated:
        hist += [[rng.choice(["", "-echo", "+echo", "-isig", "+isig", "-echoe", "+echoe", "-iexten", "+iexten", "vmin=0", "vmin=3", "vtime=5", "vtime=0"])
                  for _ in range(rng.randint(2, 5))] for _ in range(6)]
    for cmd, edits in [("head -c 3", hist[0]), ("head -c 3; exit 2", hist[0])] + [("head -c 3", h) for h in hist[1:]]:
        c = {"tty": True, "cmd": cmd, "edits": edits}
        out.case(c, True)
        try:
            why, info = tty_case(c)
        except Exception as e:  # no pty support
            info, why = {"skipped": repr(e)}, None
        tt[cmd + " " + ",".join(edits)] = info
        if why:
            out.fail(c, why)
    out.extra["tty"] = tt
    # (iv) the character_buffered bracket by itself: every attribute combination x returning/raising body, against the
    # Lean bracket model (Model/Terminal.lean) and the oracle
    specs = bracket_specs(rng, 66 if (ctx.thorough or ctx.escalated) else 40)
    try:
        res = bracket_run(specs)
    except Exception as e:  # no pty support
        res = None
        out.extra["bracket_skipped"] = repr(e)
    if res is not None:
        model = LeanDriver("drv_runner").run([bracket_model_line(sp) for sp in specs]) if ctx.model_ok else [None] * len(specs)
        for sp, r, m in zip(specs, res, model):
            c = {"bracket": sp}
            out.case(c, True)
            out.hist["bracket:" + ("tty" if sp["tty"] else "non-tty")] += 1
            if m is not None:
                out.traces += 1
                touches = sp["tty"] and not (not sp["echo"] and not sp["icanon"] and sp["vmin"] == 1 and sp["vtime"] == 0)
                got = "%d,%d,%d,%d" % (int(touches), int(bool(r["during"])) if sp["tty"] else int(False), int(r["restored"]), int(r["raised"]))
                mm = m.split(",")
                if sp["tty"] and (mm[1:] != got.split(",")[1:]):
                    out.disagree(c, got, m)
                elif not sp["tty"] and (mm[0] != "0" or mm[2:] != got.split(",")[2:]):
                    out.disagree(c, got, m)
            why = bracket_oracle(sp, r)
            if why:
                out.fail(c, why)
    return out
