"""C09 - a task signature maps to a well-formed CLI whose parsed values always bind."""
import copy
import inspect
import itertools
import re
import unicodedata

import common
from common import Outcome, LeanDriver

ID = "C09"
PROPS = ["Invoke/Props/C09.lean"]
TARGETS = ["drv_sig"]
DRIVER_ROOTS = ["Driver/Sig.lean"]
GENERATED = []
RULE = ("case = (parameter list [(name, default)], decorator options positional/optional/iterable/incrementable/"
        "auto_shortflags/help/ignore_unknown_help, a few by-construction argvs); the design-time witnesses, then all "
        "1-parameter signatures and (quick: a seeded third of / thorough: all) 2-parameter signatures over the 16-name "
        "vocabulary x 8 default kinds with default options, plus random signatures with <= 4 parameters x random options "
        "(Task(...) and @task(...)), each also parsed with the real Parser on by-construction argvs and passed through "
        "Executor.normalize into the task body; 22 % of the random signatures end in keyword-only parameters (a parameter "
        "lacking a default may follow a defaulted one), 6 % contain *args / **kwargs / positional-only parameters; plus "
        "namespaces of 2-4 tasks (namesakes with different signatures, tasks wrapping the SAME function with different decorator "
        "options, one Task object under several names / in several collections): every context of to_contexts() against its own task's signature (fresh task, model, oracle, "
        "parse + bind through the namespace's Executor); 15 % of the signatures use parameter names that the machinery itself "
        "uses as identifiers (context, task, call, args, kwargs, self, c, config, name, hide, echo, ...), as flags and as "
        "positionals; the first delivery of every case and every namespace delivery goes through the real "
        "Executor.execute, a sample also through Program.run(argv); a case is non-trivial when it has >= 2 parameters or a decorator option is set; distinct = "
        "distinct (params, options) pairs")
TRUSTED = ["Lean 4.33 kernel", "axioms propext/Classical.choice/Quot.sound only",
           "harness/props/c09.py correspondence + canonicalisation",
           "CPython str.isalnum/lstrip/rstrip/replace on ASCII identifiers (modelled by Char.isAlphanum / translateUnderscores)",
           "model Invoke/Model/TaskSig.lean hand-written (arg_opts, get_arguments, add_arg uniqueness, as_kwargs), tied by "
           "correspondence on every run; contexts are those of the shared parser model Invoke/Model/Parser.lean"]
ASSUMPTIONS = ["parameters are plain or keyword-only parameters (in any order of defaulted / not defaulted) with ASCII "
               "identifier names ([A-Za-z_][A-Za-z0-9_]*), pairwise distinct (Python enforces it); non-ASCII identifiers "
               "are outside the theorems; *args, **kwargs and positional-only parameters get the same CLI as plain ones "
               "(so the model and the CLI theorems cover them) but their values cannot be delivered by keyword: known "
               "findings C09-var-positional-param / -var-keyword-param / -positional-only-param",
               "defaults are None, str, int, bool or a list of str; a float default is checked by the oracle only "
               "(the shared parser model has no float kind)",
               "a parameter whose name consists only of underscores is refused with ValueError (fix #29); the theorems about "
               "built contexts derive the absence of such names from the context having been built",
               "a list-type parameter without default is, as documented, never filled positionally and defaults to []"]

VOCAB = ["a", "b", "ab", "a_b", "ab_c", "x_", "_x", "xy", "x1", "foo", "foo_bar", "f", "o", "no_x", "color", "no_color"]
# identifiers the machinery itself uses (parameters of Executor/Call/Task/Program methods, Context/Config members,
# run() options, core flag names): a task parameter may be called any of these
MACHINERY = ["context", "task", "call", "args", "kwargs", "self", "c", "ctx", "config", "name", "result", "executor",
             "collection", "core", "parser", "hide", "echo", "warn", "pty", "body", "cls", "exit", "argv", "help", "list",
             "debug", "dry", "tasks", "called_as", "pre", "post", "default", "value", "kind", "flag", "positional",
             "optional", "iterable", "env", "command", "timeout", "e", "w", "p", "r", "d", "l", "V", "D", "F", "T", "h"]
# non-ASCII Python identifiers (NFKC-normal, `str.isidentifier()`): first letter non-ASCII (so the short flag is too),
# inner and outer underscores
NONASCII = [unicodedata.normalize("NFKC", n) for n in
            ["größe", "café_au_lait", "ñ", "данные", "名前", "_über", "été_", "naïve_x", "Ω", "é", "ñu", "x_ü", "_ß_"]]
assert all(n.isidentifier() for n in NONASCII)
RARE = ["a__b", "no_a", "no_foo_bar", "B", "_a_b_", "x", "no_ab"]
# kind tag -> (python source of the default | None, model encoding)
KINDS = {
    "E": (None, "E"), "N": ("None", "N"), "S": ("'sv'", None), "S0": ("''", None), "I": ("3", "I3"), "I0": ("0", "I0"),
    "T": ("True", "B1"), "F": ("False", "B0"), "L": ("['a']", None), "L0": ("[]", "L"), "X": ("1.5", None),
}
PYVAL = {"N": None, "S": "sv", "S0": "", "I": 3, "I0": 0, "T": True, "F": False, "L": ["a"], "L0": [], "X": 1.5}
MAIN_KINDS = ["E", "S", "I", "N", "T", "F", "L", "X"]


def enc_chars(s):
    return ".".join(str(ord(c)) for c in s)


def enc_default(tag):
    if tag in ("S", "S0"):
        return "S" + enc_chars(PYVAL[tag])
    if tag == "L":
        return "L" + "+".join(enc_chars(x) for x in PYVAL[tag])
    return KINDS[tag][1]


def enc_val(v):
    """canonical value encoding shared with the driver's showPV"""
    if v is None or v is inspect.Signature.empty:
        return "N"
    if isinstance(v, bool):
        return "B1" if v else "B0"
    if isinstance(v, int):
        return "I%d" % v
    if isinstance(v, str):
        return "S" + enc_chars(v)
    if isinstance(v, list) and all(isinstance(x, str) for x in v):
        return "L" + "+".join(enc_chars(x) for x in v)
    return "X" + type(v).__name__


def dashed(name):
    """independent statement of 'underscores shown as dashes'"""
    return name.strip("_").replace("_", "-")


def flag_of(n):
    return ("-" if len(n) == 1 else "--") + n


def all_underscores(name):
    return name != "" and set(name) == {"_"}


# ------------------------------------------------------------------ implementation adapter

SHAPES = ("po", "pk", "vp", "ko", "vk")  # positional-only, plain, *name, keyword-only, **name (signature order)
EXOTIC = ("po", "vp", "vk")


def signature_text(params, shape=None):
    """python source of the parameter list after the context argument"""
    shape = shape or ["pk"] * len(params)
    out, star = [], False
    for i, ((n, k), sh) in enumerate(zip(params, shape)):
        item = n if KINDS[k][0] is None else "%s=%s" % (n, KINDS[k][0])
        if sh == "vp":
            item, star = "*" + n, True
        elif sh == "vk":
            item = "**" + n
        elif sh == "ko" and not star:
            out.append("*")
            star = True
        out.append(item)
        if sh == "po" and (i + 1 == len(params) or shape[i + 1] != "po"):
            out.append("/")
    return ", ".join(out)


def build_body(params, shape=None):
    sig = signature_text(params, shape)
    ns = {"_log": [], "_snap": snap_values, "_dict": dict, "_isinst": isinstance, "_list_t": list}  # (a parameter may be called `list`)
    # the body records what it received (a copy) and then does what task bodies do: it mutates the mutable
    # values it was given in place (appends to every list), so that any sharing with a later invocation shows
    exec("def body(_ctx0%s):\n"
         "    _r = _dict(locals()); _r.pop('_ctx0')\n"
         "    _s = _snap(_r); _log.append(_s)\n"
         "    for _v in _r.values():\n"
         "        if _isinst(_v, _list_t): _v.append('MUT')\n"
         "    return _s\n" % ((", " + sig) if sig else ""), ns)
    return ns["body"]


def snap_values(d):
    """copy of a kwargs dict whose mutable values are copied too"""
    return {k: (list(v) if isinstance(v, list) else v) for k, v in d.items()}


def task_kwargs(opts):
    kw = {}
    for k in ("optional", "iterable", "incrementable"):
        if opts.get(k):
            kw[k] = list(opts[k])
    if opts.get("positional") is not None:
        kw["positional"] = list(opts["positional"])
    if not opts.get("auto", True):
        kw["auto_shortflags"] = False
    if opts.get("help"):
        kw["help"] = {k: "help for " + k for k in opts["help"]}
    return kw


def build_task(params, opts, shape=None, name="t", body=None):
    from invoke import Task, task
    body = body or build_body(params, shape)
    kw = task_kwargs(opts)
    if opts.get("deco"):
        t = task(name=name, **kw)(body)
    else:
        t = Task(body, name=name, **kw)
    return body, t


class Impl:
    """What the real code makes of one signature."""

    def __init__(self, params, opts, shape=None):
        from invoke.parser import ParserContext
        self.params, self.opts, self.shape = params, opts, shape
        self.error = None  # exception class name
        self.stage = None
        self.args = self.ctx = None
        self.body, self.task = build_task(params, opts, shape)
        self.attrs_before = task_attrs(self.task)
        try:
            self.stage = "get_arguments"
            self.args = self.task.get_arguments(ignore_unknown_help=bool(opts.get("ign")))
            self.arg_lines = [self.show_arg(a) for a in self.args]
            self.stage = "context"
            self.ctx = ParserContext(name="t", args=self.args)
        except Exception as e:  # noqa: the code under test may do anything
            self.error = type(e).__name__
        self._canon = None
        self.canon()

    @staticmethod
    def show_arg(a):
        kind = getattr(a.kind, "__name__", str(a.kind))
        return "/".join([",".join(a.names), kind, enc_val(a.default), "1" if a.positional else "0",
                         "1" if a.optional else "0", "1" if a.incrementable else "0", a.attr_name or "",
                         "1" if a.help else "0"])

    def canon(self):
        """canonical form of the FIRST generation (computed once, before any history touches the objects)"""
        if self._canon is None:
            self._canon = self._canon_now()
        return self._canon

    def _canon_now(self):
        if self.error and self.stage == "get_arguments":
            return "EXC " + self.error
        sa = ";".join(self.arg_lines)
        if self.error:
            return sa + " # EXC " + self.error
        return sa + " # " + canon_ctx(show_ctx(self.ctx))


TASK_ATTRS = ("positional", "optional", "iterable", "incrementable")


def task_attrs(t):
    """deep snapshot of the decorator options a Task keeps (help apart: see generation_history)"""
    return {k: copy.deepcopy(getattr(t, k, None)) for k in TASK_ATTRS}


def gen_signature(args_or_exc, name_from="t"):
    """canonical form of one generation of a task's CLI, help strings apart: ('err', class) or ('ok', text)"""
    from invoke.parser import ParserContext
    if isinstance(args_or_exc, Exception):
        return ("err", type(args_or_exc).__name__)
    try:
        ctx = args_or_exc if isinstance(args_or_exc, ParserContext) else ParserContext(name="t", args=args_or_exc)
    except Exception as e:  # noqa
        return ("err", type(e).__name__)
    lines = [Impl.show_arg(a).rsplit("/", 1)[0] for a in ctx.args.values()]
    return ("ok", ";".join(lines) + " # " + show_ctx(ctx))


def generation_history(impl):
    """Family (a): generating the CLI of the SAME Task object again - get_arguments() twice more, then the task
    registered under two names in one collection - must give what the first generation gave, and must leave the
    task's own options as they were.  (Help strings are not compared: the first generation consumes the help dict.)"""
    from invoke import Collection
    fails = []
    opts = impl.opts
    if impl.error and impl.stage == "get_arguments" and opts.get("help"):
        return fails  # which help keys are left over changes once some were consumed: not constrained
    ign = bool(opts.get("ign"))
    first = ("err", impl.error) if impl.error else gen_signature(impl.ctx)
    gens = []
    for _ in range(2):
        try:
            gens.append(gen_signature(impl.task.get_arguments(ignore_unknown_help=ign)))
        except Exception as e:  # noqa
            gens.append(gen_signature(e))
    try:
        ns = Collection()
        ns.add_task(impl.task, name="t")
        ns.add_task(impl.task, name="u")
        for c in ns.to_contexts(ignore_unknown_help=ign):
            gens.append(gen_signature(c))
    except Exception as e:  # noqa
        gens.append(gen_signature(e))
    for i, g in enumerate(gens):
        if g != first:
            fails.append("generation-not-repeatable param=- generation #%d of the same task differs from the first: %s  vs first  %s"
                         % (i + 2, g[1], first[1]))
            break
    after = task_attrs(impl.task)
    if after != impl.attrs_before:
        ch = [k for k in TASK_ATTRS if after[k] != impl.attrs_before[k]]
        fails.append("task-options-changed param=- generating the CLI changed the task's own %s: %r -> %r"
                     % (ch[0], impl.attrs_before[ch[0]], after[ch[0]]))
    return fails


def template_snapshot(impl):
    """the template context a Parser copies from: arguments incl. their current values"""
    return (";".join(Impl.show_arg(a) + "/" + enc_val(a.raw_value) for a in impl.ctx.args.values()), show_ctx(impl.ctx))


def show_kw(kw):
    return ",".join("%s=%s" % (k, enc_val(v)) for k, v in kw.items())


def show_ctx(ctx):
    spell = list(ctx.flags.keys()) + list(ctx.flags.aliases.keys())
    return ("flags=" + ",".join("%s>%s" % (s, ctx.flags[s].name) for s in spell) +
            " inv=" + ",".join("%s>%s" % kv for kv in ctx.inverse_flags.items()) +
            " pos=" + ",".join(a.name for a in ctx.positional_args) +
            " kw=" + show_kw(ctx.as_kwargs))


def canon_ctx(s):
    """order-insensitive fields (dict views) are sorted; the positional list keeps its order"""
    out = []
    for part in s.split(" "):
        k, _, v = part.partition("=")
        if k in ("flags", "inv", "kw"):
            v = ",".join(sorted(v.split(","))) if v else ""
        out.append(k + "=" + v)
    return " ".join(out)


def canon_model(s):
    parts = s.split(" # ")
    for i in range(1, len(parts)):
        if parts[i].startswith("flags="):
            parts[i] = canon_ctx(parts[i])
        elif not parts[i].startswith("EXC") and parts[i] != "?":
            parts[i] = ",".join(sorted(parts[i].split(","))) if parts[i] else ""
    return " # ".join(parts)


def model_line(params, opts, argv=None):
    pos = "-" if opts.get("positional") is None else ",".join(opts["positional"])
    f = [";".join("%s=%s" % (n, enc_default(k)) for n, k in params), pos, ",".join(opts.get("optional", [])),
         ",".join(opts.get("iterable", [])), ",".join(opts.get("incrementable", [])), "1" if opts.get("auto", True) else "0",
         ",".join(opts.get("help", [])), "1" if opts.get("ign") else "0"]
    if argv is not None:
        f.append(",".join(enc_chars(t) for t in argv))
    return "sig " + "|".join(f)


def modelable(params, opts):
    if any(k == "X" for _, k in params):
        return False
    if not all(n.isascii() for n, _ in params):
        return False  # the model's identifiers are ASCII (Char.isAlphanum): judged by the oracle only
    # positional=[''] cannot be told from positional=[] in the line protocol
    return all(x for k in ("optional", "iterable", "incrementable", "help") for x in opts.get(k, [])) and \
        all(x for x in (opts.get("positional") or []))


# ------------------------------------------------------------------ by-construction argvs (parse + bind)

def make_argvs(rng, impl, count):
    """Spell a few invocations that mention some parameters (each at most once);
    returns [(argv, mentioned-names, {name: the value given})]."""
    if impl.error:
        return []
    out = []
    args = list(impl.ctx.args.values())
    for _ in range(count):
        argv, mentioned, given = [], set(), {}
        flags = []
        for a in args:
            is_list = a.kind is list
            if a.positional and not is_list and not a.incrementable and a.default is None:
                continue  # filled positionally below
            if rng.random() < 0.5:
                continue
            main = a.names[0]
            spell = flag_of(main)
            if len(a.names) > 1 and rng.random() < 0.4:
                spell = flag_of(a.names[1])
            if not main or spell == "--":
                continue
            if a.incrementable:
                if not (a.kind is int and type(a.default) is int):
                    continue  # incrementing a non-int is outside what the task author can mean
                flags.append([spell])
                given[a.name] = a.default + 1
            elif a.kind is bool:
                given[a.name] = True
                if a.default is True and rng.random() < 0.6:
                    spell = "--no-" + main
                    given[a.name] = False
                flags.append([spell])
            elif a.kind is int:
                v = str(rng.randint(0, 9))
                flags.append([spell, v] if rng.random() < 0.5 or len(spell) == 2 else [spell + "=" + v])
                given[a.name] = int(v)
            elif a.kind in (str, list):
                v = rng.choice(["v", "val", "w1"])
                flags.append([spell, v] if rng.random() < 0.5 or len(spell) == 2 else [spell + "=" + v])
                given[a.name] = [v] if a.kind is list else v
            else:
                continue
            mentioned.add(a.name)
        rng.shuffle(flags)
        for f in flags:
            argv += f
        for a in impl.ctx.positional_args:
            if a.kind is list or a.incrementable or a.default is not None:
                continue
            v = rng.choice(["pv", "p2"])
            argv.append(v)
            mentioned.add(a.name)
            given[a.name] = v
        out.append((argv, sorted(mentioned), given))
    return out


def impl_parse(impl, argv, parser=None):
    """Parse `t <argv>` with the real Parser (a given one, else a new one over the template context);
    returns (kwargs | None, error class | None, parsed context | None)."""
    from invoke.parser import Parser
    try:
        res = (parser or Parser(contexts=[impl.ctx])).parse_argv(["t"] + list(argv))
    except Exception as e:  # noqa
        return None, type(e).__name__, None
    if len(res) != 1:
        return None, "contexts=%d" % len(res), None
    return res[0].as_kwargs, None, res[0]


# ------------------------------------------------------------------ oracle (states the property on the real objects)

LONG_RE = re.compile(r"[^\W_]+(-+[^\W_]+)*\Z")  # alphanumerics (of any script), dashes inside only
FLAG_RE = re.compile(r"(--[^\W_]+(-+[^\W_]+)*|-[^\W_])\Z")


def legit_error_causes(params, opts):
    """(must_error, may_error): situations in which no well-formed CLI with distinct flags exists (must) or in
    which the property does not say whether building may fail (may)."""
    names = [n for n, _ in params]
    ds = [dashed(n) for n in names]
    must = len(set(ds)) != len(ds)
    optional = set(opts.get("optional", []))
    for n, k in params:
        if k == "T" and n not in optional and ("no-" + dashed(n)) in ds:
            must = True
    # a name made of underscores only has no dashed form: no well-formed flag can exist, refusing it (fix #29)
    # is as good as it gets; a context built all the same fails `long-flag-malformed` below
    may = any(all_underscores(n) for n in names)
    keys = opts.get("help", [])
    if keys:
        owners = []
        for k in keys:
            own = [n for n in names if k in (n, dashed(n))]
            if not own and not opts.get("ign"):
                must = True
            owners.append(own)
        flat = [n for own in owners for n in own]
        if any(len(own) != 1 for own in owners) or len(set(flat)) != len(flat):
            may = True
    return must, may


def oracle_signature(params, opts, impl):
    """Returns a list of failures 'tag param=<name> detail'.  Don't-care regions return nothing."""
    fails = []
    names = [n for n, _ in params]
    kind_of = dict(params)
    must, may = legit_error_causes(params, opts)
    if impl.error:
        if impl.error != "ValueError":
            return ["unexpected-exception param=- %s at %s" % (impl.error, impl.stage)]
        if not (must or may):
            return ["valueerror-without-clash param=- building the context raised ValueError although all dashed names "
                    "are distinct and no --no- form collides"]
        return []
    if must:
        # a clash exists but a context was built: then its flags cannot all be distinct / one per parameter
        fails.append("clash-accepted param=- two parameters share a dashed name or a --no- form, yet no error")
    args, ctx = impl.args, impl.ctx
    # one argument per parameter
    if sorted(a.name for a in args) != sorted(names) or len(ctx.args) != len(names):
        fails.append("arg-names param=- arguments %r for parameters %r" % ([a.name for a in args], names))
        return fails
    optional = set(opts.get("optional", []))
    spellings = []
    table = list(ctx.flags.keys()) + list(ctx.flags.aliases.keys())
    for a in args:
        n = a.name
        k = kind_of[n]
        mine = [f for f in table if ctx.flags[f] is a]  # every flag spelling that reaches this argument
        # well-formed long flag, underscores shown as dashes ('-x' for a one-character name)
        want = dashed(n)
        fl = flag_of(want)
        if not LONG_RE.match(want):
            # underscores only: dashing leaves nothing; any well-formed flag would do, the bare '--' does not
            if not any(FLAG_RE.match(f) for f in mine):
                fails.append("long-flag-malformed param=%s no well-formed flag reaches the argument (its flags: %r)" % (n, mine))
            fl = mine[0] if mine else fl
        elif fl not in mine:
            fails.append("long-flag-unreachable param=%s %r does not reach the argument (its flags: %r)" % (n, fl, mine))
        # at most one single-letter flag besides
        extra = [f for f in mine if f != fl]
        if len(extra) > 1:
            fails.append("more-than-one-short param=%s %r" % (n, extra))
        for f in extra:
            if not (len(f) == 2 and f[0] == "-" and f[1].isalnum()):
                fails.append("short-not-single-alnum param=%s %r" % (n, f))
        spellings += mine
        # booleans
        if k in ("T", "F") and n not in optional:
            if a.takes_value:
                fails.append("bool-takes-value param=%s" % n)
            inv = "--no-" + want
            if (k == "T") != (inv in ctx.inverse_flags):
                fails.append("inverse-rule param=%s default %s, %r in inverse flags: %s" % (n, k == "T", inv, inv in ctx.inverse_flags))
            elif k == "T" and ctx.inverse_flags[inv] != fl:
                fails.append("inverse-target param=%s %r inverts %r" % (n, inv, ctx.inverse_flags[inv]))
        # other defaults fix the value type
        if k in ("S", "S0", "I", "I0", "L", "L0", "X"):
            if a.kind is not type(PYVAL[k]):
                fails.append("kind-from-default param=%s default %r gives kind %s" % (n, PYVAL[k], getattr(a.kind, "__name__", a.kind)))
    # all flag names distinct: every spelling belongs to exactly one argument, inverse flags are no flags
    inv_keys = list(ctx.inverse_flags.keys())
    if sorted(spellings) != sorted(table) or len(set(table)) != len(table) or set(table) & set(inv_keys) \
            or len(set(inv_keys)) != len(inv_keys):
        fails.append("flags-not-distinct param=- flags %r, inverse flags %r" % (sorted(table), sorted(inv_keys)))
    # implicit positionals in declaration order (list-type parameters are documented as non-positional)
    if opts.get("positional") is None:
        got = [a.name for a in ctx.positional_args if a.kind is not list]
        want = [n for n, k in params if k == "E" and n not in opts.get("iterable", [])]
        if got != want:
            fails.append("positional-order param=- positional %r, parameters without default %r" % (got, want))
    # kwargs of the untouched context bind and carry the function's own defaults
    fails += oracle_kwargs(params, impl.body, ctx.as_kwargs, set(), {a.name: a for a in args})
    return fails


_SHARED = {}


def shared_context():
    """one Context/Config for all cases (building a Config reads the config files: far too slow per case)"""
    if "ctx" not in _SHARED:
        from invoke import Config, Context
        _SHARED["cfg"] = Config()
        _SHARED["ctx"] = Context(config=_SHARED["cfg"])
    return _SHARED["ctx"]


def oracle_kwargs(params, body, kw, mentioned, by_name, given=None):
    """keys = parameter names; the kwargs bind; unmentioned parameters carry the function's own default ([] for
    list-type); with `given`, mentioned ones hold exactly the value spelled on the command line"""
    fails = []
    names = [n for n, _ in params]
    if sorted(kw) != sorted(names):
        return ["kwargs-keys param=- keys %r for parameters %r" % (sorted(kw), sorted(names))]
    try:
        inspect.signature(body).bind(shared_context(), **kw)
    except TypeError as e:
        return ["kwargs-do-not-bind param=- %s" % e]
    for n, k in params:
        if n in mentioned:
            if given is not None and n in given and not (kw[n] == given[n] and type(kw[n]) is type(given[n])):
                fails.append("given-value-not-delivered param=%s got %r, the command line gave %r" % (n, kw[n], given[n]))
            continue
        a = by_name.get(n)
        if k == "E":
            # no default of its own: only the documented list-type rule applies (iterable + incrementable is
            # contradictory: not constrained)
            if a is not None and a.kind is list and not a.incrementable and not (kw[n] == [] and type(kw[n]) is list):
                fails.append("default-not-carried param=%s got %r, a list-type parameter without default starts as []" % (n, kw[n]))
            continue
        own = PYVAL[k]
        is_list = a is not None and a.kind is list
        ok = kw[n] == own and type(kw[n]) is type(own)
        if is_list:
            # list-type: an empty list (the function's own list default is as good), never None
            ok = (kw[n] == [] and type(kw[n]) is list) or (ok and own is not None)
        if not ok:
            fails.append("default-not-carried param=%s got %r, the function's default is %r%s" % (
                n, kw[n], own, " (list-type)" if is_list else ""))
    return fails


def oracle_executor(task, pctx, real=True):
    """End to end: the parsed context goes through the real `Executor.execute` (normalize -> Call -> config and
    context set-up -> the executor's own hand-off to the task) and the body must receive exactly the parsed values.
    `task` may be the whole namespace the parsed context belongs to.  With real=False (repeat deliveries of the
    mutation histories, where only the values matter) the Call made by `Executor.normalize` is invoked directly."""
    from invoke import Collection, Config, Executor
    shared_context()
    if "cfg2" not in _SHARED:
        _SHARED["cfg2"] = Config(overrides={"tasks": {"dedupe": False}})
    coll = task if isinstance(task, Collection) else Collection(task)
    want = snap_values(pctx.as_kwargs)  # before the body gets (and mutates) them
    log = coll[pctx.name].body.__globals__["_log"]
    del log[:]
    try:
        ex = Executor(coll, config=_SHARED["cfg2"])
        if real:
            ex.execute(pctx)
        else:
            for call in ex.normalize([pctx]):
                call.task(_SHARED["ctx"], **call.kwargs)
    except TypeError as e:
        return ["kwargs-do-not-bind param=- executing the task: %s" % e]
    if len(log) != 1:
        return []  # how often a task runs is C04's business
    if log[0] != want:
        return ["executor-kwargs param=- body received %r, context holds %r" % (log[0], want)]
    return []


def program_history(case, impl, step):
    """the same through `Program.run(argv)`: core parse, task parse, Executor, body"""
    import contextlib
    import io
    from invoke import Collection, Program
    params = [tuple(p) for p in case["params"]]
    argv, mentioned, given = step
    _, t = build_task(params, impl.opts, impl.shape, body=impl.body)
    log = impl.body.__globals__["_log"]
    del log[:]
    sink = io.StringIO()
    try:
        with contextlib.redirect_stdout(sink), contextlib.redirect_stderr(sink):
            Program(namespace=Collection(t)).run(["inv", "t"] + list(argv), exit=False)
    except TypeError as e:
        return ["program:kwargs-do-not-bind param=- `inv t %s`: %s" % (" ".join(argv), e)]
    except BaseException:  # noqa: a core flag may claim a token; C18's business
        return []
    if len(log) != 1:
        return []
    by_name = {a.name: a for a in impl.args}
    return ["program:" + f for f in oracle_kwargs(params, impl.body, log[0], mentioned, by_name, given)]


def norm_step(x):
    argv, mentioned = x[0], x[1]
    return list(argv), set(mentioned), (x[2] if len(x) > 2 else None)


def kwargs_history(case, impl, stats):
    """Family (b): parse, bind, let the body mutate what it received - and again.  One Parser object for all argvs
    in turn; then a new Parser over the same template context for the first argv again; optionally the task named twice on
    one command line, run by the real Executor with dedupe off.  Every time: keys = parameter names, the kwargs
    bind, mentioned parameters hold the given values, unmentioned ones the function's own defaults ([] for
    list-type); and the template context is afterwards what it was."""
    from invoke.parser import Parser
    params = [tuple(p) for p in case["params"]]
    by_name = {a.name: a for a in impl.args}
    steps = [norm_step(x) for x in case["argvs"]]
    before = template_snapshot(impl)
    fails = []

    def one(tag, step, parser, record):
        argv, mentioned, given = step
        kw, err, pctx = impl_parse(impl, argv, parser)
        if record:
            stats.append((argv, None if err else show_kw(kw), err))
        if err:
            return False  # whether this spelling parses is C01/C07's business
        fs = oracle_kwargs(params, impl.body, kw, mentioned, by_name, given)
        # Executor -> Call -> body, which mutates what it was given (the real `execute` for the first delivery)
        fs += oracle_executor(impl.task, pctx, real=record and not stats[1:])
        fails.extend(tag + ":" + f for f in fs)
        return True

    same = Parser(contexts=[impl.ctx])
    parsed = [one("after-parse", st, same, True) for st in steps]
    one("new-parser-again", steps[0], None, False)
    if case.get("h3"):
        fails += session_history(case, impl, params, by_name, steps[0], steps[-1])
    if case.get("prog") and parsed[0]:
        fails += program_history(case, impl, steps[0])
    after = template_snapshot(impl)
    if after != before:
        fails.append("template-changed param=- parsing/executing changed the template context: %s -> %s" % (before[1], after[1]))
    return fails


def session_history(case, impl, params, by_name, st1, st2):
    """`inv t <argv1> t <argv2>` with dedupe off through the real Executor: each invocation gets its own values"""
    from invoke import Collection, Config, Executor
    from invoke.parser import Parser
    shared_context()
    if "cfg2" not in _SHARED:
        _SHARED["cfg2"] = Config(overrides={"tasks": {"dedupe": False}})
    ns = Collection(impl.task)
    try:
        res = Parser(contexts=ns.to_contexts(ignore_unknown_help=bool(impl.opts.get("ign")))).parse_argv(
            ["t"] + st1[0] + ["t"] + st2[0])
    except Exception:  # noqa: not every pair of spellings can be chained; C01's business
        return []
    if len(res) != 2:
        return []
    log = impl.body.__globals__["_log"]
    del log[:]
    try:
        Executor(ns, config=_SHARED["cfg2"]).execute(*res)
    except TypeError as e:
        return ["session:kwargs-do-not-bind param=- %s" % e]
    if len(log) != 2:
        return []  # how often a task runs is C04's business
    fails = []
    for i, (entry, st) in enumerate(zip(log, (st1, st2))):
        fails += ["session#%d:%s" % (i + 1, f) for f in oracle_kwargs(params, impl.body, entry, st[1], by_name, st[2])]
    return fails


def check_case(case, rng=None, n_argv=2):
    """Runs the real code on one case; returns (impl, failures, parse-stats).  With `rng`, a case that has no
    argvs yet gets a few by-construction ones (stored in the case, so that a replay repeats them)."""
    params = [tuple(p) for p in case["params"]]
    opts = case["opts"]
    impl = Impl(params, opts, case.get("shape"))
    if rng is not None and "argvs" not in case:
        case["argvs"] = [[a, m, g] for a, m, g in make_argvs(rng, impl, n_argv)] if nontrivial(case) or rng.random() < 0.3 else []
        case["h3"] = bool(case["argvs"]) and rng.random() < 0.2
        machinery = any(n in MACHINERY for n, _ in params)
        case["prog"] = bool(case["argvs"]) and rng.random() < (0.2 if machinery else 0.015)
    fails = oracle_signature(params, opts, impl)
    fails += generation_history(impl)
    stats = []
    if not impl.error and case.get("argvs"):
        fails += kwargs_history(case, impl, stats)
    return impl, fails, stats


# ------------------------------------------------------------------ family (c): a whole namespace

class View:
    """one context of a namespace, seen as `Impl` sees the context of a single task"""
    error = stage = None

    def __init__(self, params, opts, shape, body, task, ctx):
        self.params, self.opts, self.shape, self.body, self.task, self.ctx = params, opts, shape, body, task, ctx
        self.args = list(ctx.args.values())


def build_tree(case):
    from invoke import Collection
    members = []
    for tk in case["tasks"]:
        params = [tuple(p) for p in tk["params"]]
        # "same_as": a second Task object around the SAME function (equal under Task.__eq__ when the names agree),
        # with decorator options of its own
        shared = members[tk["same_as"]][3] if tk.get("same_as") is not None else None
        body, task = build_task(params, tk["opts"], tk.get("shape"), name=tk["name"], body=shared)
        members.append((params, tk["opts"], tk.get("shape"), body, task))
    root, subs = Collection(), {}
    for coll, idx, bname in case["bind"]:
        if coll and coll not in subs:
            subs[coll] = Collection(coll)
        (subs[coll] if coll else root).add_task(members[idx][4], name=bname)
    for sub in subs.values():
        root.add_collection(sub)
    return members, root


def canon_nohelp(s):
    parts = s.split(" # ")
    if parts and not parts[0].startswith("EXC"):
        parts[0] = ";".join(a.rsplit("/", 1)[0] for a in parts[0].split(";")) if parts[0] else ""
    return " # ".join(parts)


def check_tree(case, rng=None):
    """Several tasks - namesakes with different signatures, one Task object under several names or in several
    collections - in one namespace: `to_contexts()` must give EVERY binding the CLI of its own task's signature
    (= what a fresh task with that signature gets, = what the model derives from that signature), and values
    parsed through any binding must bind to that task's function.
    Returns (failures, [(context name, task index, canonical context)])."""
    from invoke.parser import Parser, ParserContext
    members, root = build_tree(case)
    try:
        ctxs = root.to_contexts()
    except Exception as e:  # noqa
        return ["tree-not-built param=- to_contexts raised %s although every member builds on its own" % type(e).__name__], []
    fails, items = [], []
    gen = rng is not None and "targv" not in case
    if gen:
        case["targv"] = {}
    for ctx in ctxs:
        task = root[ctx.name]
        idx = [i for i, m in enumerate(members) if m[4] is task]
        if len(idx) != 1:
            fails.append("tree-binding param=- context %r belongs to no member task" % ctx.name)
            continue
        params, opts, shape, body, _ = members[idx[0]]
        fresh = gen_signature(build_task(params, opts, shape)[1].get_arguments())
        got = gen_signature(ctx)
        if got != fresh:
            fails.append("context-of-other-signature param=- context %r of task #%d (def %s(c, %s)) holds  %s  but that "
                         "signature generates  %s" % (ctx.name, idx[0], case["tasks"][idx[0]]["name"],
                                                    signature_text(params, shape), got[1], fresh[1]))
            continue
        view = View(params, opts, shape, body, task, ctx)
        fails += ["tree:%s:%s" % (ctx.name, f) for f in oracle_signature(params, opts, view)]
        items.append((ctx.name, idx[0], canon_nohelp(";".join(Impl.show_arg(a) for a in view.args) + " # " + canon_ctx(show_ctx(ctx)))))
        if gen:
            case["targv"][ctx.name] = [list(x) for x in make_argvs(rng, view, 1)][0]
        step = case["targv"].get(ctx.name)
        if not step:
            continue
        argv, mentioned, given = norm_step(step)
        try:
            res = Parser(contexts=ctxs).parse_argv([ctx.name] + argv)
        except Exception:  # noqa: C01/C07's business
            continue
        if len(res) != 1 or res[0].name != ctx.name:
            continue
        by_name = {a.name: a for a in view.args}
        fs = oracle_kwargs(params, body, res[0].as_kwargs, mentioned, by_name, given)
        fs += oracle_executor(root, res[0])
        fails += ["tree:%s:after-parse:%s" % (ctx.name, f) for f in fs]
    return fails, items


def random_tree(rng):
    """2-4 tasks over few task names (so that namesakes with different signatures are common), spread over the
    root and two sub-collections; some Task objects bound a second time under another name and/or in another
    collection."""
    tasks = []
    for _ in range(rng.choice([2, 2, 3, 3, 4])):
        for _try in range(20):
            c = random_case(rng)
            c["opts"] = {k: v for k, v in c["opts"].items() if k not in ("help", "ign")}
            if any(sh in EXOTIC for sh in c.get("shape") or []):
                continue
            if not Impl([tuple(p) for p in c["params"]], c["opts"], c.get("shape")).error:
                break
        else:
            c = {"params": [["a", "E"]], "opts": {}}
        tk = {"name": rng.choice(["build", "build", "build", "clean", "deploy"]), "params": c["params"], "opts": c["opts"]}
        if c.get("shape"):
            tk["shape"] = c["shape"]
        tasks.append(tk)
    # twins: another Task object around the same function under the same task name - equal as far as Task.__eq__ /
    # __hash__ can tell - but with decorator options of its own, hence a CLI of its own
    for _ in range(rng.choice([0, 1, 1, 2])):
        j = rng.randrange(len(tasks))
        if tasks[j].get("same_as") is not None or not tasks[j]["params"]:
            continue
        params = [tuple(p) for p in tasks[j]["params"]]
        for _try in range(20):
            o = {k: v for k, v in random_opts(rng, params).items() if k not in ("help", "ign")}
            if {k: v for k, v in o.items() if k != "deco"} != {k: v for k, v in tasks[j]["opts"].items() if k != "deco"} \
                    and not Impl(params, o, tasks[j].get("shape")).error:
                tw = dict(tasks[j], opts=o, same_as=j)
                tasks.append(tw)
                break
    colls = ["", "docs", "www"]
    bind, used = [], set()

    def add(coll, idx, bname):
        key = (coll, bname or tasks[idx]["name"])
        if key in used:
            return False
        used.add(key)
        bind.append([coll, idx, bname])
        return True
    for i in range(len(tasks)):
        order = colls[:]
        rng.shuffle(order)
        if not any(add(coll, i, None) for coll in order):
            add(rng.choice(colls), i, "task%d" % i)
        j = tasks[i].get("same_as")
        if j is not None and rng.random() < 0.5:
            home = [b[0] for b in bind if b[1] == j][0]
            add(home, i, "twin%d" % i)  # the twin next to its original, in one collection under another name
        if rng.random() < 0.35:
            add(rng.choice(colls), i, "alt%d" % i)  # the same Task object under a second name
        if rng.random() < 0.3:
            add(rng.choice(colls), i, None)  # ... or in a second collection
    return {"tasks": tasks, "bind": bind}


def replay(case):
    if "tasks" in case:
        fails, _ = check_tree(case)
    else:
        _, fails, _ = check_case(case)
    return (not fails), (fails[0] if fails else "ok")


KNOWN_NAME = {"C09-param-named-self": "self"}
KNOWN_SHAPE = {"C09-var-positional-param": "vp", "C09-var-keyword-param": "vk", "C09-positional-only-param": "po"}
UNDELIVERABLE = ("kwargs-do-not-bind", "executor-kwargs", "given-value-not-delivered")


def failure_tag(why):
    return why.split(" ")[0].split(":")[-1]


def match_known(entry, failure):
    """`*args`, `**kwargs` and positional-only parameters are exposed as ordinary (required positional) arguments
    whose values cannot be handed to the function by keyword: exactly the binding/delivery failures of a signature
    that contains such a parameter."""
    tag = failure_tag(failure["why"])
    nm = KNOWN_NAME.get(entry.get("id"))
    if nm is not None:
        # Task.__call__(self, *args, **kwargs): a task parameter called `self` cannot be passed by keyword
        tasks = failure["case"].get("tasks") or [failure["case"]]
        return tag == "kwargs-do-not-bind" and "'%s'" % nm in failure["why"] and \
            any(p[0] == nm for t in tasks for p in t["params"])
    sh = KNOWN_SHAPE.get(entry.get("id"))
    if sh is None or "tasks" in failure["case"]:
        return False
    if tag not in UNDELIVERABLE and not (sh == "vk" and tag == "default-not-carried"):
        return False  # (a **kw parameter receives {'name': value}, also for the untouched default)
    return sh in (failure["case"].get("shape") or [])


# ------------------------------------------------------------------ generation

def order_params(params):
    """Python wants parameters without default first (stable)."""
    return [p for p in params if p[1] == "E"] + [p for p in params if p[1] != "E"]


def random_opts(rng, params):
    names = [n for n, _ in params]
    opts = {}

    def pick(p):
        return [n for n in names if rng.random() < p]
    r = rng.random()
    if r < 0.45:
        return opts  # default options
    if rng.random() < 0.35:
        opts["optional"] = pick(0.4)
    if rng.random() < 0.35:
        opts["iterable"] = pick(0.4)
    if rng.random() < 0.25:
        opts["incrementable"] = pick(0.3)
    if rng.random() < 0.25:
        opts["auto"] = False
    if rng.random() < 0.25:
        pos = pick(0.5)
        rng.shuffle(pos)
        if pos and rng.random() < 0.1:
            pos.append(rng.choice(pos + ["zz"]))
        opts["positional"] = pos
    if rng.random() < 0.25 and names:
        keys = []
        for n in pick(0.5):
            form = rng.random()
            keys.append(n if form < 0.45 else dashed(n) if form < 0.9 else n)
            if form >= 0.9 and dashed(n) != n and dashed(n):
                keys.append(dashed(n))
        if rng.random() < 0.12:
            keys.append("nosuch")
        keys = [k for i, k in enumerate(keys) if k and k not in keys[:i]]
        if keys:
            opts["help"] = keys
            if rng.random() < 0.2:
                opts["ign"] = True
    if rng.random() < 0.3:
        opts["deco"] = True
    return {k: v for k, v in opts.items() if v not in ([], None) or k == "positional"}


def random_case(rng):
    k = rng.choice([1, 2, 2, 3, 3, 3, 4, 4, 4])
    pool = VOCAB + (RARE if rng.random() < 0.15 else [])
    names = rng.sample(pool, k)
    if rng.random() < 0.03:
        names[rng.randrange(k)] = rng.choice(["_", "__"])  # blank CLI name (#29, now refused with ValueError)
    if rng.random() < 0.08:
        for i in rng.sample(range(k), rng.choice([1, 1, 2]) if k > 1 else 1):
            m = rng.choice(NONASCII)
            if m not in names:
                names[i] = m
    if rng.random() < 0.15:
        for i in rng.sample(range(k), rng.choice([1, 1, 2]) if k > 1 else 1):
            m = rng.choice(MACHINERY)
            if m not in names:
                names[i] = m  # as a flag or as a positional, whatever kind position i gets
    kinds = [rng.choice(MAIN_KINDS + ["E", "E", "T", "F", "S", "I", "N", "I0", "S0", "L0"]) for _ in names]
    params, shape = random_shape(rng, list(zip(names, kinds)))
    case = {"params": [list(p) for p in params], "opts": random_opts(rng, params)}
    if any(sh != "pk" for sh in shape):
        case["shape"] = shape
    return case


def random_shape(rng, params):
    """Which kind of parameter each one is.  72 % plain parameters only; 22 % a tail of keyword-only parameters
    (`*, x`, `*, x=1`, in any order: a parameter lacking a default may follow a defaulted one); 6 % one of the
    kinds the CLI cannot serve (`*args`, `**kwargs`, positional-only)."""
    r = rng.random()
    k = len(params)
    if r < 0.72:
        return order_params(params), ["pk"] * k
    if r < 0.94:
        cut = rng.randrange(0, k)  # params[cut:] are keyword-only, in the order drawn
        return order_params(params[:cut]) + params[cut:], ["pk"] * cut + ["ko"] * (k - cut)
    what = rng.choice(EXOTIC)
    if what == "po":
        ps = order_params(params)
        cut = rng.randrange(1, k + 1)
        return ps, ["po"] * cut + ["pk"] * (k - cut)
    if what == "vk":
        ps = order_params(params[:-1]) + [(params[-1][0], "E")]
        return ps, ["pk"] * (k - 1) + ["vk"]
    cut = rng.randrange(0, k)  # *name at position cut, keyword-only ones after it
    ps = order_params(params[:cut]) + [(params[cut][0], "E")] + params[cut + 1:]
    return ps, ["pk"] * cut + ["vp"] + ["ko"] * (k - cut - 1)


def exhaustive_small():
    for n in VOCAB:
        for k in MAIN_KINDS:
            yield {"params": [[n, k]], "opts": {}}
    for n1, n2 in itertools.permutations(VOCAB, 2):
        for k1 in MAIN_KINDS:
            for k2 in MAIN_KINDS:
                if k1 != "E" and k2 == "E":
                    # only expressible with a keyword-only second parameter: def t(c, n1=…, *, n2)
                    yield {"params": [[n1, k1], [n2, k2]], "opts": {}, "shape": ["pk", "ko"]}
                    continue
                yield {"params": [[n1, k1], [n2, k2]], "opts": {}}


CORPUS = [  # design-time witnesses (DESIGN.md section 4 #11, #12, #28, #13, observation) - must pass now
    {"params": [["a", "I"], ["a_b", "I"]], "opts": {}},
    {"params": [["xy", "I"], ["x_", "I"]], "opts": {}},
    {"params": [["x_", "I"], ["xy", "I"]], "opts": {}},
    {"params": [["color", "T"], ["no_color", "F"]], "opts": {}},
    {"params": [["no_color", "F"], ["color", "T"]], "opts": {}},
    {"params": [["my_list", "E"]], "opts": {"iterable": ["my_list"]}},
    {"params": [["xy", "E"], ["x1", "S"]], "opts": {}},
    {"params": [["a_b", "E"]], "opts": {"help": ["a-b", "a_b"]}},
    {"params": [["a", "E"], ["b", "I"]], "opts": {"positional": ["b", "zz", "b"]}},
    {"params": [["host", "E"], ["retries", "I"], ["target", "E"]], "opts": {}, "shape": ["pk", "pk", "ko"]},
    {"params": [["a", "I"], ["b", "E"], ["d", "I0"], ["e", "E"]], "opts": {}, "shape": ["pk", "ko", "ko", "ko"]},
]


def nontrivial(case):
    return len(case["params"]) >= 2 or any(v not in ([], None, False) for k, v in case["opts"].items() if k != "deco")


def run(ctx):
    out = Outcome()
    rng = ctx.rng
    drv = LeanDriver("drv_sig")
    cases = list(CORPUS)
    ex = list(exhaustive_small())
    if not (ctx.thorough or ctx.escalated):
        # quick: every 1-parameter signature, every pair of names with a seeded third of the kind pairs
        ex = [c for c in ex if len(c["params"]) == 1 or rng.random() < 0.28]
    else:
        out.exhaustive = True
    cases += ex
    out.extra["exhaustive_small_scope"] = len(ex)
    for _ in range(ctx.n(7000, 110000)):
        cases.append(random_case(rng))
    n_argv = 2
    # pass 1: the real code + oracle; collect model lines
    lines, owners, results = [], [], []
    for c in cases:
        params = [tuple(p) for p in c["params"]]
        impl, fails, stats = check_case(c, rng, n_argv)
        out.case(c, nontrivial(c))
        results.append((c, impl, fails, stats))
        out.hist["params=%d" % len(params)] += 1
        out.hist["impl:" + ("ok" if not impl.error else impl.error + "@" + impl.stage)] += 1
        for k in c["opts"]:
            out.hist["opt:" + k] += 1
        if c.get("argvs"):
            out.hist["history:parse-mutate-parse"] += 1
        if c.get("h3"):
            out.hist["history:two-invocations-executor"] += 1
        if c.get("prog"):
            out.hist["history:program-run"] += 1
        if any(n in MACHINERY for n, _ in params):
            out.hist["names:machinery-identifier"] += 1
        if not all(n.isascii() for n, _ in params):
            out.hist["names:non-ascii-identifier"] += 1
        out.hist["history:5-generations"] += 1
        shp = c.get("shape") or []
        out.hist["shape:" + ("+".join(sorted(set(shp) - {"pk"})) or "plain")] += 1
        if any(sh == "ko" and k == "E" and any(k2 != "E" for _, k2 in params[:i])
               for i, ((_, k), sh) in enumerate(zip(params, shp))):
            out.hist["shape:no-default-after-default"] += 1
        if any(all_underscores(n) for n, _ in params):
            out.hist["underscore-only-name"] += 1
        else:
            out.hist["theorem-hypotheses-hold"] += 1  # IdentSig, NoBlankName, distinct names
        ds = [dashed(n) for n, _ in params]
        if len(set(ds)) != len(ds):
            out.hist["shared-dashed-name"] += 1
        if len(set(d[:1] for d in ds)) != len(ds):
            out.hist["shared-initial"] += 1
        if not impl.error:
            out.hist["short-flags=%d" % sum(len(a.names) - 1 for a in impl.args)] += 1
            if impl.ctx.inverse_flags:
                out.hist["has-inverse"] += 1
        for argv, kw, err in stats:
            out.hist["parse:" + (err or "ok")] += 1
        if ctx.model_ok and modelable(params, c["opts"]):
            owners.append((len(results) - 1, None))
            lines.append(model_line(params, c["opts"]))
            # an incrementable list-type parameter without default starts out as inspect.Signature.empty (contradictory
            # options; canonicalised to None): the parser model would count it as a missing positional
            degenerate = impl.args is not None and any(a.incrementable and a.default is inspect.Signature.empty for a in impl.args)
            for j, (argv, kw, err) in enumerate(stats):
                if err is None and all(argv) and not degenerate:
                    owners.append((len(results) - 1, j))
                    lines.append(model_line(params, c["opts"], argv))
        else:
            out.hist["oracle-only"] += 1
        for f in fails:
            out.hist["fail:" + f.split(" ")[0]] += 1
            if any(match_known({"id": i}, {"case": c, "why": f}) for i in list(KNOWN_SHAPE) + list(KNOWN_NAME)):
                # keep a few of the known ones, so that the (capped) failure list cannot fill up with them
                out.hist["fail:known-undeliverable-kind"] += 1
                if out.hist["fail:known-undeliverable-kind"] > 30:
                    continue
            out.fail(c, f)
    # family (c): namespaces
    tlines, towners = [], []
    for _ in range(ctx.n(500, 8000)):
        tc = random_tree(rng)
        tfails, items = check_tree(tc, rng)
        out.case(tc, True)
        out.hist["tree:tasks=%d" % len(tc["tasks"])] += 1
        out.hist["tree:contexts"] += len(items)
        names = [t["name"] for t in tc["tasks"]]
        if len(set(names)) != len(names):
            out.hist["tree:namesakes"] += 1
        if any(t.get("same_as") is not None for t in tc["tasks"]):
            out.hist["tree:same-function-other-options"] += 1
        if len(tc["bind"]) > len(tc["tasks"]):
            out.hist["tree:task-bound-more-than-once"] += 1
        for f in tfails:
            out.hist["fail:" + failure_tag(f)] += 1
            out.fail(tc, f)
        for cname, idx, canon in items:
            tk = tc["tasks"][idx]
            params = [tuple(p) for p in tk["params"]]
            if ctx.model_ok and modelable(params, tk["opts"]):
                towners.append((tc, cname, canon))
                tlines.append(model_line(params, tk["opts"]))
    # pass 2: the model
    if ctx.model_ok and (lines or tlines):
        model = drv.run(lines + tlines)
        for (tc, cname, canon), m in zip(towners, model[len(lines):]):
            out.traces += 1
            got = canon_nohelp(canon_model(m))
            if got != canon:
                out.disagree({"tree": tc, "context": cname}, canon, got)
        model = model[:len(lines)]
        for (ri, j), m in zip(owners, model):
            c, impl, fails, stats = results[ri]
            out.traces += 1
            want = impl.canon()
            got = canon_model(m)
            if j is None:
                if got != want:
                    out.disagree(c, want, got)
            else:
                argv, kws, err = stats[j]
                want2 = want + " # " + (",".join(sorted(kws.split(","))) if kws else "")
                if got != want2:
                    out.disagree({"params": c["params"], "opts": c["opts"], "argv": argv}, want2, got)
                out.hist["model-parse"] += 1
    return out


LEVEL_TEXT = ("Lean 4 proofs over ALL signatures (parameter lists over ASCII identifiers x defaults x decorator options) of the "
              "modelled Task.get_arguments / ParserContext.add_arg / as_kwargs: one argument per parameter (permutation), "
              "well-formed long flag, at most one alphanumeric short flag, all flag and inverse-flag names distinct whenever the "
              "context is built and a characterisation of the ValueError, implicit positionals in declaration order, the "
              "bool/--no- rule, kind from default, and kwargs = parameter names with own defaults; the model is tied to "
              "invoke.tasks / invoke.parser.context on every run by a differential correspondence check (exhaustive small scope "
              "+ random signatures and options, incl. parses of by-construction argvs) and a direct oracle on the real "
              "ParserContext, also along object-reuse histories (repeated generation of one Task's CLI, parse-mutate-parse); "
              "parameters named only with underscores are refused (ValueError), which the model follows")
TECHNIQUE = ("Lean 4 theorems over all signatures (induction over the parameter list with the taken-names invariant, permutation "
             "invariance of the reorder, fold invariant of add_arg) + model/implementation correspondence + oracle")
