"""C10 - CLI task names, collection lookup and listings agree for every namespace tree.

Also hosts the machinery shared with C17 (tree specs, building the REAL `Collection` through the public
API, serialising the real object for the Lean driver `drv_coll`, reference semantics for the oracles)."""
import contextlib
import copy
import io
import json
import re
import types

import common
from common import Outcome, LeanDriver

ID = "C10"
PROPS = ["Invoke/Props/C10.lean"]
TARGETS = ["drv_coll"]
DRIVER_ROOTS = ["Driver/Coll.lean"]
GENERATED = []
RULE = ("case = (namespace tree built through the public API, all candidate dotted names over the tree's vocabulary); "
        "trees of depth <= 3 with <= 3 tasks and <= 2-3 sub-collections per node: aliases on the task and via "
        "add_task(aliases=), renamed task and collection bindings, default tasks (declared / add_task(default=True)), "
        "default sub-collections at any level, underscores/dashes at inner/leading/trailing positions, "
        "auto_dash_names on/off/mixed, constructor vs method building, from_module re-import (explicit ns / implicit "
        "module) of the root or of a sub-collection; candidates = every collection path x every name of the tree "
        "(+ dash/underscore variants, empty and unknown names); a case is non-trivial when the tree has a "
        "sub-collection and an alias or a default; distinct = distinct (tree, names).  Object-reuse histories (judged by "
        "the same oracles on the FINAL state): (a) the tree built by add_task/add_collection/configure steps in random "
        "order - children attached before or after they are filled - with task_names / to_contexts / bool / in / lookup "
        "/ Parser / --list / serialized queries on the root and on intermediate collections between the steps, compared "
        "with a twin built at once; (b) one or two Program objects serving a sequence of command lines (scoped, plain, "
        "depth-limited listings in every format, task runs), every run compared with a fresh Program; (c) a "
        "sub-collection object mounted under a second root, both roots queried, then tasks / aliases / defaults / "
        "sub-collections added to already-mounted nested collections; (d) trees obtained by Collection.from_module (explicit "
        "ns / namespace, name and auto_dash_names given or not; module of plain tasks) and by copy.deepcopy, queried, "
        "extended at any depth, queried again, the ORIGINAL checked afterwards; (e) ONE Collection object bound under two "
        "names (same parent or two parents, depth 1-3; in the model two subtrees): all listing formats plus `--list "
        "<namespace>` and `--list-depth` must show every accepted task once per binding path; a history case = (tree, "
        "history kind, history seed)")
TRUSTED = ["Lean 4.33 kernel", "axioms propext/Classical.choice/Quot.sound only",
           "harness/props/c10.py: tree builder, serialisation of the real object, canonicalisation, listing parsers",
           "model Invoke/Model/Collection.lean hand-written, tied to invoke.collection / Program._make_pairs by the "
           "correspondence run on every check",
           "CPython dict/str semantics; vendored Lexicon (modelled: alias table consulted first)"]
ASSUMPTIONS = ["theorems assume a well-formed tree (Coll.wf: names non-empty, dot-free, normalised by their own "
               "collection, pairwise distinct per collection, aliases point at tasks) - exactly what add_task / "
               "add_collection / from_module produce when no two names clash; clashing trees are compared "
               "model-vs-code only",
               "names with an empty component ('sub.', 'a..b') are not canonical dotted names (don't-care for the oracle)",
               "flat and nested listings must show root-normalised (CLI) names on every well-formed tree, mixed "
               "auto_dash_names included; the JSON listing describes each collection locally: its task records must carry "
               "the binding name and aliases in the holding collection's own spelling (it cannot be read as dotted CLI "
               "names anyway: collection-node names are unconstrained)",
               "the `name` field of collection nodes in the JSON listing is not constrained (adjudicated don't-care)"]
LEVEL_TEXT = ("Lean 4 proofs over ALL well-formed namespace trees and all component-wise names: the names accepted by "
              "Parser(contexts=to_contexts()) are exactly the canonical names task_with_config resolves "
              "(cli_names_eq_lookup), an accepted name runs the task lookup returns (accepted_runs_lookup), the "
              "flat/nested/json listings contain each task binding exactly once with exactly its aliases and agree "
              "with each other (listing_once_all_formats, listings_agree), in every well-formed tree - mixed auto_dash_names "
              "included - each task appears exactly once under its primary name - primary names are pairwise distinct - "
              "with its aliases "
              "(primary_names_distinct, listing_once, listing_aliases_match), and transform is idempotent / last-wins so every name is normalised consistently "
              "(transform_consistent); the model is tied to invoke.collection + Program listing code on every run by "
              "a differential check on generated trees (real objects serialised) and direct oracles")
TECHNIQUE = ("Lean 4 theorems by induction over the namespace tree (custom induction principle for the nested "
             "inductive) + model/implementation correspondence + direct Python oracles through Parser and Program.run")

# ------------------------------------------------------------------------------------------ vocabulary

FN = ["a", "b", "build", "my_task", "x_y", "t", "_lead", "trail_", "deep_task_x"]
CN = ["sub", "ns_a", "deep", "c", "in_ner", "co-ll"]
SAFE = re.compile(r"^[A-Za-z0-9_\-]*$")


def norm(ad, s):
    """reference normalisation of ONE component: inner '_' -> '-' (auto-dash on) or inner '-' -> '_' (off);
    the first and the last character are never touched"""
    fr, to = ("_", "-") if ad else ("-", "_")
    if len(s) < 3:
        return s
    return s[0] + s[1:-1].replace(fr, to) + s[-1]


def norm_dotted(ad, s):
    return ".".join(norm(ad, x) for x in s.split("."))


# ------------------------------------------------------------------------------------------ tree specs

def eff_ad(node):
    """the auto_dash_names the built collection ends up with"""
    m = node.get("module")
    if m is not None:
        return True if m.get("ad") is None else bool(m["ad"])
    return True if node.get("ad") is None else bool(node["ad"])


def eff_cfg(node):
    m = node.get("module")
    cfg = copy.deepcopy(node.get("cfg") or {})
    if m is not None and m.get("config"):
        try:
            ref_merge_into(cfg, m["config"])
        except Clash:
            return None
    return cfg


class Clash(Exception):
    pass


def ref_merge_into(base, upd):
    """reference deep merge: upd wins at each individual setting, sections are merged recursively"""
    for k, v in upd.items():
        if isinstance(v, dict):
            if k in base and not isinstance(base[k], dict):
                raise Clash(k)
            tgt = base.setdefault(k, {})
            ref_merge_into(tgt, v)
        else:
            if isinstance(base.get(k), dict):
                raise Clash(k)
            base[k] = copy.deepcopy(v)
    return base


def gen_cfg(rng, rich, depth=0):
    out = {}
    if depth == 0:
        keys = rng.sample(["sec", "k1", "k2", "opt"], rng.randint(0, 3 if rich else 2))
        if rich and rng.random() < 0.6 and "sec" not in keys:
            keys.append("sec")
    elif depth == 1:
        keys = rng.sample(["a", "b", "sub2", "c"], rng.randint(1, 3))
    else:
        keys = rng.sample(["p", "q", "r"], rng.randint(1, 2))
    for k in keys:
        if k in ("sec", "sub2"):
            out[k] = gen_cfg(rng, rich, depth + 1)
        else:
            r = rng.random()
            if r < 0.55:
                out[k] = rng.randint(0, 9)
            elif r < 0.75:
                out[k] = rng.choice(["x", "y", "val-1"])
            elif r < 0.85:
                out[k] = rng.choice([True, False])
            elif r < 0.92:
                out[k] = None
            else:
                out[k] = [rng.randint(0, 3), rng.randint(0, 3)]
    if rich and depth == 0 and rng.random() < 0.05:
        # a dict-vs-leaf clash with what other collections usually store (AmbiguousMergeError region: don't-care)
        if rng.random() < 0.5:
            out["sec"] = 5
        else:
            out["k1"] = {"p": 1}
    return out


def gen_node(rng, depth, root_ad, opts, name=None, want_default=False):
    """one collection spec; `opts`: mixed (allow differing auto_dash), rich (configs), clash (allow name clashes)"""
    node = {"name": name, "ad": None, "tasks": [], "colls": [], "cfg": {}, "via": rng.choice(["methods", "methods", "ctor"])}
    if want_default:
        node["via"] = "methods"
    if depth == 0:
        node["ad"] = root_ad
    else:
        if opts["mixed"] and rng.random() < 0.5:
            node["ad"] = not root_ad
        elif not root_ad:
            node["ad"] = False  # uniform tree with the flag off
        elif rng.random() < 0.3:
            node["ad"] = True
    have_default = False
    taken = set()
    ad = True if node["ad"] is None else node["ad"]
    ntasks = rng.randint(1 if depth == 0 else 0, 3)
    for fn in rng.sample(FN, ntasks):
        t = {"fn": fn, "tname": None, "own": [], "bind": None, "extra": [], "default": None}
        r = rng.random()
        if r < 0.2:
            t["tname"] = rng.choice(["named_" + fn, "n-" + fn, fn])
        if rng.random() < 0.35:
            t["own"] = rng.sample(["al_" + fn, "z" + fn, "o-" + fn + "_q"], rng.randint(1, 2))
        if rng.random() < 0.3:
            t["bind"] = rng.choice(["bound_" + fn, "r-" + fn, "b_" + fn + "_"])
        if rng.random() < 0.3:
            t["extra"] = rng.sample(["xa_" + fn, "e-" + fn, "x" + fn], rng.randint(1, 2))
        if node["via"] == "ctor":
            t["extra"] = []
        local = norm(ad, t["bind"] or t["tname"] or fn)
        names = [local] + [norm(ad, x) for x in t["own"] + t["extra"]]
        if not opts["clash"] and (len(set(names)) != len(names) or set(names) & taken):
            continue
        if opts["clash"] and (names[0] in names[1:] or names[0] in taken):
            continue  # an alias of a task to itself / onto an earlier key loops or overwrites: not generated
        if not have_default and rng.random() < (0.5 if want_default else 0.3):
            t["default"] = rng.choice(["add", "decl"]) if node["via"] == "methods" else "decl"
            have_default = True
        taken |= set(names)
        node["tasks"].append(t)
    if depth < 2:
        nk = rng.choice([0, 1, 1, 2, 2, 3]) if depth == 0 else rng.choice([0, 0, 1, 1, 2])
        for cn in rng.sample(CN, nk):
            mk_default = (not have_default) and node["via"] == "methods" and rng.random() < (0.7 if want_default else 0.4)
            sub = gen_node(rng, depth + 1, root_ad, opts, name=cn if rng.random() < 0.8 else None, want_default=mk_default)
            k = {"node": sub, "bind": None, "default": False}
            if sub["name"] is None or rng.random() < 0.2:
                k["bind"] = rng.choice(["re_" + cn, cn, "k-" + cn])
            local = norm(ad, k["bind"] or sub["name"])
            if local in taken:
                continue
            may_module = root_ad or opts["mixed"]
            if mk_default and not have_default:
                k["default"] = True
                have_default = True
            r = rng.random()
            if not may_module:
                pass
            elif r < 0.12 and has_tasks(sub):  # an `ns` without any task is falsy and from_module ignores it
                sub["module"] = {"kind": "ns", "given": None, "ad": None, "config": None, "modname": "mod_" + cn}
            elif r < 0.18 and not sub["colls"] and all(not t["extra"] and not t["bind"] for t in sub["tasks"]):
                sub["module"] = {"kind": "implicit", "given": None, "ad": None, "config": None, "modname": "mod_" + cn}
                sub["cfg"] = {}
                for t in sub["tasks"]:
                    if t["default"] == "add":
                        t["default"] = "decl"
            taken.add(local)
            node["colls"].append(k)
    if want_default and not have_default and node["via"] == "methods":
        # the parent made this collection its default: give it a default of its own (a chain when it is a sub-collection)
        plain_kids = [k for k in node["colls"] if not k["node"].get("module")]
        if plain_kids and rng.random() < 0.6:
            k = plain_kids[0]
            k["default"] = True
            if k["node"]["via"] == "methods" and k["node"]["tasks"] and not any(t["default"] for t in k["node"]["tasks"]) \
                    and not any(kk["default"] for kk in k["node"]["colls"]):
                k["node"]["tasks"][0]["default"] = "add"
            have_default = True
        elif node["tasks"]:
            node["tasks"][0]["default"] = "add"
            have_default = True
    if opts["clash"] and node["via"] == "methods" and rng.random() < 0.5:
        # deliberately ill-formed: an alias that is also another task's or a sub-collection's name
        victims = [norm(ad, t["bind"] or t["tname"] or t["fn"]) for t in node["tasks"]]
        kids = [norm(ad, k["bind"] or k["node"]["name"] or "x") for k in node["colls"]]
        if len(node["tasks"]) >= 2 and rng.random() < 0.6:
            i, j = rng.sample(range(len(node["tasks"])), 2)
            if i > j:  # the alias shadows a task added EARLIER (a later one would overwrite / loop)
                node["tasks"][i]["extra"] = node["tasks"][i]["extra"] + [victims[j]]
        elif node["tasks"] and kids:
            node["tasks"][-1]["extra"] = node["tasks"][-1]["extra"] + [rng.choice(kids)]
            node["order"] = "colls_first"
    node["cfg"] = gen_cfg(rng, opts["rich"]) if rng.random() < (0.85 if opts["rich"] else 0.4) else {}
    if depth == 0 and rng.random() < 0.25 and has_tasks(node):
        node["module"] = {"kind": "ns", "given": rng.choice([None, None, "given_name"]),
                          "ad": (rng.choice([None, root_ad, not root_ad]) if opts["mixed"] else (rng.choice([None, True]) if root_ad else False)),
                          "config": gen_cfg(rng, opts["rich"]) if rng.random() < 0.5 else None, "modname": "pkg.tasks_mod"}
    return node


def has_tasks(node):
    return bool(node["tasks"]) or any(has_tasks(k["node"]) for k in node["colls"])


def gen_tree(rng, rich=False):
    r = rng.random()
    opts = {"mixed": r < 0.15, "clash": 0.15 <= r < 0.22, "rich": rich}
    root_ad = rng.random() < 0.7
    return gen_node(rng, 0, root_ad, opts)


# ------------------------------------------------------------------------------------------ building the REAL tree

RUNLOG = []
WATCH_KEYS = ("sec", "k1", "k2", "opt")


class Built:
    def __init__(self):
        self.next_id = 0
        self.tasks = {}  # vid -> info
        self.before_module = []  # (ns object enc, module params, result)


def plain(v):
    """DataProxy / dict -> plain python"""
    if hasattr(v, "items") and not isinstance(v, dict):
        return {k: plain(x) for k, x in v.items()}
    if isinstance(v, dict):
        return {k: plain(x) for k, x in v.items()}
    return v


def make_task(b, spec):
    from invoke import task
    b.next_id += 1
    vid = b.next_id

    def body(c):
        snap = {}
        for k in WATCH_KEYS:
            try:
                snap[k] = plain(c.config[k])
            except KeyError:
                pass
        RUNLOG.append((vid, snap))
    body.__name__ = spec["fn"]
    body.__doc__ = None
    kw = {}
    if spec["tname"] is not None:
        kw["name"] = spec["tname"]
    if spec["own"]:
        kw["aliases"] = tuple(spec["own"])
    if spec["default"] == "decl":
        kw["default"] = True
    t = task(**kw)(body) if kw else task(body)
    t._vid = vid
    return t, vid


def build(node, b, is_root=True):
    """spec -> real Collection (raises ValueError when the API refuses the tree)"""
    from invoke import Collection
    m = node.get("module")
    kw = {}
    if node.get("ad") is not None:
        kw["auto_dash_names"] = node["ad"]
    tasks = []
    for ts in node["tasks"]:
        t, vid = make_task(b, ts)
        ts["_vid"] = vid
        tasks.append((ts, t))
    kids = []
    for ks in node["colls"]:
        kids.append((ks, build(ks["node"], b, is_root=False)))
    if m is not None and m["kind"] == "implicit":
        mod = types.ModuleType(m["modname"])
        for ts, t in tasks:
            setattr(mod, "v_" + ts["fn"], t)
        return mod if not is_root else Collection.from_module(mod)
    args = [node["name"]] if node["name"] is not None else []
    if node["via"] == "ctor":
        pos, named = [], {}
        for ts, t in tasks:
            if ts["bind"] is not None:
                named[ts["bind"]] = t
            else:
                pos.append(t)
        for ks, sub in kids:
            if ks["bind"] is not None:
                named[ks["bind"]] = sub
            else:
                pos.append(sub)
        c = Collection(*(args + pos), **dict(kw, **named))
    else:
        c = Collection(*args, **kw)
        if node.get("order") == "colls_first":
            for ks, sub in kids:
                c.add_collection(sub, name=ks["bind"], default=True if ks["default"] else None)
        for ts, t in tasks:
            c.add_task(t, name=ts["bind"], aliases=tuple(ts["extra"]) or None,
                       default=True if ts["default"] == "add" else None)
        if node.get("order") != "colls_first":
            for ks, sub in kids:
                c.add_collection(sub, name=ks["bind"], default=True if ks["default"] else None)
    if node.get("cfg"):
        c.configure(copy.deepcopy(node["cfg"]))
    if m is not None:
        mod = types.ModuleType(m["modname"])
        mod.ns = c
        if not is_root:
            return mod
        before = enc(c)
        res = Collection.from_module(mod, name=m["given"], config=copy.deepcopy(m["config"]), auto_dash_names=m["ad"])
        b.before_module.append((before, m, res))
        return res
    return c


def kid_raw(ks):
    """the name a sub-collection is bound under, before normalisation"""
    if ks["bind"]:
        return ks["bind"]
    sub = ks["node"]
    m = sub.get("module")
    if m is not None and m["kind"] == "implicit":
        return m["modname"].split(".")[-1]
    if m is not None:
        # from_module(module) names the copy after ns.name or the module, normalised with auto-dash ON
        return norm(True, sub["name"] or m["modname"].split(".")[-1])
    return sub["name"]


def index_tree(node, real, path_specs, path_keys, b, out):
    """walk spec and real tree in parallel; record for every task binding its holder path"""
    ad = eff_ad(node)
    for ts in node["tasks"]:
        raw = ts["bind"] or ts["tname"] or ts["fn"]
        key = norm(ad, raw)
        out.append({"vid": ts["_vid"], "raw": raw, "key": key, "holder_ad": ad, "path_keys": list(path_keys),
                    "path_nodes": path_specs + [node], "aliases_raw": ts["own"] + ts["extra"], "spec": ts,
                    "real_holder": real})
    for ks in node["colls"]:
        sub = ks["node"]
        raw = kid_raw(ks)
        key = norm(ad, raw)
        child = dict.get(real.collections, key)
        if child is None:
            raise RuntimeError("harness: sub-collection %r not found among %r" % (key, list(real.collections)))
        index_tree(sub, child, path_specs + [node], path_keys + [(raw, key)], b, out)


def default_target(node):
    """vid of the task the collection's default resolves to (following default sub-collections), per the spec"""
    for ts in node["tasks"]:
        if ts["default"]:
            return ts["_vid"]
    for ks in node["colls"]:
        if ks["default"]:
            return default_target(ks["node"])
    return None


def coll_paths(node, path_keys=()):
    yield node, list(path_keys)
    ad = eff_ad(node)
    for ks in node["colls"]:
        sub = ks["node"]
        raw = kid_raw(ks)
        yield from coll_paths(sub, tuple(path_keys) + ((raw, norm(ad, raw)),))


def well_formed(node):
    """no two local names of one collection coincide after normalisation (the spec-level 'no clashes')"""
    ad = eff_ad(node)
    names = []
    for ts in node["tasks"]:
        names.append(norm(ad, ts["bind"] or ts["tname"] or ts["fn"]))
        names += [norm(ad, x) for x in ts["own"] + ts["extra"]]
    for ks in node["colls"]:
        names.append(norm(ad, kid_raw(ks)))
    if len(set(names)) != len(names):
        return False
    return all(well_formed(ks["node"]) for ks in node["colls"])


def flags_of(node):
    s = {eff_ad(node)}
    for ks in node["colls"]:
        s |= flags_of(ks["node"])
    return s


def depth_of(node):
    return 1 + max([depth_of(ks["node"]) for ks in node["colls"]] or [0])


# ------------------------------------------------------------------------------------------ encoding for drv_coll

def enc_val(v):
    if isinstance(v, dict):
        return "{" + ",".join("%s:%s" % (k, enc_val(x)) for k, x in v.items()) + "}"
    if isinstance(v, bool):
        return "b1" if v else "b0"
    if v is None:
        return "n"
    if isinstance(v, int):
        return "i%d" % v
    s = v if isinstance(v, str) else repr(v)  # a list leaf is opaque to the merge: encoded by its repr
    return "s" + ".".join(str(ord(c)) for c in s)


def canon_val(v):
    if isinstance(v, dict):
        return "{" + ",".join(sorted("%s:%s" % (k, canon_val(x)) for k, x in v.items())) + "}"
    return enc_val(v)


def opt(s):
    return "~" if s is None else s


def enc(c):
    tasks = "&".join("%s:%d" % (k, t._vid) for k, t in dict.items(c.tasks))
    als = "&".join("%s>%s" % (a, k) for a, k in c.tasks.aliases.items())
    kids = "".join("%s=%s" % (k, enc(sc)) for k, sc in dict.items(c.collections))
    return "(%s;%d;%s;%s;%s;%s;[%s])" % (opt(c.name), 1 if c.auto_dash_names else 0, opt(c.default),
                                         enc_val(c.configuration()), tasks, als, kids)


def canon_tree(c):
    tasks = "&".join(sorted("%s:%d" % (k, t._vid) for k, t in dict.items(c.tasks)))
    als = "&".join(sorted("%s>%s" % (a, k) for a, k in c.tasks.aliases.items()))
    kids = "".join(sorted("%s=%s" % (k, canon_tree(sc)) for k, sc in dict.items(c.collections)))
    return "(%s;%d;%s;%s;%s;%s;[%s])" % (opt(c.name), 1 if c.auto_dash_names else 0, opt(c.default),
                                         canon_val(c.configuration()), tasks, als, kids)


def encodable(c):
    names = list(dict.keys(c.tasks)) + list(c.tasks.aliases) + list(c.tasks.aliases.values()) + list(dict.keys(c.collections))
    names += [c.name or "", c.default or ""]
    if not all(SAFE.match(n) for n in names):
        return False
    if (c.name == "~") or (c.default == "~") or getattr(c.collections, "aliases", None):
        return False
    return all(encodable(sc) for sc in dict.values(c.collections))


# ------------------------------------------------------------------------------------------ implementation adapters

@contextlib.contextmanager
def wide_terminal():
    """the column layout of --list is not part of the property: a long line must not make textwrap fail at 80 columns.
    Rebinds invoke.program.pty_size inside the harness process only (when it exists)."""
    import invoke.program as ip
    old = getattr(ip, "pty_size", None)
    if old is not None:
        ip.pty_size = lambda: (4000, 24)
    try:
        yield
    finally:
        if old is not None:
            ip.pty_size = old


def quiet_run(root, argv):
    from invoke import Program
    out, err = io.StringIO(), io.StringIO()
    del RUNLOG[:]
    exc = None
    try:
        with contextlib.redirect_stdout(out), contextlib.redirect_stderr(err), wide_terminal():
            Program(namespace=root).run(["prog"] + argv, exit=False)
    except BaseException as e:  # noqa
        exc = "%s: %s" % (type(e).__name__, e)
    return out.getvalue(), err.getvalue(), list(RUNLOG), exc


def impl_lookup(root, name):
    from invoke.config import AmbiguousMergeError
    try:
        t, cfg = root.task_with_config(name)
    except KeyError:
        return "ERR key", None, None
    except AmbiguousMergeError:
        return "ERR ambiguous", None, None
    except ValueError:
        return "ERR value", None, None
    return "OK %d %s" % (t._vid, canon_val(cfg)), t, cfg


def impl_views_agree(root, name, res, t, cfg):
    """the other observation points must tell the same story as task_with_config"""
    from invoke.config import AmbiguousMergeError
    try:
        inn = name in root
    except (ValueError, AmbiguousMergeError):
        inn = "raises"
    if t is not None:
        if inn is not True:
            return "`name in coll` is %r although task_with_config resolves" % (inn,)
        if root[name] is not t:
            return "coll[name] is a different task"
        if canon_val(root.configuration(name)) != canon_val(cfg):
            return "configuration(name) differs from task_with_config(name)[1]"
    elif res == "ERR key" and inn is not False:
        return "`name in coll` is %r although lookup raises KeyError" % (inn,)
    return None


def impl_names(root):
    return ";".join(sorted("%s=%s" % (k, ",".join(sorted(v))) for k, v in root.task_names.items()))


class SettingsClash(Exception):
    pass


def impl_parser(root):
    """the parser Program builds; None when Parser refuses duplicate names; SettingsClash when to_contexts cannot even
    look the tasks up because settings along a path are type-inconsistent (don't-care region)"""
    from invoke.parser import Parser
    from invoke.config import AmbiguousMergeError
    try:
        ctxs = root.to_contexts()
    except AmbiguousMergeError:
        raise SettingsClash()
    try:
        p = Parser(contexts=ctxs)
    except ValueError:
        return None
    return p


def parse_flat(text):
    out = []
    for line in text.splitlines():
        m = re.match(r"^  (\S+)(?: \((.*)\))?$", line)
        if m:
            out.append((m.group(1), [x for x in (m.group(2) or "").split(", ") if x]))
    return out


def parse_nested(text, root):
    """-> list of ('t', anc, name, star, aliases) / ('c', anc, name); collection vs task decided on the real tree"""
    out, stack = [], []
    for line in text.splitlines():
        m = re.match(r"^  ( *)(\.?)([^\s*]+)(\*?)(?: \((.*)\))?$", line)
        if not m or line.startswith("Default"):
            continue
        lvl = len(m.group(1)) // 4
        stack = stack[:lvl]
        cur = root
        for k in stack:  # displayed names are (re-)normalised: find the child whose key differs at most in '-'/'_'
            cur = next((sc for kk, sc in dict.items(cur.collections) if only_dash_diff(kk, k)), None)
            if cur is None:
                break
        name = m.group(3)
        is_coll = cur is not None and any(only_dash_diff(kk, name) for kk in dict.keys(cur.collections))
        if is_coll and not m.group(4) and m.group(5) is None:
            out.append(("c", list(stack), name))
            stack.append(name)
        else:
            als = [x[1:] if x.startswith(".") else x for x in (m.group(5) or "").split(", ") if x]
            out.append(("t", list(stack), name, bool(m.group(4)), als, bool(m.group(2))))
    return out


def canon_flat(pairs):
    """collection-name shortcuts shown among the aliases (a prefix of the name itself) are not constrained: dropped"""
    return ";".join(sorted("%s=%s" % (n, ",".join(sorted(x for x in a if not n.startswith(x + ".")))) for n, a in pairs))


def canon_nested(lines):
    out = []
    for l in lines:
        if l[0] == "c":
            out.append("c:%s:%s" % ("/".join(l[1]), l[2]))
        else:
            out.append("t:%s:%s:%s" % ("/".join(l[1]), l[2], ",".join(sorted(l[4]))))  # the default marker '*' is not constrained
    return ";".join(sorted(out))


def canon_json(d):
    tasks = ";".join(sorted("%s=%s" % (t["name"], ",".join(sorted(t["aliases"]))) for t in d["tasks"]))
    return "{%s|%s|%s|[%s]}" % (opt(d["name"]), opt(d["default"]), tasks, ",".join(sorted(canon_json(c) for c in d["collections"])))


def listings(root):
    """the three --list formats through the real Program, parsed back"""
    res = {}
    for fmt in ("flat", "nested", "json"):
        out, err, _, exc = quiet_run(root, ["--list", "--list-format", fmt])
        res[fmt] = (out, err, exc)
    flat = parse_flat(res["flat"][0])
    nested = parse_nested(res["nested"][0], root)
    try:
        js = json.loads(res["json"][0])
    except ValueError:
        js = None
    return flat, nested, js, res


# ------------------------------------------------------------------------------------------ candidates

def vocabulary(root):
    names = set()

    def walk(c):
        names.update(dict.keys(c.tasks))
        names.update(c.tasks.aliases.keys())
        names.update(dict.keys(c.collections))
        for sc in dict.values(c.collections):
            walk(sc)
    walk(root)
    return names


def candidates(root, rng, limit):
    voc = vocabulary(root)
    voc |= {v.replace("_", "-") for v in voc} | {v.replace("-", "_") for v in voc} | {"nope"}
    prefixes = []

    def walk(c, pre):
        prefixes.append(pre)
        for k, sc in dict.items(c.collections):
            walk(sc, pre + [k])
    walk(root, [])
    cands = {"", "nope.a", "."}
    for pre in prefixes:
        variants = {tuple(pre), tuple(x.replace("_", "-") for x in pre), tuple(x.replace("-", "_") for x in pre)}
        for pv in variants:
            for v in voc:
                cands.add(".".join(list(pv) + [v]))
            if pv:
                cands.add(".".join(pv) + ".")
    cands = sorted(cands)
    if len(cands) > limit:
        keep = set(rng.sample(cands, limit))
        # always keep every name the tree itself defines in canonical spelling
        for k, v in root.task_names.items():
            keep.add(k)
            keep.update(v)
        cands = sorted(keep)
    return cands


# ------------------------------------------------------------------------------------------ oracles (state C10 directly)

def is_canonical(root_ad, n):
    return n != "" and all(x != "" for x in n.split(".")) and norm_dotted(root_ad, n) == n


def only_dash_diff(a, b):
    return a.replace("-", "_") == b.replace("-", "_")


def expected_bindings(spec, root, b):
    """per task binding: expected primary name, aliases and shortcuts, computed from the SPEC alone"""
    infos = []
    index_tree(spec, root, [], [], b, infos)
    root_ad = eff_ad(spec)
    shortcuts = {}
    for node, pk in coll_paths(spec):
        if pk:
            tgt = default_target(node)
            if tgt is not None:
                shortcuts.setdefault(tgt, []).append(".".join(norm(root_ad, raw) for raw, _ in pk))
    for i in infos:
        pre = [norm(root_ad, raw) for raw, _ in i["path_keys"]]
        i["primary"] = ".".join(pre + [norm(root_ad, i["raw"])])
        i["aliases"] = sorted(".".join(pre + [norm(root_ad, a)]) for a in i["aliases_raw"])
        i["shortcuts"] = sorted(shortcuts.get(i["vid"], []))
        i["local_aliases"] = sorted(norm(i["holder_ad"], a) for a in i["aliases_raw"])
    return infos


def oracle_c10(spec, root, b, names, hist=None):
    """-> list of (kind, why, names involved).  Don't-care: clashing (ill-formed) trees, names with empty components."""
    fails = []
    if not well_formed(spec):
        if hist is not None:
            hist["oracle_skipped_illformed"] += 1
        return fails
    root_ad = eff_ad(spec)
    infos = expected_bindings(spec, root, b)
    try:
        parser = impl_parser(root)
    except SettingsClash:
        if hist is not None:
            hist["oracle_skipped_settings_clash"] += 1
        return fails
    if parser is None:
        return [("parser", "Parser(contexts=to_contexts()) raises ValueError on a clash-free tree", [])]
    accepted = set(dict.keys(parser.contexts)) | set(parser.contexts.aliases.keys())

    def resolves(n):
        try:
            return root[n]
        except (KeyError, ValueError):
            return None
    # (i) accepted => canonical and resolved by lookup; running it runs that very task
    for n in sorted(accepted):
        t = resolves(n)
        if t is None:
            fails.append(("accepted-not-resolved", "CLI accepts %r but the collection does not resolve it" % n, [n]))
            continue
        if not is_canonical(root_ad, n):
            fails.append(("accepted-not-canonical", "CLI accepts the non-normalised name %r" % n, [n]))
        out, err, log, exc = quiet_run(root, [n])
        ran = [v for v, _ in log]
        if ran != [t._vid]:
            fails.append(("runs-other-task", "invoking %r ran %r, lookup returns task #%d (%s)" % (n, ran, t._vid, (err or exc or "")[:80]), [n]))
    # (ii) canonical names the collection resolves are accepted
    for n in names:
        if is_canonical(root_ad, n) and n not in accepted and resolves(n) is not None:
            fails.append(("resolved-not-accepted", "%r is canonical and resolves by lookup but the CLI does not accept it" % n, [n]))
    # a sample of names that are not accepted must be refused by the program, running nothing
    rejected = [n for n in names if n not in accepted and n and not n.startswith("-")][:3]
    for n in rejected:
        out, err, log, exc = quiet_run(root, [n])
        if log:
            fails.append(("rejected-name-ran", "%r is not an accepted name but ran %r" % (n, log), [n]))
    # (iii) normalisation is consistent: every name the tree defines is accepted in its normalised spelling, for its task
    for i in infos:
        for n in [i["primary"]] + i["aliases"] + i["shortcuts"]:
            if n not in accepted:
                fails.append(("defined-name-not-accepted", "task #%d should be invocable as %r (normalised) but the CLI does not accept it" % (i["vid"], n), [n]))
            else:
                t = resolves(n)
                if t is None or t._vid != i["vid"]:
                    fails.append(("name-wrong-task", "%r should be task #%d, lookup gives %s" % (n, i["vid"], None if t is None else t._vid), [n]))
        if parser is not None and i["primary"] in accepted and dict.__contains__(parser.contexts, i["primary"]) is False:
            fails.append(("primary-is-alias", "primary name %r is only an alias in the parser" % i["primary"], [i["primary"]]))
    # (iv) listings: each binding exactly once, under its primary name, with exactly its aliases
    fails += oracle_listings(spec, root, infos)
    return fails


def oracle_listings(spec, root, infos):
    fails = []
    flat, nested, js, raw = listings(root)
    coll_names = set()
    root_ad = eff_ad(spec)
    for node, pk in coll_paths(spec):
        if pk:
            coll_names.add(".".join(norm(root_ad, r) for r, _ in pk))
            coll_names.add(".".join(k for _, k in pk))
    # ---- flat
    listed = {}
    for n, als in flat:
        listed.setdefault(n, []).append(als)
    for i in infos:
        got = listed.get(i["primary"])
        if got is None:
            alt = [n for n in listed if only_dash_diff(n, i["primary"])]
            if alt:
                fails.append(("listing-dash-spelling", "flat listing shows task #%d as %r, its CLI name is %r" % (i["vid"], alt[0], i["primary"]), [i["primary"]]))
            else:
                fails.append(("listing-missing", "flat listing lacks task %r" % i["primary"], [i["primary"]]))
            continue
        if len(got) != 1:
            fails.append(("listing-duplicate", "flat listing shows %r %d times" % (i["primary"], len(got)), [i["primary"]]))
        shown = sorted(a for a in got[0] if a not in coll_names)  # collection-name shortcuts may be shown (not demanded)
        if shown != i["aliases"]:
            kind = "listing-dash-spelling" if len(shown) == len(i["aliases"]) and all(only_dash_diff(x, y) for x, y in zip(sorted(shown), i["aliases"])) else "listing-aliases"
            fails.append((kind, "flat listing shows %r with aliases %r, expected %r" % (i["primary"], shown, i["aliases"]), [i["primary"]]))
    extra = [n for n in listed if n not in {i["primary"] for i in infos}]
    for n in extra:
        if not any(only_dash_diff(n, i["primary"]) for i in infos):
            fails.append(("listing-unknown", "flat listing shows %r which is no task's primary name" % n, [n]))
    # ---- nested: a task line sits under the chain of its collection lines
    fold = lambda x: x.replace("-", "_")  # noqa: E731
    nl = {}
    for l in nested:
        if l[0] == "t":
            nl.setdefault((tuple(fold(x) for x in l[1]), fold(l[2])), []).append(l)
    for i in infos:
        want_anc = tuple(norm(root_ad, raw) for raw, _ in i["path_keys"])
        want_name = norm(root_ad, i["raw"])
        anc = want_anc
        got = nl.get((tuple(fold(x) for x in want_anc), fold(want_name)))
        if got is None:
            fails.append(("listing-missing", "nested listing lacks task %r under %r" % (want_name, want_anc), [i["primary"]]))
            continue
        if len(got) != 1:
            fails.append(("listing-duplicate", "nested listing shows %r %d times" % (i["primary"], len(got)), [i["primary"]]))
        if (tuple(got[0][1]), got[0][2]) != (want_anc, want_name):
            fails.append(("listing-dash-spelling", "nested listing shows task #%d as %s, its CLI name is %r" % (i["vid"], "/".join(list(got[0][1]) + [got[0][2]]), i["primary"]), [i["primary"]]))
        shown = sorted(got[0][4])
        want_als = sorted(norm(root_ad, a) for a in i["aliases_raw"])
        if shown != want_als:
            kind = "listing-dash-spelling" if len(shown) == len(want_als) and all(only_dash_diff(x, y) for x, y in zip(shown, want_als)) else "listing-aliases"
            fails.append((kind, "nested listing shows %r with aliases %r, expected %r" % (i["primary"], shown, want_als), [i["primary"]]))
        if bool(got[0][5]) != bool(anc):
            fails.append(("listing-dot", "nested listing: leading dot of %r does not match its depth" % want_name, [i["primary"]]))
    if len([l for l in nested if l[0] == "t"]) != len(infos):
        fails.append(("listing-count", "nested listing has %d task lines for %d tasks" % (len([l for l in nested if l[0] == "t"]), len(infos)), []))
    # ---- json: walk the real tree and the document in parallel (collection node names are not constrained)
    if js is None:
        fails.append(("listing-json", "json listing is not valid JSON (%s)" % (raw["json"][1] or raw["json"][2]), []))
    else:
        by_holder = {}
        for i in infos:
            by_holder.setdefault(id(i["real_holder"]), []).append(i)

        def walk(c, doc, where):
            # (an object bound under two names gives two bindings per task but ONE json node per binding path)
            want = sorted(set((i["key"], tuple(i["local_aliases"])) for i in by_holder.get(id(c), [])))
            want = [(k, list(a)) for k, a in want]
            got = sorted((t["name"], sorted(t["aliases"])) for t in doc.get("tasks", []))
            if got != want:
                fails.append(("listing-json", "json node %s lists tasks %r, expected %r" % (where or "<root>", got, want), []))
            kids = list(dict.items(c.collections))
            docs = list(doc.get("collections", []))
            if len(kids) != len(docs):
                fails.append(("listing-json", "json node %s has %d collections, the tree %d" % (where, len(docs), len(kids)), []))
                return
            # match children structurally: same multiset of canonical sub-documents (names of nodes ignored)
            def shape(cc):
                return (sorted((k, sorted(cc.tasks.aliases_of(k))) for k in dict.keys(cc.tasks)), sorted(shape(x) for x in dict.values(cc.collections)))

            def dshape(dd):
                return (sorted((t["name"], sorted(t["aliases"])) for t in dd["tasks"]), sorted(dshape(x) for x in dd["collections"]))
            rest = list(docs)
            for k, sc in kids:
                m = [d for d in rest if dshape(d) == shape(sc)]
                if not m:
                    fails.append(("listing-json", "json node %s has no entry matching sub-collection %r" % (where, k), []))
                    continue
                rest.remove(m[0])
                walk(sc, m[0], where + "/" + k)
        walk(root, js, "")
    return fails


# ------------------------------------------------------------------------------------------ run

def tree_queries(root, names, parser_ok):
    qs = ["N", "P", "F", "T", "J", "W", "U", "D"]
    for n in names:
        qs.append("L" + n)
    if parser_ok:
        for n in names:
            qs.append("C" + n)
    return qs


def impl_answers(root, names, parser, flat, nested, js):
    if parser is None:  # the Program cannot even build its parser: there is no listing to compare
        ans = [impl_names(root), "dup", None, None, None, None, None, None]
    else:
        ans = [impl_names(root), "ok", canon_flat(flat), canon_nested(nested),
               canon_json(js) if js is not None else "bad-json", None, None, None]
    notes = []
    for n in names:
        res, t, cfg = impl_lookup(root, n)
        ans.append(res)
        why = impl_views_agree(root, n, res, t, cfg)
        if why:
            notes.append("%r: %s" % (n, why))
    if parser is not None:
        for n in names:
            if n in parser.contexts:
                try:
                    ans.append("RUN %d" % root[parser.contexts[n].name]._vid)
                except (KeyError, ValueError):
                    ans.append("ERR")
            else:
                ans.append("REJ")
    return ans, notes


def features(spec):
    f = []
    nodes = [n for n, _ in coll_paths(spec)]
    f.append("depth%d" % depth_of(spec))
    if len(flags_of(spec)) > 1:
        f.append("mixed_dash")
    elif not eff_ad(spec):
        f.append("dash_off")
    if any(n.get("module") for n in nodes):
        f.append("from_module")
    if any(t["extra"] for n in nodes for t in n["tasks"]):
        f.append("add_task_aliases")
    if any(t["own"] for n in nodes for t in n["tasks"]):
        f.append("task_aliases")
    if any(t["bind"] for n in nodes for t in n["tasks"]):
        f.append("renamed_task")
    if any(k["bind"] for n in nodes for k in n["colls"]):
        f.append("renamed_coll")
    if any(k["default"] for n in nodes for k in n["colls"]):
        f.append("default_subcoll")
    if any(k["default"] and any(kk["default"] for kk in k["node"]["colls"]) for n in nodes for k in n["colls"]):
        f.append("default_chain2")
    if any(t["default"] for n in nodes for t in n["tasks"]):
        f.append("default_task")
    if not well_formed(spec):
        f.append("clash")

    def shared(node, above):
        secs = set(k for k, v in (eff_cfg(node) or {}).items() if isinstance(v, dict))
        if node["tasks"] and any(secs & a for a in above):
            return True
        return any(shared(k["node"], above + [secs]) for k in node["colls"])
    if shared(spec, []):
        f.append("shared_section_on_path")
    return f


def strip(spec):
    """spec without the bookkeeping added while building (JSON-serialisable, replayable)"""
    if isinstance(spec, dict):
        return {k: strip(v) for k, v in spec.items() if not k.startswith("_")}
    if isinstance(spec, list):
        return [strip(x) for x in spec]
    return spec


def build_case(spec):
    b = Built()
    spec = copy.deepcopy(spec)
    root = build(spec, b)
    return spec, root, b


def transform_cases(rng, n):
    alpha = "ab_-."
    out = []
    for _ in range(n):
        s = "".join(rng.choice(alpha) for _ in range(rng.randint(0, 7)))
        out.append((rng.random() < 0.5, s))
    out += [(True, "_a_b_"), (False, "-a-b-"), (True, "a_.b_c._d"), (True, "__x__"), (False, "a-_b"), (True, ""), (True, "_"), (True, "a_b")]
    return out


def nontrivial_c10(spec, feats):
    return bool(spec["colls"]) and any(f in feats for f in ("task_aliases", "add_task_aliases", "default_task", "default_subcoll"))


def run_trees(ctx, out, rich, oracle, ntrees, cand_limit, nontrivial=nontrivial_c10):
    """generate trees, observe the real code, ask the Lean model the same questions, evaluate `oracle`"""
    rng = ctx.rng
    drv = LeanDriver("drv_coll")
    lines, expect = [], []
    nq = 0
    for _ in range(ntrees):
        spec = gen_tree(rng, rich=rich)
        try:
            spec2, root, b = build_case(spec)
        except ValueError:
            out.hist["api_refused_tree"] += 1
            continue
        except RecursionError:
            out.hist["illformed_recursion"] += 1
            continue
        names = candidates(root, rng, cand_limit)
        case = {"tree": strip(spec), "names": names}
        feats = features(spec2)
        try:
            try:
                parser, pstate = impl_parser(root), None
                pstate = "ok" if parser is not None else "dup"
            except SettingsClash:
                parser, pstate = None, "settings_clash"
            flat, nested, js, _ = listings(root) if parser is not None else ([], [], None, None)
            ans, notes = impl_answers(root, names, parser, flat, nested, js)
            if pstate == "settings_clash":
                ans[1] = None
        except RecursionError:
            out.hist["illformed_recursion"] += 1
            continue
        except Exception as e:  # the real code raised where the modelled interface never does
            out.case(case, True)
            if well_formed(spec2):
                out.hist["fail_unexpected-exception"] += 1
                out.fail({"tree": strip(spec), "names": names[:8], "check": "unexpected-exception"},
                         "unexpected-exception: observing the tree raised %s: %s" % (type(e).__name__, e))
            else:
                out.hist["illformed_exception"] += 1
            continue
        for f in feats:
            out.hist[f] += 1
        out.case(case, nontrivial(spec2, feats))
        for n in notes:
            out.fail({"tree": strip(spec), "names": names, "check": "views"}, "observation points disagree: " + n)
        out.hist["parser_" + pstate] += 1
        for a in ans[8:8 + len(names)]:
            out.hist["lookup_" + "_".join(a.split(" ")[:2 if a.startswith("ERR") else 1])] += 1
        if parser is not None:
            for a in ans[8 + len(names):]:
                out.hist["cli_" + a.split(" ")[0]] += 1
        if ctx.model_ok and encodable(root):
            qs = tree_queries(root, names, parser is not None)
            lines.append(enc(root) + "".join("\t" + q for q in qs))
            expect.append((case, qs, ans))
            nq += len(qs)
            for before, m, res in (b.before_module if well_formed(spec2) else []):
                # the re-import is asked on the ns object as it was BEFORE from_module (clashing lexicons lose
                # entries when deep-copied: not modelled)
                q = "M%d;%s;%s;%s" % (1 if m["ad"] is None else int(m["ad"]), opt(m["given"]), m["modname"].split(".")[-1], enc_val(m["config"] or {}))
                lines.append(before + "\t" + q)
                expect.append((case, [q], [canon_tree(res)]))
                out.hist["from_module_op"] += 1
                nq += 1
        elif ctx.model_ok:
            out.hist["not_encodable"] += 1
        seen_kinds = set()
        try:
            found = oracle(spec2, root, b, names, out.hist)
        except RecursionError:
            found = []
        except Exception as e:
            found = [("unexpected-exception", "evaluating the property on the tree raised %s: %s" % (type(e).__name__, e), [])]
        for kind, why, involved in found:
            out.hist["fail_" + kind] += 1
            if kind in seen_kinds:
                continue  # one record per kind and tree (the list of recorded failures is bounded)
            seen_kinds.add(kind)
            out.fail({"tree": strip(spec), "names": sorted(set(involved)) or names[:5], "check": kind}, "%s: %s" % (kind, why))
    return drv, lines, expect, nq


def compare(ctx, out, drv, lines, expect):
    if not ctx.model_ok or not lines:
        return
    model = drv.run(lines)
    wf_yes = wf_no = 0
    for (case, qs, ans), ml in zip(expect, model):
        got = ml.split("\t") if qs else []
        out.traces += 1
        if len(got) != len(qs):
            out.disagree(case, "%d answers" % len(qs), ml[:300])
            continue
        for q, a, g in zip(qs, ans, got):
            if q == "W":
                wf_yes += g == "1"
                wf_no += g == "0"
                continue
            if a is None:
                continue
            if a != g:
                out.disagree({"tree": case["tree"], "names": [q[1:]] if q[0] in "LC" else [], "check": "model:" + q[:40]}, a[:400], g[:400])
                break
    out.extra["theorem_coverage"] = {"trees_wf (hypothesis of the theorems holds)": wf_yes, "trees_not_wf (search only)": wf_no}



# ------------------------------------------------------------------------------------------ object-reuse histories
# The model describes the FINAL tree.  These families reach the same final tree (or run the same argv) through a
# history on live objects - queries between construction steps, one Program serving several runs, collections mounted
# under two roots - and demand exactly what is demanded of a tree built at once / of a fresh Program.

def methodsify(spec):
    """the same tree as a sequence of add_task / add_collection / configure calls (no constructor args, no module)"""
    n = copy.deepcopy(strip(spec))

    def fix(node):
        node.pop("module", None)
        node.pop("order", None)
        node["via"] = "methods"
        for k in node["colls"]:
            fix(k["node"])
    fix(n)
    return n


def spec_nodes(node, path=()):
    yield node, path
    for i, k in enumerate(node["colls"]):
        yield from spec_nodes(k["node"], path + (i,))


def poke(hrng, root, objs, voc):
    """one query on a live object, as a Program / completion / truth test would make it; the answer is discarded"""
    from invoke.parser import Parser
    target = root if hrng.random() < 0.6 else hrng.choice(objs)
    act = hrng.choice(["names", "contexts", "bool", "in", "lookup", "parser", "list", "serialized", "cfg"])
    try:
        if act == "names":
            target.task_names
        elif act == "contexts":
            target.to_contexts()
        elif act == "bool":
            bool(target)
        elif act == "in":
            hrng.choice(voc) in target
        elif act == "lookup":
            target[hrng.choice(voc)]
        elif act == "parser":
            Parser(contexts=target.to_contexts())
        elif act == "list":
            quiet_run(target, ["--list", "--list-format", hrng.choice(["flat", "nested", "json"])])
        elif act == "serialized":
            target.serialized()
        else:
            target.configuration()
    except Exception:  # half-built trees may refuse; only the final state is judged
        pass
    return act


def build_incremental(spec, b, hrng):
    """all collections first (empty), then the add_task / add_collection / configure steps in random order - a child is
    attached to its parent before or after it is filled - with queries on the root and on intermediate collections
    between the steps"""
    from invoke import Collection
    nodes = list(spec_nodes(spec))
    objs = {}
    for node, path in nodes:
        kw = {}
        if node.get("ad") is not None:
            kw["auto_dash_names"] = node["ad"]
        objs[path] = Collection(*([node["name"]] if node["name"] is not None else []), **kw)
    steps = []
    voc = ["nope"]
    for node, path in nodes:
        for ts in node["tasks"]:
            t, vid = make_task(b, ts)
            ts["_vid"] = vid
            steps.append(("task", path, ts, t))
            voc += [ts["bind"] or ts["tname"] or ts["fn"]] + ts["own"] + ts["extra"]
        for i, ks in enumerate(node["colls"]):
            steps.append(("coll", path, ks, path + (i,)))
            voc.append(kid_raw(ks))
        if node.get("cfg"):
            steps.append(("cfg", path, node["cfg"], None))
    hrng.shuffle(steps)
    root = objs[()]
    everything = list(objs.values())
    pokes = 0
    for kind, path, x, y in steps:
        c = objs[path]
        if kind == "task":
            c.add_task(y, name=x["bind"], aliases=tuple(x["extra"]) or None, default=True if x["default"] == "add" else None)
        elif kind == "coll":
            c.add_collection(objs[y], name=x["bind"], default=True if x["default"] else None)
        else:
            c.configure(copy.deepcopy(x))
        while hrng.random() < 0.6:
            poke(hrng, root, everything, voc)
            pokes += 1
    return root, objs, pokes


def summary(root, names):
    """what a tree looks like from outside (for the comparison with a twin built at once)"""
    try:
        parser = impl_parser(root)
    except SettingsClash:
        return None
    acc = None
    if parser is not None:
        acc = sorted(set(dict.keys(parser.contexts)) | set(parser.contexts.aliases.keys()))
    flat = canon_flat(parse_flat(quiet_run(root, ["--list"])[0])) if parser is not None else None
    looks = []
    for n in names:
        res, t, cfg = impl_lookup(root, n)
        looks.append(res.split(" ")[0] if t is None else "OK")  # task identities differ between twins
    return {"names": impl_names(root), "accepted": acc, "flat": flat, "lookup": looks}


def history_incremental(spec, hseed):
    """-> (fails, stats); spec must already be methodsified"""
    import random
    hrng = random.Random(hseed)
    spec = copy.deepcopy(spec)
    b = Built()
    try:
        root, objs, pokes = build_incremental(spec, b, hrng)
    except ValueError:
        return [], {"refused": 1}
    names = candidates(root, hrng, 60)
    fails = list(oracle_c10(spec, root, b, names))
    try:
        spec2, twin, b2 = build_case(spec)
        a, t = summary(root, names), summary(twin, names)
        if a != t:
            key = [k for k in (a or {}) if (t or {}).get(k) != a[k]] if a and t else ["parser"]
            fails.append(("history-differs-from-build-at-once", "the tree built step by step (with queries in between) "
                          "differs from the same tree built at once in %s: %r vs %r" % (key[0], (a or {}).get(key[0]), (t or {}).get(key[0])), []))
    except ValueError:
        pass
    return fails, {"pokes": pokes, "steps": sum(1 for _ in spec_nodes(spec))}


def node_at(spec, root, path):
    """spec node and real collection at a path of child indices"""
    node, real = spec, root
    for i in path:
        ks = node["colls"][i]
        real = dict.get(real.collections, norm(eff_ad(node), kid_raw(ks)))
        node = ks["node"]
    return node, real


def late_addition(hrng, tnode, treal, b):
    """an already-mounted collection gains a task (with aliases, maybe as default) or a sub-collection; spec follows"""
    k = len(tnode["tasks"]) + len(tnode["colls"])
    if hrng.random() < 0.7:
        ts = {"fn": "late_task%d" % k, "tname": None, "own": ["late_alias%d" % k] if hrng.random() < 0.6 else [],
              "bind": None, "extra": ["x_late%d" % k] if hrng.random() < 0.4 else [], "default": None}
        if hrng.random() < 0.3 and default_target_local(tnode) is None:
            ts["default"] = "add"
        t, vid = make_task(b, ts)
        ts["_vid"] = vid
        treal.add_task(t, aliases=tuple(ts["extra"]) or None, default=True if ts["default"] else None)
        tnode["tasks"].append(ts)
    else:
        sub = {"name": "late_sub%d" % k, "ad": tnode.get("ad"), "tasks": [{"fn": "lt", "tname": None, "own": [], "bind": None,
               "extra": [], "default": "add"}], "colls": [], "cfg": {}, "via": "methods"}
        ks = {"node": sub, "bind": None, "default": False}
        treal.add_collection(build(sub, b, is_root=False))
        tnode["colls"].append(ks)


def history_shared(spec, hseed):
    """a tree built at once and queried; one of its sub-collections is ALSO mounted under a second root; then an
    already-mounted nested collection gains a task / an alias / a sub-collection; both roots must satisfy the property"""
    import random
    from invoke import Collection
    hrng = random.Random(hseed)
    spec = copy.deepcopy(spec)
    b = Built()
    try:
        root = build(spec, b)
    except ValueError:
        return [], {"refused": 1}
    inner = [(n, p) for n, p in spec_nodes(spec) if p]
    if not inner:
        return [], {"no_inner": 1}
    objs = [node_at(spec, root, p)[1] for _, p in spec_nodes(spec)]
    voc = sorted(vocabulary(root)) + ["nope"]
    for _ in range(hrng.randint(2, 6)):
        poke(hrng, root, objs, voc)
    quiet_run(root, ["--list"])
    # a second root mounting one of the sub-collections (the very same object) under another name
    snode, spath = hrng.choice(inner)
    shared_real = node_at(spec, root, spath)[1]
    oad = hrng.choice([eff_ad(spec), eff_ad(spec), not eff_ad(spec)])
    ospec = {"name": None, "ad": oad, "tasks": [{"fn": "other_task", "tname": None, "own": [], "bind": None, "extra": [], "default": None}],
             "colls": [{"node": snode, "bind": "shared_x", "default": False}], "cfg": {}, "via": "methods"}
    other = Collection(auto_dash_names=oad)
    ot, vid = make_task(b, ospec["tasks"][0])
    ospec["tasks"][0]["_vid"] = vid
    other.add_task(ot)
    other.add_collection(shared_real, name="shared_x")
    for _ in range(hrng.randint(1, 4)):
        poke(hrng, other, [other, shared_real], voc)
    # late additions to collections that are already mounted (and already seen through both roots)
    for _ in range(hrng.randint(1, 3)):
        tnode, tpath = hrng.choice(inner)
        treal = node_at(spec, root, tpath)[1]
        late_addition(hrng, tnode, treal, b)
        poke(hrng, root, objs, voc)
    fails = []
    names = candidates(root, hrng, 60)
    for f in oracle_c10(spec, root, b, names):
        fails.append(f)
    for kind, why, inv in oracle_c10(ospec, other, b, candidates(other, hrng, 40)):
        fails.append((kind, "[second root mounting the shared sub-collection] " + why, inv))
    return fails, {"shared": 1}


def default_target_local(node):
    return next((1 for t in node["tasks"] if t["default"]), None) or next((1 for k in node["colls"] if k["default"]), None)


def run_on(program, argv):
    out, err = io.StringIO(), io.StringIO()
    del RUNLOG[:]
    exc = None
    try:
        with contextlib.redirect_stdout(out), contextlib.redirect_stderr(err), wide_terminal():
            program.run(["prog"] + argv, exit=False)
    except BaseException as e:  # noqa
        exc = "%s: %s" % (type(e).__name__, e)
    return out.getvalue(), err.getvalue(), [v for v, _ in RUNLOG], exc


def reuse_argvs(root, hrng, accepted):
    paths = []

    def walk(c, pre):
        for k, sc in dict.items(c.collections):
            paths.append(".".join(pre + [k]))
            walk(sc, pre + [k])
    walk(root, [])
    pool = [["--list"], ["--list", "--list-format", "nested"], ["--list", "--list-format", "json"],
            ["--list", "--list-depth", "1"], ["--list-format", "nested", "--list-depth", "2", "--list"]]
    for p in paths:
        pool += [["--list", p], ["--list", p, "--list-format", "nested"], ["--list", p, "--list-depth", "1"],
                 ["--list", p, "--list-format", "json"]]
    for n in hrng.sample(sorted(accepted), min(3, len(accepted))):
        pool.append([n])
    seq = [hrng.choice(pool) for _ in range(hrng.randint(5, 9))]
    if paths:  # a scoped listing followed (not necessarily directly) by plain ones
        seq.insert(hrng.randint(0, 2), ["--list", hrng.choice(paths)] + hrng.choice([[], ["--list-format", "nested"]]))
    seq += [["--list"], ["--list", "--list-format", "nested"]]
    return seq


def history_program_reuse(spec, hseed):
    """one (or two) Program objects serve a sequence of command lines on the same namespace: every run must look
    exactly like the run of a fresh Program given the same command line"""
    import random
    from invoke import Program
    hrng = random.Random(hseed)
    try:
        spec2, root, b = build_case(spec)
        parser = impl_parser(root)
    except (ValueError, SettingsClash):
        return [], {"refused": 1}
    if parser is None:
        return [], {"refused": 1}
    accepted = set(dict.keys(parser.contexts)) | set(parser.contexts.aliases.keys())
    seq = reuse_argvs(root, hrng, accepted)
    progs = [Program(namespace=root)] + ([Program(namespace=root)] if hrng.random() < 0.4 else [])
    fails = []
    done = []
    for argv in seq:
        p = hrng.choice(progs)
        got = run_on(p, argv)
        want = run_on(Program(namespace=root), argv)
        done.append(argv)
        if got != want:
            bad = ""
            if "--list-format" not in argv or "flat" in argv:
                strange = [n for n, _ in parse_flat(got[0]) if n not in accepted and "--list" in argv and len(argv) == 1]
                if strange:
                    bad = "; it lists %r, which the CLI does not accept" % strange[:3]
            fails.append(("program-reuse", "run %d of a reused Program, argv %r after %r: output %r, a fresh Program prints %r%s"
                          % (len(done), argv, done[:-1][-3:], (got[0] or got[1] or got[3] or "")[:160], (want[0] or want[1] or want[3] or "")[:160], bad), []))
            break
    return fails, {"runs": len(done)}


def scoped_and_depth(spec, root, infos):
    """`--list <namespace>` and `--list-depth N` (flat): every task binding below the namespace / above the depth exactly
    once, under its name relative to the namespace (leading dot) resp. its primary name"""
    fails = []
    root_ad = eff_ad(spec)
    for node, pk in coll_paths(spec):
        if not pk:
            continue
        arg = ".".join(k for _, k in pk)
        out, err, _, exc = quiet_run(root, ["--list", arg])
        want = sorted("." + ".".join(norm(root_ad, r) for r, _ in (i["path_keys"][len(pk):] + [(i["raw"], None)]))
                      for i in infos if [k for _, k in i["path_keys"][:len(pk)]] == [k for _, k in pk] and len(i["path_keys"]) >= len(pk))
        got = sorted(n for n, _ in parse_flat(out))
        if want and got != want:
            fails.append(("listing-scoped", "`--list %s` shows %r, the namespace holds %r (%s)" % (arg, got, want, (err or exc or "")[:60]), []))
    for depth in (1, 2):
        out, err, _, exc = quiet_run(root, ["--list", "--list-depth", str(depth)])
        want = sorted(i["primary"] for i in infos if len(i["path_keys"]) < depth)
        got = sorted(n for n, _ in parse_flat(out))
        if got != want:
            fails.append(("listing-depth", "`--list --list-depth %d` shows tasks %r, expected %r" % (depth, got, want), []))
    return fails


def history_aliased_object(spec, hseed):
    """ONE Collection object bound under two names: in the same parent or under two different parents, at depth 1-3.
    In the model (and for the oracle) that is two subtrees; every listing format must show every CLI-accepted task
    once per binding path"""
    import random
    hrng = random.Random(hseed)
    spec = copy.deepcopy(spec)
    b = Built()
    try:
        root = build(spec, b)
    except ValueError:
        return [], {"refused": 1}
    inner = [(n, p) for n, p in spec_nodes(spec) if p]
    if not inner:
        return [], {"no_inner": 1}
    voc = sorted(vocabulary(root)) + ["nope"]
    nshare = hrng.choice([1, 1, 2])
    done = 0
    for j in range(nshare):
        snode, spath = hrng.choice(inner)
        # any parent that is not the shared collection itself nor inside it (no cycles), depth of the new binding <= 3
        parents = [(n, p) for n, p in spec_nodes(spec) if p[:len(spath)] != spath and len(p) <= 2]
        if not parents:
            continue
        pnode, ppath = hrng.choice(parents)
        sreal = node_at(spec, root, spath)[1]
        preal = node_at(spec, root, ppath)[1]
        bind = hrng.choice(["second_%d", "twin-%d", "again%d"]) % j
        try:
            preal.add_collection(sreal, name=bind)
        except ValueError:
            continue
        pnode["colls"].append({"node": snode, "bind": bind, "default": False})
        done += 1
        if hrng.random() < 0.5:
            poke(hrng, root, [root, sreal, preal], voc)
    if not done or depth_of(spec) > 4:
        return [], {"no_share": 1}
    if hrng.random() < 0.5:  # the shared object gains a task afterwards: visible through both paths
        snode, spath = hrng.choice(inner)
        late_addition(hrng, snode, node_at(spec, root, spath)[1], b)
    names = candidates(root, hrng, 60)
    fails = list(oracle_c10(spec, root, b, names))
    if well_formed(spec):
        try:
            infos = expected_bindings(spec, root, b)
            fails += scoped_and_depth(spec, root, infos)
        except SettingsClash:
            pass
    return fails, {"bindings": done}


def history_cloned(spec, hseed):
    """trees obtained by Collection.from_module (explicit ns / namespace, or a module of plain tasks) and by
    copy.deepcopy: queried, extended at any depth, queried again; the ORIGINAL must be unaffected"""
    import random
    from invoke import Collection
    hrng = random.Random(hseed)
    spec = copy.deepcopy(spec)
    b = Built()
    try:
        orig = build(spec, b)
    except ValueError:
        return [], {"refused": 1}
    if not has_tasks(spec):
        return [], {"empty": 1}
    ospec = copy.deepcopy(spec)  # the original's spec stays as it is
    how = hrng.choice(["ns", "ns", "namespace", "deepcopy", "deepcopy", "implicit"])
    dspec = spec
    if how in ("ns", "namespace"):
        mod = types.ModuleType("pkg.loaded_mod")
        setattr(mod, how, orig)
        mad = hrng.choice([None, eff_ad(spec), not eff_ad(spec)])
        clone = Collection.from_module(mod, name=hrng.choice([None, "given"]), auto_dash_names=mad)
        dspec["ad"] = True if mad is None else mad
    elif how == "deepcopy":
        clone = copy.deepcopy(orig)
    else:
        mod = types.ModuleType("plain_mod")
        dspec = {"name": "plain_mod", "ad": None, "tasks": [], "colls": [], "cfg": {}, "via": "methods"}
        for i, ts in enumerate(t for n, _ in spec_nodes(spec) for t in n["tasks"]):
            if i >= 3 or any(x["fn"] == ts["fn"] for x in dspec["tasks"]):
                continue
            ts2 = {"fn": ts["fn"], "tname": ts["tname"], "own": list(ts["own"]), "bind": None, "extra": [], "default": None}
            t, vid = make_task(b, ts2)
            ts2["_vid"] = vid
            setattr(mod, "v%d" % i, t)
            dspec["tasks"].append(ts2)
        clone = Collection.from_module(mod)
        # give it a sub-collection so that there is a nested level to extend later
        sub = {"name": "grown", "ad": None, "tasks": [{"fn": "g", "tname": None, "own": [], "bind": None, "extra": [], "default": None}],
               "colls": [], "cfg": {}, "via": "methods"}
        clone.add_collection(build(sub, b, is_root=False))
        dspec["colls"].append({"node": sub, "bind": None, "default": False})
    if not well_formed(dspec):
        return [], {"clash": 1}
    nodes = list(spec_nodes(dspec))
    objs = [node_at(dspec, clone, p)[1] for _, p in nodes]
    voc = sorted(vocabulary(clone)) + ["nope"]
    for _ in range(hrng.randint(1, 5)):  # the clone is looked at
        poke(hrng, clone, objs, voc)
    bool(clone)
    for _ in range(hrng.randint(1, 3)):  # and extended at any depth (deeper levels preferred)
        deep = [(n, p) for n, p in nodes if p]
        tnode, tpath = hrng.choice(deep if deep and hrng.random() < 0.8 else nodes)
        late_addition(hrng, tnode, node_at(dspec, clone, tpath)[1], b)
        poke(hrng, clone, objs, voc)
    fails = []
    for kind, why, inv in oracle_c10(dspec, clone, b, candidates(clone, hrng, 60)):
        fails.append((kind, "[tree obtained by %s] %s" % (how, why), inv))
    for kind, why, inv in oracle_c10(ospec, orig, b, candidates(orig, hrng, 40)):
        fails.append((kind, "[the ORIGINAL after its %s copy was extended] %s" % (how, why), inv))
    return fails, {how: 1}


HISTORIES = {"incremental": history_incremental, "shared": history_shared, "program-reuse": history_program_reuse,
             "cloned": history_cloned, "aliased-object": history_aliased_object}


def run_histories(ctx, out):
    rng = ctx.rng
    plan = [("incremental", ctx.n(90, 1500)), ("shared", ctx.n(45, 800)), ("program-reuse", ctx.n(40, 700)),
            ("cloned", ctx.n(50, 800)), ("aliased-object", ctx.n(45, 800))]
    for kind, count in plan:
        for _ in range(count):
            spec = gen_tree(rng)
            for _retry in range(4):  # these histories need a nested level
                if spec["colls"] or kind in ("program-reuse", "incremental"):
                    break
                spec = gen_tree(rng)
            if kind != "program-reuse":
                spec = methodsify(spec)
            spec = strip(spec)
            if not well_formed(spec):
                continue
            hseed = rng.randrange(1 << 30)
            case = {"tree": spec, "names": [], "history": {"kind": kind, "seed": hseed}}
            out.case(case, bool(spec["colls"]))
            try:
                fails, stats = HISTORIES[kind](spec, hseed)
            except SettingsClash:
                continue
            except RecursionError:
                continue
            except Exception as e:
                fails, stats = [("unexpected-exception", "history %s raised %s: %s" % (kind, type(e).__name__, e), [])], {}
            out.hist["history_" + kind] += 1
            for k, v in stats.items():
                out.hist["history_%s_%s" % (kind, k)] += v
            seen = set()
            for fk, why, involved in fails:
                out.hist["fail_" + fk] += 1
                if fk in seen:
                    continue
                seen.add(fk)
                out.fail(dict(case, names=sorted(set(involved)), check=fk), "%s [%s history]: %s" % (fk, kind, why))


def run(ctx):
    from invoke import Collection
    out = Outcome()
    drv, lines, expect, nq = run_trees(ctx, out, False, oracle_c10, ctx.n(300, 4000), 250 if ctx.thorough else 120)
    # transform on arbitrary strings (dots, leading/trailing/adjacent underscores and dashes)
    tcases = transform_cases(ctx.rng, ctx.n(300, 3000))
    tq = ["X%d%s" % (1 if ad else 0, s) for ad, s in tcases]
    tans = [Collection(auto_dash_names=ad).transform(s) for ad, s in tcases]
    lines.append("(~;1;~;{};;;[])" + "".join("\t" + q for q in tq))
    expect.append(({"tree": None, "names": [s for _, s in tcases][:20], "check": "transform"}, tq, tans))
    compare(ctx, out, drv, lines, expect)
    for (ad, s), got in zip(tcases, tans):
        out.hist["transform"] += 1
        if got != norm_dotted(ad, s):
            out.fail({"tree": None, "names": [s], "check": "transform", "ad": ad}, "transform(%r) = %r, reference %r" % (s, got, norm_dotted(ad, s)))
    out.extra["queries"] = nq + len(tq)
    run_histories(ctx, out)
    return out


def observe_all(root, names):
    parser = impl_parser(root)
    flat, nested, js, _ = listings(root) if parser is not None else ([], [], None, None)
    return impl_answers(root, names, parser, flat, nested, js)


def replay(case):
    if case.get("tree") is None:
        from invoke import Collection
        bad = []
        for s in case["names"]:
            for ad in ([case["ad"]] if "ad" in case else [True, False]):
                if Collection(auto_dash_names=ad).transform(s) != norm_dotted(ad, s):
                    bad.append((ad, s))
        return not bad, ("transform differs from the reference on %r" % bad) if bad else "ok"
    if case.get("history"):
        h = case["history"]
        try:
            fails, _ = HISTORIES[h["kind"]](case["tree"], h["seed"])
        except SettingsClash:
            return True, "settings along a path are type-inconsistent (don't-care)"
        except Exception as e:
            return False, "unexpected-exception: history %s raised %s: %s" % (h["kind"], type(e).__name__, e)
        kind = case.get("check")
        if kind:
            fails = [f for f in fails if f[0] == kind]
        if fails:
            return False, "; ".join("%s: %s" % (k, w) for k, w, _ in fails[:3])
        return True, "ok (%s history)" % h["kind"]
    try:
        spec, root, b = build_case(case["tree"])
    except ValueError as e:
        return True, "the API refuses this tree (%s)" % e
    try:
        observe_all(root, case["names"])
        fails = oracle_c10(spec, root, b, case["names"])
    except SettingsClash:
        return True, "settings along a path are type-inconsistent (don't-care)"
    except Exception as e:
        return False, "unexpected-exception: observing the tree raised %s: %s" % (type(e).__name__, e)
    for n in case["names"]:
        res, t, cfg = impl_lookup(root, n)
        why = impl_views_agree(root, n, res, t, cfg)
        if why:
            fails.append(("views", "%r: %s" % (n, why), [n]))
    kind = case.get("check")
    if kind:  # a replay file names the kind of failure it recorded: only that kind counts
        fails = [f for f in fails if f[0] == kind]
    if fails:
        return False, "; ".join("%s: %s" % (k, w) for k, w, _ in fails[:3])
    return True, "ok (%d names)" % len(case["names"])
