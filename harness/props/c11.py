"""C11 - clones are faithful and independent; supplied data is never mutated."""
import copy
import shutil
import tempfile

import common
import cfglib
from common import Outcome, LeanDriver
from props import c06

ID = "C11"
PROPS = ["Invoke/Props/C11.lean"]
TARGETS = ["drv_config"]
DRIVER_ROOTS = ["Driver/Config.lean"]
GENERATED = ["Clone"]
RULE = ("[family C, 20%: HANDLE HISTORIES (oracle only) - proxy handles obtained earlier and kept across later writes, loads, "
        "merges and clones, used for set/del/pop/popitem/clear/setdefault/update and reads; demanded: an edit through a live "
        "handle is effective at the root, and a clone made at any point - and of every object at the END of every history of "
        "every family - reads like its original] [family B, 50%: CLONE HISTORIES - 1-3 clone target classes with their own global defaults used REPEATEDLY; clone() / "
        "clone(into=same or other class) of the original, of a clone, of a clone-into, at any point; interleaved with edits, "
        "deletions, load_*(merge=True), load_*(merge=False) made visible by a later merge()/load/env load/write, "
        "set_runtime_path+load_runtime, set_project_location+load_project, load_shell_env] "
        "a case is one history: a real Config built from caller-held dicts (defaults, overrides, and in half of the cases "
        "system/user/project/runtime levels loaded from real JSON files that are removed afterwards), a random edit / "
        "reload history, clone() or clone(into=Subclass), then random histories on either object (and on a clone of the "
        "clone); after EVERY operation: the clone reads like the original at the moment of cloning, no other object's deep "
        "view changed, every caller-held source dict (incl. mappings handed out by Collection.configuration) deep-equals "
        "its snapshot; at the end every list value readable from one object is mutated in place and the other objects and "
        "all sources are re-compared (alias probe), and an id()-scan counts shared containers; all ops are also run through "
        "the Lean model; non-trivial = contains a clone and at least one successful mutation; distinct = distinct histories")
TRUSTED = ["Lean 4.33 kernel", "axioms propext/Classical.choice/Quot.sound only",
           "harness/cfglib.py + harness/props/c11.py (snapshot comparison, alias probe)",
           "tools/extractors/clone.py (behavioural probe of the slots a real clone carries over)",
           "model Invoke/Model/Config.lean hand-written, tied by correspondence on every run"]
ASSUMPTIONS = ["type-consistent values", "the pure Lean model (tied by correspondence) has no object identity; the heap model "
               "Model/ConfigHeap.lean used for copy_is_fresh / sources_unchanged is hand-written and NOT driven against the "
               "implementation: on the real objects independence and non-mutation of supplied data are established by "
               "snapshot comparison and the alias probe",
               "clone(into=Subclass): the clone must read like the original wherever the original defines a setting; "
               "settings only the subclass defaults define are additions"]

KNOWN_SIGS = ()  # the clone(into) overwrite was repaired in /repo; its signature is an ordinary failure again


def gen_case(rng):
    """two families: (A) a random history with a clone somewhere; (B) CLONE HISTORIES - a pool of 1-3 clone target
    classes (with their own global defaults) used REPEATEDLY, clones (plain / into the same or another class / of a
    clone / of a clone-into) at any point, interleaved with edits, deletions and level (re)loads: load_*(merge=True),
    unmerged load_*(merge=False) made visible by a later merge()/load/env load/write, set_runtime_path+load_runtime,
    set_project_location+load_project, load_shell_env"""
    # a per-user config file in the DEFAULT location while the case runs (the originals use explicit prefixes elsewhere)
    home = c06.tree(rng, dens=0.6) if rng.random() < 0.6 else None
    r = rng.random()
    if r < 0.2:
        # (C) HANDLE HISTORIES: proxy handles obtained earlier and kept across later writes / loads / merges / clones,
        # used for every kind of edit; oracle only (the model has no object identity)
        ops = c06.gen_handle_history(rng, maxlen=rng.randint(6, 24), files=rng.random() < 0.4, clone_p=0.15, levels=True)
        if not any(o["op"] == "CLONE" for o in ops):
            ops.append({"o": 0, "op": "CLONE"})
        return {"kind": "c11", "ops": ops, "nomodel": True, "home": home}
    if r < 0.5:
        ops = c06.gen_history(rng, maxlen=rng.randint(4, 26), risky=0.25, files=rng.random() < 0.5, clone_p=0.12,
                              into_p=0.3, coll_p=0.5, max_objs=3, share_p=0.25, srcedit_p=0.08, eqreload_p=0.06)
    else:
        classes = [c06.tree(rng, dens=0.45) for _ in range(rng.randint(1, 3))]
        ops = c06.gen_history(rng, maxlen=rng.randint(8, 30), risky=0.2, files=rng.random() < 0.5, clone_p=0.22,
                              into_p=0.65, coll_p=0.3, max_objs=6, classes=classes, reload_p=0.3, levels=True, share_p=0.2, srcedit_p=0.12, eqreload_p=0.08,
                              focus=rng.choice([0.0, 0.5, 0.8]))
    if not any(o["op"] == "CLONE" for o in ops):
        k = rng.randint(1, len(ops))
        while k < len(ops) and ops[k - 1]["op"] in ("LOADU", "EDITSRC"):
            k += 1
        ops.insert(k, {"o": 0, "op": "CLONE"})
    return {"kind": "c11", "ops": ops, "home": home}


def into_check(into, ov, cv):
    """clone(into=Sub) at the moment of cloning.  Returns (why, signature) or (None, None)."""
    bad = []
    for p, kind in cfglib.diff(cv, ov):
        if kind == "impl-only" and cfglib.get_path(into, list(p)) is not cfglib.ABSENT:
            continue  # an addition from the subclass defaults
        bad.append((p, kind))
    if not bad:
        return None, None
    known = all(kind == "value" and cfglib.get_path(into, list(p)) == cfglib.get_path(cv, list(p)) and
                not isinstance(cfglib.get_path(cv, list(p)), dict) for p, kind in bad)
    why = "clone(into=Subclass) reads %s where the original reads %s (paths %s)" % (
        cfglib.canon(cv), cfglib.canon(ov), [".".join(p) for p, _ in bad])
    return why, ("C11-into-overwrites-defaults" if known else "other")


def sources_check(impl):
    for label, held, snap in impl.sources:
        if cfglib.canon(held) != cfglib.canon(snap):
            return "caller-held %s data changed from %s to %s" % (label, cfglib.canon(snap), cfglib.canon(held))
    for root, name, want in impl.colls:
        got = root.configuration(name)
        if cfglib.canon(got) != cfglib.canon(want):
            return "Collection.configuration(%r) changed from %s to %s" % (name, cfglib.canon(want), cfglib.canon(got))
    return None


def list_leaves(c, view, pre=()):
    for k, v in view.items():
        if isinstance(v, dict):
            yield from list_leaves(c, v, pre + (k,))
        elif isinstance(v, list):
            yield pre + (k,)


def alias_probe(impl, views):
    """mutate every list value readable from one object in place; nothing else may change"""
    # The history is over.  Loads made with merge=False that no later operation merged are still pending, and the
    # probe's own `merge()` below would make them visible: merge every object FIRST and probe against those views
    # (what a deferred load looks like once merged is judged by the history oracle, not here).
    views = list(views)
    for b, other in enumerate(impl.objs):
        other.merge()
        views[b] = cfglib.plain(other)
    for a, c in enumerate(impl.objs):
        for p in list(list_leaves(c, views[a])):
            cur = c
            for k in p:
                cur = cur[k]
            if not isinstance(cur, list):
                continue
            cur.append("ALIASPROBE")
            try:
                why = sources_check(impl)
                if why:
                    return "in-place change of the list read at %s of object %d: %s" % (".".join(p), a, why)
                for b, other in enumerate(impl.objs):
                    if b == a:
                        continue
                    for phase in ("", " after its next merge()"):
                        if phase:
                            other.merge()
                        if cfglib.canon(cfglib.plain(other)) != cfglib.canon(views[b]):
                            return ("in-place change of the list read at %s of object %d changed object %d%s: %s -> %s"
                                    % (".".join(p), a, b, phase, cfglib.canon(views[b]), cfglib.canon(cfglib.plain(other))))
            finally:
                if cur and cur[-1] == "ALIASPROBE":
                    cur.pop()
    return None


def shared_containers(impl):
    """informational id()-scan: (a) containers reachable from two config objects, (b) containers INSIDE caller-held
    data that a config object reaches other than through the level slot holding that very dict"""
    tops = {id(held) for _, held, _ in impl.sources}
    graphs = [cfglib.object_graph_ids(c) for c in impl.objs]
    between = 0
    for i in range(len(graphs)):
        for j in range(i + 1, len(graphs)):
            between += len(set(graphs[i]) & set(graphs[j]))
    inner = set()
    for _, held, _ in impl.sources:
        inner |= set(cfglib.dict_ids(held)) - {id(held)}
    with_sources = 0
    for c in impl.objs:
        with_sources += len(set(cfglib.object_graph_ids(c, stop=tops)) & inner)
    return between, with_sources


class HomeDir:
    """ENVIRONMENT dimension: $HOME points at a scratch directory holding a per-user config file in the DEFAULT
    location (~/.invoke.json) for the duration of one case; the real home is never touched and HOME is restored.
    (/etc/invoke.* - the default system location - cannot be provided without writing outside the scratch area.)"""
    count = 0

    def __init__(self, tmpdir, data):
        self.tmpdir, self.data = tmpdir, data

    def __enter__(self):
        import json
        import os
        self.saved = os.environ.get("HOME")
        if self.data is None:
            return self
        HomeDir.count += 1
        home = os.path.join(self.tmpdir, "home%d" % HomeDir.count)
        os.makedirs(home, exist_ok=True)
        with open(os.path.join(home, ".invoke.json"), "w") as fd:
            json.dump(self.data, fd)
        os.environ["HOME"] = home
        return self

    def __exit__(self, *a):
        import os
        if self.saved is None:
            os.environ.pop("HOME", None)
        else:
            os.environ["HOME"] = self.saved


def run_case(case, tmpdir):
    with HomeDir(tmpdir, case.get("home")):
        return _run_case(case, tmpdir)


def _run_case(case, tmpdir):
    """returns (ops run, impl rows, failure|None, signature|None, stats)"""
    ops = case["ops"]
    impl = cfglib.Impl(tmpdir)
    results, allviews, prev = [], [], []
    fail, sig = None, None
    for i, op in enumerate(ops):
        r = impl.apply(op)
        vs = []
        for c in impl.objs:
            try:
                vs.append(cfglib.plain(c))
            except Exception as e:
                vs.append("!" + cfglib.errname(e))
        results.append(r)
        allviews.append(vs)
        o = op.get("o", 0)
        if cfglib.is_internal(r) or any(isinstance(v, str) for v in vs):
            fail, sig = "internal error %s from %s" % (r, cfglib.op_txt(op)), "other"
            break
        if impl.violation:
            fail, sig = impl.violation, "other"
            break
        if op["op"] == "FRESH" and not r.startswith("E:"):
            if cfglib.canon(vs[-1]) != cfglib.canon(op["into"]):
                fail, sig = ("a fresh instance of clone target class %s reads %s, its global defaults are %s" % (
                    op.get("cls"), cfglib.canon(vs[-1]), cfglib.canon(op["into"]))), "other"
        if op["op"] == "CLONE" and not r.startswith("E:") and o not in impl.stale:
            if op.get("into") is None:
                if cfglib.canon(vs[-1]) != cfglib.canon(vs[o]):
                    fail, sig = "clone reads %s, the original %s" % (cfglib.canon(vs[-1]), cfglib.canon(vs[o])), "other"
            else:
                fail, sig = into_check(op["into"], vs[o], vs[-1])
        if not fail:
            for j, pv in enumerate(prev):
                if (j != o or op["op"] in ("CLONE", "FRESH")) and cfglib.canon(pv) != cfglib.canon(vs[j]):
                    fail, sig = "%s on object %d changed object %d: %s -> %s" % (
                        cfglib.op_txt(op), o, j, cfglib.canon(pv), cfglib.canon(vs[j])), "other"
                    break
        if not fail:
            why = sources_check(impl)
            if why:
                fail, sig = "after %s on object %d: %s" % (cfglib.op_txt(op), o, why), "other"
        if fail:
            break
        prev = vs
    stats = {}
    if not fail and allviews:
        why = cfglib.final_clone_check(impl)
        if why:
            fail, sig = why, "other"
    if not fail and allviews:
        why = alias_probe(impl, allviews[-1])
        if why:
            fail, sig = why, "other"
        stats["shared"], stats["shared_src"] = shared_containers(impl)
    n = len(results)
    return ops[:n], cfglib.rows(results, allviews), fail, sig, stats, results


def with_tmp(fn):
    tmp = tempfile.mkdtemp(prefix="verif-c11-")
    try:
        return fn(tmp)
    finally:
        shutil.rmtree(tmp, ignore_errors=True)


def replay(case):
    case = copy.deepcopy(case)
    _, _, fail, sig, _, _ = with_tmp(lambda tmp: run_case(case, tmp))
    return fail is None, fail or "ok"


def match_known(entry, failure):
    if not entry.get("match"):
        return False
    case = copy.deepcopy(failure["case"])
    _, _, fail, sig, _, _ = with_tmp(lambda tmp: run_case(case, tmp))
    return fail is not None and sig == entry["match"]


def run(ctx):
    out = Outcome()
    rng = ctx.rng
    drv = LeanDriver("drv_config")
    tmp = tempfile.mkdtemp(prefix="verif-c11-")
    lines, rows, ran = [], [], []
    try:
        for _ in range(ctx.n(2300, 45000)):
            case = gen_case(rng)
            nomodel = case.get("nomodel", False)
            ops, row, fail, sig, stats, results = run_case(case, tmp)
            case = {"kind": "c11", "ops": ops, "home": case.get("home")}
            out.hist["cases_with_default_location_user_file"] += case["home"] is not None
            out.hist["clones_into_constant_table_class"] += sum(1 for o in ops if o["op"] == "CLONE" and o.get("const"))
            out.hist["fresh_instances_of_target_class"] += sum(1 for o in ops if o["op"] == "FRESH")
            out.hist["reload_equal_content_other_object"] += sum(1 for o in ops if o.get("eqreload"))
            out.hist["levels_with_shared_subobject"] += sum(len(o.get("share", {})) for o in ops)
            out.hist["shared_subobject_in_yaml_file_level"] += sum(
                1 for o in ops for f in o.get("share", {}) if f in ("system", "user", "project", "runtime")
                or (f == "data" and o["op"] in ("RUNTIME", "PROJECT")))
            if nomodel:
                case["nomodel"] = True
                out.hist["handle_histories"] += 1
                out.hist["handle_ops"] += sum(1 for o in ops if o["op"] == "HOP")
                out.hist["handle_ops_after_a_remerge"] += sum(
                    1 for i, o in enumerate(ops) if o["op"] == "HOP" and any(
                        b["op"] in cfglib.MUTATORS + ("LOAD", "MERGE", "ENV") and b.get("o", 0) == o.get("o", 0)
                        for b in ops[[j for j, x in enumerate(ops) if x["op"] == "HOLD" and x["h"] == o["h"]][0]:i]))
            muts = [r for o, r in zip(ops, results) if o["op"] in cfglib.MUTATORS and not r.startswith("E:")]
            clones = [o for o in ops if o["op"] == "CLONE"]
            out.case(case, bool(muts) and bool(clones))
            out.hist["cases"] += 1
            out.hist["ops"] += len(ops)
            out.hist["clones"] += len(clones)
            out.hist["clones_into"] += len([o for o in clones if o.get("into") is not None])
            out.hist["with_files"] += ops[0]["op"] == "NEWF"
            seen_cls, origin = {}, {0: None}
            nobj = 1
            for i, o in enumerate(ops):
                if o["op"] in ("LOADU", "MERGE", "RUNTIME", "PROJECT", "EDITSRC", "LOADSAME"):
                    out.hist["op_" + o["op"]] += 1
                if o["op"] != "CLONE":
                    continue
                src = o.get("o", 0)
                key = (src, o.get("cls")) if o.get("into") is not None and o.get("cls") is not None else None
                if key is not None:
                    if key in seen_cls:
                        out.hist["clone_into_same_class_again"] += 1
                        between = ops[seen_cls[key] + 1:i]
                        out.hist["...with_unmerged_load_between"] += any(b["op"] == "LOADU" and b.get("o", 0) == src for b in between)
                        out.hist["...with_defaults_reload_between"] += any(
                            b["op"] in ("LOAD", "LOADU") and b.get("slot") == "defaults" and b.get("o", 0) == src for b in between)
                    elif any(k2[0] == src for k2 in seen_cls):
                        out.hist["clone_into_other_class"] += 1
                    seen_cls[key] = i
                out.hist["clone_of_a_clone"] += origin.get(src) is not None
                out.hist["clone_of_a_clone_into"] += origin.get(src) == "into"
                out.hist["clone_after_deletion"] += any(b["op"] in ("DI", "DA", "POP", "PI", "CLR") and b.get("o", 0) == src for b in ops[:i])
                out.hist["clone_after_runtime_or_project_reload"] += any(
                    b["op"] in ("RUNTIME", "PROJECT") and b.get("o", 0) == src for b in ops[:i])
                origin[nobj] = "into" if o.get("into") is not None else "plain"
                nobj += 1
            out.hist["via_collection"] += len([o for o in ops if o.get("via_coll")])
            out.hist["post_clone_ops"] += sum(1 for i, o in enumerate(ops) if clones and i > ops.index(clones[0]) and o["op"] != "CLONE")
            out.hist["shared_containers_between_objects"] += stats.get("shared", 0)
            out.hist["source_containers_reachable_from_config_internals"] += stats.get("shared_src", 0)
            if fail:
                out.hist["oracle_" + sig] += 1
                if sig not in KNOWN_SIGS or out.hist["oracle_" + sig] <= 12:
                    out.fail(case, fail)
            out.hist["delete_right_after_unmerged_load"] += sum(
                1 for a, b in zip(ops, ops[1:]) if a["op"] == "LOADU" and b["op"] in ("DI", "DA", "POP"))
            if not nomodel:
                lines.append(cfglib.line(ops))
                rows.append(row)
                ran.append(case)
    finally:
        shutil.rmtree(tmp, ignore_errors=True)
    if ctx.model_ok:
        model = drv.run(lines)
        for case, m, i in zip(ran, model, rows):
            out.traces += 1
            if m != i:
                ms, is_ = m.split("|"), i.split("|")
                k = next((j for j in range(min(len(ms), len(is_))) if ms[j] != is_[j]), min(len(ms), len(is_)))
                out.disagree({"kind": "c11", "ops": case["ops"][:k + 1]}, is_[k] if k < len(is_) else None,
                             ms[k] if k < len(ms) else None)
    # the regenerated slot table against an independent probe of the live objects
    from extractors import clone as clone_x
    carried = with_tmp(lambda t: [s for s in clone_x.SLOTS if clone_x.probe_slot(s, t)])
    out.extra["clone_slots_observed"] = carried
    out.extra["table_obligations"] = 1
    return out


LEVEL_TEXT = ("Lean 4 proofs: generated_clone_slots_complete (by decide over the slot list regenerated by behavioural probing "
              "of the real Config.clone on every run), clone_slots_eq / clone_view_eq / clone_of_reachable (a clone of ANY "
              "type-consistent / reachable configuration carries every slot and therefore reads identically on every key "
              "path), clone_into_original_wins (clone(into=Subclass), path by path: the original wins, the subclass only "
              "adds, deleted paths stay absent), clone_independent (frame theorem on the pair state); on a heap model of "
              "copy_dict / merge_dicts / obliterate / excise / _modify / _remove / Config.merge (Nat-addressed dict objects): "
              "copy_is_fresh (nothing reachable from a copy is reachable from its source) and sources_unchanged / "
              "merge_dicts_leaves_sources (caller-held objects are never written, along whole histories); independence and "
              "non-mutation on the REAL objects are established by snapshot comparison after every operation of generated "
              "histories plus an in-place alias probe, and the pure model is tied by correspondence")
TECHNIQUE = ("Lean 4 theorems (slot-function view, decide over generated slot table) + behavioural slot probing + "
             "snapshot/alias differential testing of real objects + model correspondence")
