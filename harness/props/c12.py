"""C12 - auto-responses depend on the output text, not on how it was chunked."""
import itertools
import re

import common
from common import Outcome, LeanDriver
from props import _c12ext

ID = "C12"
PROPS = ["Invoke/Props/C12.lean"]
TARGETS = ["drv_watcher"]
DRIVER_ROOTS = ["Driver/Watcher.lean"]
GENERATED = []
RULE = ("cases = (fixed-width pattern, text, chunking[, sentinel, second watcher]); quick: all texts of length <=5 over "
        "{a,b,\\n} x 10 patterns x all 2^(n-1) chunkings through the real Responder, plus random longer texts through "
        "the real Runner threads (stdout and stderr, two watchers); a case is non-trivial when the whole text contains "
        "at least one occurrence of the pattern; distinct = distinct (pattern,text,chunking) triples.  LONG family "
        "(_c12ext): texts of 1-10k characters around occurrences spanning >1000 (some >4096) characters - fixed-width "
        "`O.{k}C` (compared with the model) and variable-width `O[^..]*C`, `O.*?C`, `O.*C` (oracle only, constrained where "
        "the one-shot reference is the same at every read boundary) - read sizes 1/5/7/64/100/333/999/1000/1001/1500/"
        "whole/one cut/random, through Responder.submit, FailingResponder.submit (long sentinel) and the real Runner "
        "(read_chunk_size default/1/5/7/100/999/1001/2000, stdout and stderr, two watchers).  HIST family: 2-4 sudo/run "
        "commands on ONE Context (configured watchers empty or not, watchers=/password= kwargs, read_chunk_size 1/5/1000): "
        "every command's stdin = what its own watchers demand on its own output; config.run.watchers unchanged; "
        "a watchers= list is built fresh for every command")
TRUSTED = ["Lean 4.33 kernel", "axioms propext/Classical.choice/Quot.sound only",
           "harness/props/c12.py correspondence + canonicalisation", "CPython re for fixed-width patterns (modelled)",
           "model Invoke/Model/Watcher.lean hand-written, tied by correspondence on every run"]
ASSUMPTIONS = ["patterns are fixed-width sequences of character classes (variable-width regexes are outside the theorem; "
               "no online responder can be chunk-independent for them in general; they are checked by the oracle on the "
               "cases where re.finditer on the text seen at every read boundary yields an initial part of its result on the whole text)",
               "histories: watcher state is per thread and every command reads its output in new threads (modelled as: every "
               "watcher starts every command fresh); a watchers= kwarg list is not re-used by the caller",
               "Python re.findall/finditer semantics for this family are as modelled by `starts`"]

# pattern = list of classes: ("A",) any | ("L", ch) | ("O", "ab")
PATTERNS = [
    [("L", "a")], [("L", "a"), ("L", "b")], [("L", "a"), ("L", "a")], [("A",), ("L", "b")], [("L", "a"), ("A",)],
    [("O", "ab"), ("L", "\n")], [("L", "a"), ("L", "\n"), ("L", "b")], [("A",), ("A",)], [("O", "a\n"), ("L", "a")],
    [("L", "a"), ("L", "b"), ("L", "a")], [("L", "b"), ("A",), ("L", "b")], [("L", "\n")],
]


def to_regex(p):
    out = ""
    for c in p:
        if c[0] == "A":
            out += "."
        elif c[0] == "L":
            out += re.escape(c[1])
        else:
            out += "[" + "".join(re.escape(x) for x in c[1]) + "]"
    return out


def enc_chars(s):
    return ".".join(str(ord(c)) for c in s)


def enc_pat(p):
    return ",".join("A" if c[0] == "A" else c[0] + enc_chars(c[1]) for c in p)


def enc_chunks(chunks):
    return "|".join(enc_chars(c) for c in chunks)


def chunkings(text):
    n = len(text)
    if n == 0:
        return
    for mask in range(1 << (n - 1)):
        out, cur = [], text[0]
        for i in range(1, n):
            if mask >> (i - 1) & 1:
                out.append(cur)
                cur = text[i]
            else:
                cur += text[i]
        out.append(cur)
        yield out


def random_chunking(rng, text):
    out, i = [], 0
    while i < len(text):
        k = rng.choice([1, 1, 2, 3, 5])
        out.append(text[i:i + k])
        i += k
    return out


# ------------------------------------------------------------------ implementation adapters

def impl_responder(p, chunks):
    """per-chunk response counts of the real Responder fed cumulative text"""
    from invoke.watchers import Responder
    r = Responder(to_regex(p), "y")
    seen, out = "", []
    for c in chunks:
        seen += c
        out.append(len(list(r.submit(seen))))
    return out


def impl_failing(p, s, chunks):
    from invoke.watchers import FailingResponder
    from invoke.exceptions import ResponseNotAccepted
    r = FailingResponder(to_regex(p), "y", to_regex(s))
    seen, out = "", []
    for c in chunks:
        seen += c
        try:
            out.append(str(len(list(r.submit(seen)))))
        except ResponseNotAccepted:
            out.append("!")
            break
    return out


def impl_runner(watchers_spec, out_chunks, err_chunks):
    """Run the real Runner threads over scripted chunks.  watchers_spec: list of (kind, pat, response, sentinel)."""
    from fakerunner import Scripted, Sink
    from invoke.watchers import Responder, FailingResponder
    from invoke.exceptions import Failure, ResponseNotAccepted
    ws = []
    for kind, p, resp, sent in watchers_spec:
        ws.append(Responder(to_regex(p), resp) if kind == "R" else FailingResponder(to_regex(p), resp, to_regex(sent)))
    r = Scripted(out=[c.encode() for c in out_chunks], err=[c.encode() for c in err_chunks])
    raised = None
    try:
        r.run("cmd", watchers=ws, hide=True, in_stream=False, encoding="utf-8", out_stream=Sink(), err_stream=Sink())
    except Failure as e:
        raised = "Failure:" + type(e.reason).__name__ if isinstance(e.reason, ResponseNotAccepted) else "Failure:?"
    return [w.decode() for w in r.stdin_writes], raised


# ------------------------------------------------------------------ oracle (states the property)

def oracle_counts(p, chunks, counts):
    whole = "".join(chunks)
    want = len(re.findall(to_regex(p), whole, re.S))
    if sum(counts) != want:
        return "responses=%d but the whole text has %d non-overlapping occurrences" % (sum(counts), want)
    return None


def oracle_failing(p, s, chunks, trace):
    whole = "".join(chunks)
    raised = "!" in trace
    if not re.search(to_regex(s), whole, re.S) and raised:
        return "raised although the sentinel never occurs"
    # must raise: an answered occurrence lies wholly in reads < i and a sentinel wholly in reads >= i
    for i in range(1, len(chunks)):
        pre, post = "".join(chunks[:i]), "".join(chunks[i:])
        if re.search(to_regex(p), pre, re.S) and re.search(to_regex(s), post, re.S) and not re.search(to_regex(s), pre, re.S):
            if not raised:
                return "sentinel arrived in output after a response but nothing was raised"
            break
    return None


def sudo_case(case):
    """Context.sudo over scripted output: the password is sent once per prompt; the sudo sentinel arriving in a read
    after the response surfaces as AuthFailure; without the sentinel the run succeeds"""
    from fakerunner import Scripted
    from invoke import Context, Config
    from invoke.exceptions import AuthFailure, Failure
    made = []

    class R(Scripted):
        def __init__(self, ctx):
            super().__init__(ctx, out=[c.encode() for c in case["out"]], finish_when="drained")
            made.append(self)
    cfg = Config(overrides={"sudo": {"password": "pw", "prompt": "[sudo] password: "}, "runners": {"local": R}})
    c = Context(cfg)
    raised = None
    try:
        c.sudo("whoami", hide=True, in_stream=False)
    except AuthFailure:
        raised = "AuthFailure"
    except Failure as e:
        raised = "Failure:" + type(e.reason).__name__
    writes = [w.decode() for w in made[0].stdin_writes]
    whole = "".join(case["out"])
    prompts = whole.count("[sudo] password: ")
    sentinel = "Sorry, try again.\n"
    if sentinel not in whole:
        if raised:
            return "sudo: %s raised although the failure sentinel never occurs" % raised
        if writes != ["pw\n"] * prompts:
            return "sudo: %d prompt(s) in the output, responses written to stdin: %r" % (prompts, writes)
        return None
    # sentinel wholly inside reads after the read that completed the first prompt => authentication failure
    for i in range(1, len(case["out"])):
        pre, post = "".join(case["out"][:i]), "".join(case["out"][i:])
        if "[sudo] password: " in pre and sentinel in post and sentinel not in pre:
            if raised != "AuthFailure":
                return "sudo: the failure sentinel arrived after the password was sent but %s was raised, not AuthFailure" % raised
            break
    return None


def replay(case):
    kind = case["kind"]
    if kind == "long":
        return _c12ext.replay_long(case)
    if kind == "hist":
        why = _c12ext.check_hist(case)
        return why is None, why or "ok"
    if kind == "sudo":
        try:
            why = common.with_timeout(sudo_case, 30, case)
        except common.Hang:
            why = "[hang] sudo run did not return"
        return why is None, why or "ok"
    if kind == "reactive":
        try:
            why = common.with_timeout(reactive_case, 60, case)
        except common.Hang:
            why = "[hang] the run did not return"
        return why is None, why or "ok"
    if kind == "split":
        try:
            why = common.with_timeout(split_case, 30, case)
        except common.Hang:
            why = "[hang] the run did not return"
        return why is None, why or "ok"
    p = [tuple(c) for c in case["pat"]]
    if kind == "resp":
        counts = impl_responder(p, case["chunks"])
        why = oracle_counts(p, case["chunks"], counts)
        return why is None, why or "ok %s" % counts
    if kind == "fail":
        s = [tuple(c) for c in case["sent"]]
        tr = impl_failing(p, s, case["chunks"])
        why = oracle_failing(p, s, case["chunks"], tr)
        return why is None, why or "ok %s" % tr
    if kind == "runner":
        why = check_runner_case(case)
        return why is None, why or "ok"
    return True, "unknown case kind"


def check_runner_case(case):
    p1 = [tuple(c) for c in case["pat"]]
    p2 = [tuple(c) for c in case["pat2"]]
    spec = [("R", p1, "1", None), ("R", p2, "2", None)]
    try:
        writes, raised = common.with_timeout(impl_runner, 30, spec, case["out"], case["err"])
    except common.Hang:
        return "[hang] the run did not return"
    if raised:
        return "plain responders raised %s" % raised
    for p, tag in ((p1, "1"), (p2, "2")):
        want = len(re.findall(to_regex(p), "".join(case["out"]), re.S)) + len(re.findall(to_regex(p), "".join(case["err"]), re.S))
        got = writes.count(tag)
        if got != want:
            return "watcher %s: %d responses reached stdin, text has %d occurrences (stdout+stderr counted separately)" % (tag, got, want)
    return None


def split_case(case):
    """INTERLEAVING x ENCODING: stdout and stderr both carry non-ASCII text, cut at arbitrary BYTE positions (inside
    characters too), and the two reader threads are stepped in a scripted order (gate scheduler over the real Runner
    threads), so a read of one stream lands between the two halves of a character of the other.  Each stream is
    scanned as its own text: responses = occurrences in stdout + occurrences in stderr, captures = the texts."""
    import gate
    from invoke.watchers import Responder
    pats = case["pats"]
    ws = [Responder(re.escape(p), str(i)) for i, p in enumerate(pats)]
    outb = [bytes.fromhex(c) for c in case["out"]]
    errb = [bytes.fromhex(c) for c in case["err"]]
    obs = gate.run_schedule(case["schedule"], out=outb, err=errb, watchers=ws, hide=True)
    if not obs.get("main_done") or obs.get("result", ("?",))[0] != "return":
        return "the run did not return normally: %r" % (obs.get("result"),)
    to, te = b"".join(outb).decode("utf-8"), b"".join(errb).decode("utf-8")
    if obs["cap"] != (to, te):
        return "captured %r, the streams carried %r" % (obs["cap"], (to, te))
    sent = obs["child_stdin"].decode()
    for i, p in enumerate(pats):
        want = to.count(p) + te.count(p)
        if sent.count(str(i)) != want:
            return "watcher for %r: %d responses reached stdin, the two streams hold %d occurrences" % (p, sent.count(str(i)), want)
    return None


def reactive_case(case):
    """INTERACTIVE command: it prints, and after a prompt it WAITS - its next output only comes once the answer has
    reached its stdin.  Every prompt must be answered (once, in order) at the latest when the read that completes it has
    been handled, however many reads came before and however full that read was; otherwise the command never goes on."""
    import time
    from fakerunner import Scripted, Sink
    from invoke.watchers import Responder

    class Reactive(Scripted):
        hung = None

        def read_proc_stdout(self, n):
            if self._await is not None:
                t0 = time.monotonic()
                while len(self.stdin_writes) < self._await:
                    if time.monotonic() - t0 > 2.5:
                        self.hung = "prompt #%d (delivered by read #%d of %d bytes) was not answered: the command waits" % (
                            self._await, self._reads, self._last)
                        self._out = []
                        break
                    time.sleep(0.002)
                self._await = None
            if not self._out:
                self._drained["out"] = True
                return None
            c, prompt = self._out.pop(0)
            self._reads += 1
            self._last = len(c)
            if prompt:
                self._prompts += 1
                self._await = self._prompts
            return c

    chunks = [(bytes.fromhex(c), pr) for c, pr in case["chunks"]]
    r = Reactive(out=[], finish_when="drained")
    r._out, r._await, r._reads, r._prompts, r._last = list(chunks), None, 0, 0, 0
    r.read_chunk_size = case.get("read_size", 1000)
    r.run("cmd", watchers=[Responder(re.escape(case["prompt"]), "y\n")], hide=True, in_stream=False, encoding="utf-8",
          out_stream=Sink(), err_stream=Sink())
    if r.hung:
        return "[hang] " + r.hung
    want = sum(1 for _, pr in chunks if pr)
    got = [w.decode() for w in r.stdin_writes]
    if got != ["y\n"] * want:
        return "%d prompts, responses %r" % (want, got[:6])
    return None


def gen_reactive(rng):
    rs = 1000
    prompt = "Go? "
    pre = rng.choice([0, 3, 60, 99, 100, 101, 130, 260])
    chunks = [[bytes(rng.choice(b"abc \n") for _ in range(rng.randint(1, 4))).hex(), False] for _ in range(pre)]
    for _ in range(rng.randint(1, 3)):
        size = rng.choice([rs, rs, rs - 1, 17, len(prompt)])
        body = bytes(rng.choice(b"xyz \n") for _ in range(size - len(prompt))) + prompt.encode()
        chunks.append([body.hex(), True])
        chunks += [[b"ok\n".hex(), False]] * rng.randint(0, 3)
    return {"kind": "reactive", "prompt": prompt, "read_size": rs, "chunks": chunks}


def gen_split(rng):
    pats = rng.sample(["caf\u00e9? ", "\u00f1: ", "\u65e5\u672c>", "ok? "], 2)
    pats = [p.encode().decode("unicode_escape") for p in pats]

    def text():
        parts = []
        for _ in range(rng.randint(1, 3)):
            parts.append("".join(rng.choice("ab \u00e9\u00f1\u65e5\n".encode().decode("unicode_escape")) for _ in range(rng.randint(0, 4))))
            parts.append(rng.choice(pats + [""]))
        return "".join(parts)

    def cutb(b):
        if not b:
            return []
        n = rng.randint(1, min(4, len(b)))
        idx = sorted(rng.sample(range(1, len(b)), min(n - 1, len(b) - 1))) if len(b) > 1 else []
        return [b[i:j] for i, j in zip([0] + idx, idx + [len(b)])]

    oc, ec = cutb(text().encode()), cutb(text().encode())
    groups = [("wo", "out")] * len(oc)
    eg = [("we", "err")] * len(ec)
    order = [0] * len(groups) + [1] * len(eg)
    rng.shuffle(order)
    sched = []
    for o in order:
        w, a = ("wo", "out") if o == 0 else ("we", "err")
        sched += [w, a, a, a]
    sched += ["co", "ce", "x0"] + ["out", "err", "main"] * 12
    return {"kind": "split", "pats": pats, "out": [c.hex() for c in oc], "err": [c.hex() for c in ec], "schedule": sched}


# ------------------------------------------------------------------ run

def run(ctx):
    out = Outcome()
    rng = ctx.rng
    drv = LeanDriver("drv_watcher")
    cases, lines = [], []
    maxlen = 7 if ctx.thorough or ctx.escalated else 5
    alphabet = "ab\n"
    for n in range(1, maxlen + 1):
        for tup in itertools.product(alphabet, repeat=n):
            text = "".join(tup)
            for pi, p in enumerate(PATTERNS):
                if n > 5 and pi % 3 != (n % 3):
                    continue
                cks = list(chunkings(text))
                if n > 5:
                    cks = rng.sample(cks, 8)
                for ck in cks:
                    cases.append({"kind": "resp", "pat": p, "chunks": ck})
    out.exhaustive = True
    # failing responder: random
    for _ in range(ctx.n(3000, 30000)):
        text = "".join(rng.choice("abx\n") for _ in range(rng.randint(1, 9)))
        p, s = rng.choice(PATTERNS), rng.choice([[("L", "x")], [("L", "x"), ("L", "x")], [("L", "b"), ("L", "x")], [("A",), ("L", "x")]])
        cases.append({"kind": "fail", "pat": p, "sent": s, "chunks": random_chunking(rng, text)})
    # long random texts
    for _ in range(ctx.n(2000, 20000)):
        text = "".join(rng.choice("aab\n") for _ in range(rng.randint(6, 40)))
        cases.append({"kind": "resp", "pat": rng.choice(PATTERNS), "chunks": random_chunking(rng, text)})
    for c in cases:
        if c["kind"] == "resp":
            lines.append("resp %s %s" % (enc_pat(c["pat"]), enc_chunks(c["chunks"])))
        else:
            lines.append("fail %s %s %s" % (enc_pat(c["pat"]), enc_pat(c["sent"]), enc_chunks(c["chunks"])))
    model = drv.run(lines) if ctx.model_ok else [None] * len(lines)
    for c, m in zip(cases, model):
        p = [tuple(x) for x in c["pat"]]
        whole = "".join(c["chunks"])
        nontrivial = re.search(to_regex(p), whole, re.S) is not None
        out.case(c, nontrivial)
        if c["kind"] == "resp":
            counts = impl_responder(p, c["chunks"])
            got = ",".join(map(str, counts))
            why = oracle_counts(p, c["chunks"], counts)
            out.hist["resp"] += 1
        else:
            s = [tuple(x) for x in c["sent"]]
            tr = impl_failing(p, s, c["chunks"])
            got = ",".join(tr)
            why = oracle_failing(p, s, c["chunks"], tr)
            out.hist["fail_raised" if "!" in tr else "fail_quiet"] += 1
        if m is not None:
            out.traces += 1
            if m != got:
                out.disagree(c, got, m)
        if why:
            out.fail(c, why)
    # real Runner threads: two streams, two watchers
    for _ in range(ctx.n(150, 1500)):
        t1 = "".join(rng.choice("aab\n") for _ in range(rng.randint(0, 25)))
        t2 = "".join(rng.choice("aab\n") for _ in range(rng.randint(0, 25)))
        c = {"kind": "runner", "pat": rng.choice(PATTERNS), "pat2": rng.choice(PATTERNS),
             "out": random_chunking(rng, t1), "err": random_chunking(rng, t2)}
        out.case(c, True)
        out.hist["runner"] += 1
        why = check_runner_case(c)
        if why:
            out.fail(c, why)
    # two streams with non-ASCII text cut inside characters, reader threads stepped in a scripted interleaving
    for _ in range(ctx.n(200, 2000)):
        c = gen_split(rng)
        mid = any(b"".join(bytes.fromhex(x) for x in c[k][:i]).decode("utf-8", "ignore").encode() != b"".join(bytes.fromhex(x) for x in c[k][:i])
                  for k in ("out", "err") for i in range(1, len(c[k])))
        out.case(c, mid)
        out.hist["split:midchar" if mid else "split:boundary"] += 1
        ok, why = replay(c)
        if not ok:
            out.fail(c, why)
    # an interactive command that waits for its answer after each prompt (any number of earlier reads, full-sized reads)
    nfail = 0
    for _ in range(ctx.n(40, 300)):
        if nfail >= 3:
            break
        c = gen_reactive(rng)
        out.case(c, True)
        out.hist["reactive:pre%d" % (0 if len(c["chunks"]) < 50 else 100 if len(c["chunks"]) < 200 else 260)] += 1
        ok, why = replay(c)
        if not ok:
            nfail += 1
            out.fail(c, why)
    # sudo: the FailingResponder wired up by Context.sudo
    texts = ["[sudo] password: root\n", "[sudo] password: Sorry, try again.\n[sudo] password: ", "hello\n",
             "[sudo] password: Sorry, try again.\n", "x[sudo] password: y\nSorry, try again.\nz"]
    for t in texts:
        for _ in range(ctx.n(12, 120)):
            c = {"kind": "sudo", "out": random_chunking(rng, t)}
            out.case(c, True)
            out.hist["sudo"] += 1
            ok, why = replay(c)
            if not ok:
                out.fail(c, why)
    # one occurrence spanning far more than any read (Responder, FailingResponder, real Runner)
    _c12ext.run_long(ctx, out, drv)
    # histories of sudo/run commands on one Context
    _c12ext.run_hists(ctx, out, drv)
    return out

LEVEL_TEXT = ("Lean 4 proof (responder_chunk_invariant, responder_chunkings_agree, never_reanswers) that for every fixed-width "
              "pattern, every text and every chunking the modelled Responder answers exactly the non-overlapping occurrences "
              "of the whole text; the model is tied to invoke.watchers / Runner.respond on every run by a differential "
              "correspondence check (exhaustive small scope + random, also through the real Runner threads) and a direct oracle "
              "(re.findall on the whole text); the same for occurrences spanning thousands of characters and many reads "
              "(responder_span_exceeds_reads) and for histories of sudo/run commands on one Context "
              "(history_determined_by_own_text, history_earlier_commands_irrelevant, history_leaves_configuration)")
TECHNIQUE = "Lean 4 theorem over all patterns/texts/chunkings (induction on chunks via starts_append) + model/implementation correspondence"
