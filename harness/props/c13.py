"""C13 - input-stream text reaches the command complete, in order, then EOF."""
import io
import os
import sys
import tempfile
import time

import common
import runnerio
from common import Outcome

ID = "C13"
PROPS = ["Invoke/Props/C13.lean"]
TARGETS = ["drv_runner"]
DRIVER_ROOTS = ["Driver/Runner.lean"]
GENERATED = ["RunnerState"]
RULE = ("(i) gated schedules of the real Runner threads with scripted input streams (data / not-ready / EOF items incl. "
        "multi-byte characters, orderings against exit, output, timer and interrupt events, echo_stdin in {None,True,False}, "
        "tty / non-tty input, pty on/off) compared step-for-step with the Lean transition system; (ii) the real Runner over "
        "text and byte input streams with a process that stays alive until its stdin is closed; (iii) in_stream=False with a "
        "watcher; (iv) real `cat` / `wc -c` children fed from real files. non-trivial = the input script contains data; "
        "distinct by (options, script, schedule)")
TRUSTED = ["Lean 4.33 kernel", "axioms propext/Classical.choice/Quot.sound only", "harness/gate.py gate scheduler + harness/runnerio.py",
           "model Invoke/Model/RunnerIO.lean hand-written, tied by correspondence on every run",
           "Model/Encode.lean: utf-8 / latin-1 / utf-16 / utf-8-sig encoders modelled and compared with the real write_proc_stdin; "
           "other codecs judged by the oracle only; tools/extractors/runnerstate.py probe (canonicalisation of attribute values)",
           "CPython threading, select/termios readiness probing (modelled as ready/not-ready/EOF items, not verified)"]
ASSUMPTIONS = ["input that becomes available only after the command has exited need not be forwarded (the loop stops once the "
               "program is finished and a read yields nothing) - the oracle constrains only what was read",
               "readiness probing on real terminals (select, FIONREAD) is exercised by real runs only"]
LEVEL_TEXT = ("Lean 4 proofs over EVERY schedule of the runner transition system: stdin_forwarded_exactly (conservation: forwarded ++ "
              "pending ++ unread = input), forwarded_is_prefix, exhausted_input_fully_forwarded, eof_closes_at_most_once, "
              "eof_read_leads_to_close, echo_table / echo_mirrors_forwarded, disabled_input_forwards_nothing; the encoding step as an "
              "Encoder state machine: encode_incremental_eq_whole, command_receives_encoding_of_input (bytes received = encoding of the "
              "input text, every encoder, every schedule), utf16_marker_once, per_piece_repeats_marker_counterexample; "
              "reused_runner_starts_like_fresh over the RunnerState table REGENERATED from the real Local (what a runner object "
              "carries from one run into the next); the transition system "
              "is tied to Runner.handle_stdin/read_our_stdin/write_proc_stdin by gate-scheduled runs of the real threads on every run, "
              "plus an oracle on the bytes the child received and real cat/wc children")
TECHNIQUE = "Lean 4 invariant proofs over all schedules + gated-thread model/implementation correspondence"


def echo_rule(c):
    return c["echo_opt"] == 1 or (c["echo_opt"] == 0 and not c["pty"] and c["in_tty"])


def oracle_gated(c, o, io_):
    if c["start_fails"]:
        return None
    got = o["child_stdin_fwd"]  # what the stdin handler forwarded (interrupts sent by the main thread are not input)
    if not c["has_in"]:
        if got or o["closes"]:
            return "input disabled but the child received %r / %d closes" % (got, o["closes"])
        return None
    items = c["ins"]
    consumed = len(items) - (o["in_remaining"] or 0)
    data = [x for x in items[:consumed] if x not in ("~", "$")]
    full = "".join(data).encode("utf-8")
    last_is_data = consumed > 0 and items[consumed - 1] not in ("~", "$")
    without_last = "".join(data[:-1]).encode("utf-8") if last_is_data else full
    finished = "stdin" not in o["alive"]
    if finished and got != full:
        return "handler finished: child received %r, the input read so far was %r" % (got, full)
    if got not in (full, without_last):
        return "child received %r, input read so far %r (lost, duplicated or reordered)" % (got, full)
    if o["closes"] > 1:
        return "child stdin closed %d times" % o["closes"]
    if c["pty"] and o["closes"]:
        return "child stdin closed under a pty"
    saw_eof = "$" in items[:consumed] or (o["in_remaining"] == 0)
    if o["closes"] and not saw_eof:
        return "child stdin closed although the input stream never reported EOF"
    if finished and not c["pty"] and "$" in items[:consumed] and o["closes"] != 1:
        return "input stream reported EOF but the child's stdin was not closed"
    hide_out = c["hide"] in (True, "out", "both") and not c.get("explicit", True)
    if hide_out:
        want = got.decode("utf-8", "replace") if echo_rule(c) else ""
        if o["mirror"][0] != want:
            return "echo: out stream shows %r, expected %r (echo_stdin=%r pty=%r tty=%r)" % (
                o["mirror"][0], want, {0: None, 1: True, 2: False}[c["echo_opt"]], c["pty"], c["in_tty"])
    return None


def stream_case(case):
    """real Runner over a text/byte input stream; the scripted process lives until its stdin is closed"""
    from fakerunner import Scripted

    class UntilClosed(Scripted):
        @property
        def process_is_finished(self):
            return self.stdin_closed > 0 or self._pty and not self._in.getvalue()[self._in.tell():]

    text = case["text"]
    stream = io.BytesIO(text.encode(case["enc"])) if case["bytes"] else io.StringIO(text)
    r = UntilClosed(pty=False)
    r._in = stream
    mo = io.StringIO()
    old = sys.stdout
    sys.stdout = mo
    try:
        r.run("cmd", in_stream=stream, hide=True, encoding=case["enc"], echo_stdin=case["echo"])
    finally:
        sys.stdout = old
    got = b"".join(r.stdin_writes)
    if got != text.encode(case["enc"]):
        return "child received %r, input was %r" % (got, text.encode(case["enc"]))
    if r.stdin_closed != 1:
        return "stdin closed %d times" % r.stdin_closed
    want_echo = text if case["echo"] else ""
    if mo.getvalue() != want_echo:
        return "echo %r expected %r" % (mo.getvalue(), want_echo)
    return None


def disabled_case(case):
    from fakerunner import Scripted
    from invoke.watchers import Responder
    r = Scripted(out=[b"pass", b"word: x"], finish_when="drained")
    r.run("cmd", in_stream=False, hide=True, encoding="utf-8", watchers=[Responder("password:", "s3cret\n")])
    if r.stdin_writes != [b"s3cret\n"] or r.stdin_closed:
        return "in_stream=False: child received %r, closes=%d" % (r.stdin_writes, r.stdin_closed)
    return None


def real_case(case):
    from invoke import Context, Config
    from invoke.exceptions import CommandTimedOut
    d = tempfile.mkdtemp(prefix="c13-")
    try:
        p = os.path.join(d, "in.txt")
        data = case["text"].encode("utf-8")
        with open(p, "wb") as f:
            f.write(data)
        f = open(p, "rb") if case["bytes"] else open(p, "r", encoding="utf-8", newline="")
        try:
            # input is forwarded one character per input_sleep (10 ms): give long texts the time they need
            res = Context(Config()).run(case["cmd"], in_stream=f, hide=True, encoding="utf-8", timeout=20 + 0.05 * len(data), echo_stdin=False)
        except CommandTimedOut:
            return "a command reading to EOF did not terminate (no EOF delivered)"
        finally:
            f.close()
        if case["cmd"] == "cat":
            if res.stdout != case["text"]:
                return "cat returned %r for input %r" % (res.stdout[:40], case["text"][:40])
        else:
            if int(res.stdout.strip()) != len(data):
                return "wc -c counted %s bytes, input had %d" % (res.stdout.strip(), len(data))
        return None
    finally:
        import shutil
        shutil.rmtree(d, ignore_errors=True)


def _encodable(ch, enc):
    try:
        ch.encode(enc)
        return True
    except UnicodeEncodeError:
        return False


def reuse_case(case):
    """HISTORY: one Local runner object runs several commands in a row, each with its own input text: every command
    must receive exactly its own text followed by EOF"""
    from invoke import Context, Config, Local
    from invoke.exceptions import CommandTimedOut
    r = Local(Context(Config()))
    for i, item in enumerate(case["texts"]):
        # an item is the input text of a `cat`, or [command, text] for a command that does NOT read all of its input
        # (it ends early, so forwarding meets a closed pipe): what it printed must be a prefix of its input, and the
        # commands after it must be served as if it had never run
        cmd, text = item if isinstance(item, list) else ("cat", item)
        try:
            res = r.run(cmd, in_stream=io.StringIO(text), hide=True, encoding="utf-8", timeout=15, echo_stdin=False)
        except CommandTimedOut:
            return "run %d on one runner object: a command reading to EOF did not terminate" % i
        if cmd == "cat" and res.stdout != text:
            return "run %d on one runner object: the command received %r, its input was %r" % (i, res.stdout[:40], text[:40])
        if cmd != "cat" and not text.startswith(res.stdout):
            return "run %d on one runner object (%s): printed %r, which is not a prefix of its input" % (i, cmd, res.stdout[:40])
    return None


def reuse_stream_case(case):
    """HISTORY: one (scripted) runner object runs several commands in a row, each with its own input text AND its own
    encoding: every command must receive exactly its own text in ITS OWN encoding, then EOF once"""
    from fakerunner import Scripted

    class UntilClosed(Scripted):
        @property
        def process_is_finished(self):
            # the command exits at EOF; the deadline turns "EOF never delivered" into a reportable outcome, not a hang
            return self.stdin_closed > 0 or time.monotonic() > self._deadline

    r = UntilClosed(pty=False)
    for i, run in enumerate(case["runs"]):
        text, enc = run[0], run[1]
        as_bytes = len(run) > 2 and run[2]
        r.stdin_writes, r.stdin_closed = [], 0
        r._out, r._err, r._drained = [], [], {"out": False, "err": False}
        r._deadline = time.monotonic() + 4
        r.run("cmd", in_stream=io.BytesIO(text.encode(enc)) if as_bytes else io.StringIO(text), hide=True, encoding=enc, echo_stdin=False)
        got = b"".join(r.stdin_writes)
        # what the command reads, decoded as the run's encoding, is the input text (for an encoding with a
        # start-of-stream marker an empty input may arrive as nothing at all; a marker per piece decodes to extra
        # U+FEFF characters and fails here)
        try:
            same = got.decode(enc) == text and (got == text.encode(enc) or not text)
        except UnicodeDecodeError:
            same = False
        if not same:
            return "run %d on one runner object (encoding %s): the command received %r, its input was %r" % (i, enc, got, text.encode(enc))
        if r.stdin_closed != 1:
            return "run %d on one runner object: stdin closed %d times" % (i, r.stdin_closed)
    return None


ENC_MODEL = ["utf-8", "latin-1", "utf-16", "utf-8-sig"]


def encode_impl(case):
    """the real `Runner.write_proc_stdin` called once per piece, within ONE run (the per-run codec state as
    `_run_body` leaves it): the bytes handed to the process"""
    from fakerunner import Scripted
    r = Scripted(pty=False)
    r.run("cmd", in_stream=False, hide=True, encoding=case["enc"])  # establishes encoding + per-run codec state
    r.stdin_writes = []
    r._stdin_encoder = None
    for piece in case["pieces"]:
        r.write_proc_stdin(piece)
    return b"".join(r.stdin_writes)


def encode_case(case):
    got = encode_impl(case)
    text = "".join(case["pieces"])
    want = text.encode(case["enc"]) if text else got
    if got != want:
        return "text %r forwarded in %d pieces under %s: the process was handed %r, the encoding of the text is %r" % (
            text[:30], len(case["pieces"]), case["enc"], got[:40], want[:40])
    return None


def encode_line(case):
    return "E|%s|i|%s" % (case["enc"], ";".join(".".join(str(ord(ch)) for ch in p) for p in case["pieces"]))


def gen_encode(rng):
    enc = rng.choice(ENC_MODEL)
    pool = "ab z\n\u00e9\u00f1\u00ff" if enc == "latin-1" else "ab z\n\u00e9\u00f1\u20ac\u65e5\U0001f600\ufeff"
    pool = pool.encode().decode("unicode_escape") if "\\" in pool else pool
    text = "".join(rng.choice(pool) for _ in range(rng.randint(0, 10)))
    pieces, i = [], 0
    while i < len(text):
        n = rng.choice([1, 1, 1, 2, 3, 5])
        pieces.append(text[i:i + n])
        i += n
    if rng.random() < 0.2:
        pieces.insert(rng.randint(0, len(pieces)), "")
    return {"kind": "encode", "enc": enc, "pieces": pieces}


def pipeline_impl(case):
    """byte-mode input stream with arbitrary bytes (valid and invalid UTF-8) through the real stdin handler
    (read_our_stdin's incremental decoder, then write_proc_stdin's encoder): the bytes handed to the process"""
    from fakerunner import Scripted

    class UntilClosed(Scripted):
        @property
        def process_is_finished(self):
            return self.stdin_closed > 0 or time.monotonic() > self._deadline

    r = UntilClosed(pty=False)
    r._deadline = time.monotonic() + 4
    r.run("cmd", in_stream=io.BytesIO(bytes.fromhex(case["hex"])), hide=True, encoding="utf-8", echo_stdin=False)
    return b"".join(r.stdin_writes), r.stdin_closed


def pipeline_case(case):
    got, closed = pipeline_impl(case)
    data = bytes.fromhex(case["hex"])
    try:
        data.decode("utf-8")
    except UnicodeDecodeError:
        return None  # not the encoding of a text: outside the property (model and code are still compared on it)
    if got != data:
        return "byte input %r (valid UTF-8): the process was handed %r" % (data[:30], got[:40])
    if closed != 1:
        return "byte input %r: stdin closed %d times" % (data[:30], closed)
    return None


def gen_pipeline(rng):
    parts = []
    for _ in range(rng.randint(0, 6)):
        k = rng.random()
        if k < 0.7:
            parts.append(rng.choice("ab \n\u00e9\u00f1\u20ac\u65e5\U0001f600\ufeff\u07ff\u0800\uffff\U00010000\U0010ffff\ud7ff\ue000"
                                    .encode().decode("unicode_escape")).encode("utf-8", "surrogatepass"))
        elif k < 0.85:  # a truncated character
            b = rng.choice("\u00e9\u20ac\U0001f600".encode().decode("unicode_escape")).encode()
            parts.append(b[:rng.randint(1, len(b) - 1)])
        else:  # bytes that never occur in UTF-8, overlongs, surrogates, lone continuation bytes
            parts.append(rng.choice([b"\xff", b"\xc0\xaf", b"\xed\xa0\x80", b"\x80", b"\xf4\x90\x80\x80", b"\xe0\x80\x80", b"\xf8"]))
    return {"kind": "pipeline", "hex": b"".join(parts).hex()}


def response_real_case(case):
    """input disabled, a watcher response of a given size (page-sized and multiples included) must reach a REAL child
    whole: `head -c N | wc -c` prints N"""
    from invoke import Context, Config
    from invoke.watchers import Responder
    from invoke.exceptions import CommandTimedOut
    n = case["n"]
    try:
        r = Context(Config()).run("printf 'go? '; head -c %d | wc -c" % n, watchers=[Responder("go\\? ", "x" * n)],
                                  in_stream=False, hide=True, timeout=8, pty=False)
    except CommandTimedOut:
        return "a watcher response of %d bytes never reached the command (it was still waiting when the timeout hit)" % n
    got = r.stdout.replace("go? ", "").strip()
    if got != str(n):
        return "a watcher response of %d bytes: the command counted %r bytes" % (n, got)
    return None


def overlap_case(case):
    """SCHEDULE: several runs are alive at the same time in one process (asynchronous runs on separate runner objects),
    each forwarding its own input in its own encoding; the inputs are released one after the other, in a given order:
    every command receives exactly its own text in its own encoding (start-of-stream marker included), then EOF"""
    import threading
    from fakerunner import Scripted

    class UntilClosed(Scripted):
        @property
        def process_is_finished(self):
            return self.stdin_closed > 0 or time.monotonic() > self._deadline

    class Gated(io.StringIO):
        def __init__(self, text):
            super().__init__(text)
            self.gate = threading.Event()

        def read(self, n=-1):
            self.gate.wait(6)
            return super().read(n)

    runs = []
    for text, enc in case["runs"]:
        r = UntilClosed(pty=False)
        r._deadline = time.monotonic() + 8
        st = Gated(text)
        p = r.run("cmd", in_stream=st, hide=True, encoding=enc, echo_stdin=False, asynchronous=True)
        runs.append((r, st, p, text, enc))
    for i in case["order"]:
        runs[i][1].gate.set()
        time.sleep(0.05)
    for i, (r, st, p, text, enc) in enumerate(runs):
        p.join()
        got = b"".join(r.stdin_writes)
        try:
            same = got.decode(enc) == text and (got == text.encode(enc) or not text)
        except UnicodeDecodeError:
            same = False
        if not same:
            return "run %d of %d overlapping runs (encoding %s): the command received %r, its input was %r" % (
                i, len(runs), enc, got[:40], text.encode(enc)[:40])
        if r.stdin_closed != 1:
            return "run %d of %d overlapping runs: stdin closed %d times" % (i, len(runs), r.stdin_closed)
    return None


def async_case(case):
    """asynchronous run with an EXPLICIT input stream (which may be the sys.stdin object itself): the text must be
    forwarded and EOF delivered; without an explicit stream nothing is forwarded"""
    from invoke import Context, Config
    from invoke.exceptions import CommandTimedOut
    d = tempfile.mkdtemp(prefix="c13-")
    old_stdin = sys.stdin
    try:
        p = os.path.join(d, "in.txt")
        with open(p, "w") as f:
            f.write(case["text"])
        f = open(p, "r")
        kw = {}
        if case["how"] == "sys.stdin":
            sys.stdin = f
            kw["in_stream"] = sys.stdin
        elif case["how"] == "explicit":
            kw["in_stream"] = f
        else:
            sys.stdin = f  # not passed: asynchronous runs disconnect input by default
        try:
            pr = Context(Config()).run("cat", asynchronous=True, encoding="utf-8", timeout=8, **kw)
            res = pr.join()
        except CommandTimedOut:
            if case["how"] == "default":
                return None  # nothing forwarded, no EOF: cat is ended by the timeout - the documented default
            return "asynchronous run with an explicit input stream (%s): the command never saw EOF" % case["how"]
        finally:
            f.close()
        want = "" if case["how"] == "default" else case["text"]
        if res.stdout != want:
            return "asynchronous run (%s): the command received %r, expected %r" % (case["how"], res.stdout[:40], want[:40])
        return None
    finally:
        sys.stdin = old_stdin
        import shutil
        shutil.rmtree(d, ignore_errors=True)


def guarded(fn, case):
    try:
        return common.with_timeout(fn, 60, case)
    except common.Hang:
        return "[hang] the run did not return (a command reading its stdin to EOF must terminate)"
    except Exception as e:
        return "[unexpected-exception] %r" % e


def replay(case):
    k = case.get("kind")
    if k == "stream":
        why = guarded(stream_case, case)
    elif k == "disabled":
        why = guarded(disabled_case, case)
    elif k == "real":
        why = guarded(real_case, case)
    elif k == "reuse":
        why = guarded(reuse_case, case)
    elif k == "reuse_stream":
        why = guarded(reuse_stream_case, case)
    elif k == "async":
        why = guarded(async_case, case)
    elif k == "encode":
        why = guarded(encode_case, case)
    elif k == "overlap":
        why = guarded(overlap_case, case)
    elif k == "resp_real":
        why = guarded(response_real_case, case)
    elif k == "pipeline":
        why = guarded(pipeline_case, case)
    elif "sched" in case:
        o = runnerio.run_impl(case)
        why = oracle_gated(case, o, runnerio.impl_obs(case, o))
    else:
        return True, "unknown case"
    return why is None, why or "ok"


def run(ctx):
    out = Outcome()
    rng = ctx.rng
    gcases = [runnerio.gen_case(rng, rng.choice(["stdin", "stdin", "stdin", None, "fault"])) for _ in range(ctx.n(2500, 25000))]
    runnerio.run_cases(ctx, out, gcases, oracle=oracle_gated)
    texts = ["", "a", "hi!\n", "é", "x€y", "日本語\n", "ab" * 30, "😀z", "line1\nline2\n",
             "xyz\x04", "a\x04b\n", "\x04", "\x03q", "nul\x00l", "\x1a\x1b[A", "cr\r\nlf"]
    extra = []
    for t in texts:
        for b in (False, True):
            for e in (False, True):
                extra.append({"kind": "stream", "text": t, "bytes": b, "enc": "utf-8", "echo": e})
    for t in ["é", "añb", "x"]:
        extra.append({"kind": "stream", "text": t, "bytes": True, "enc": "latin-1", "echo": False})
        extra.append({"kind": "stream", "text": t, "bytes": True, "enc": "utf-16-le", "echo": False})
    # byte input in multi-byte encodings whose TRAIL bytes fall in the ASCII range (Shift-JIS / CP932, GBK, Big5), in
    # stateful ones (ISO-2022-JP, UTF-7, UTF-16 with BOM) and in single-byte ones: decoded incrementally, forwarded whole
    for t, e in [("表示", "shift_jis"), ("aソb", "shift_jis"), ("能ソ十\n", "cp932"), ("x丂y", "gbk"), ("許功蓋", "big5"), ("日本語 abc", "iso2022_jp"),
                 ("a+b é", "utf-7"), ("añb", "utf-16"), ("é€", "cp1252"), ("жук", "koi8-r"), ("日本", "euc_jp")]:
        for echo in (False, True):
            extra.append({"kind": "stream", "text": t, "bytes": True, "enc": e, "echo": echo})
            extra.append({"kind": "stream", "text": t, "bytes": False, "enc": e, "echo": echo})
    extra.append({"kind": "disabled"})
    for t in (["", "hello\n", "é€😀\n" * 3] if not ctx.thorough else ["", "hello\n", "é€😀\n" * 3, "x" * 1500, "é" * 700]):
        for b in (False, True):
            for cmd in ("cat", "wc -c"):
                extra.append({"kind": "real", "text": t, "bytes": b, "cmd": cmd})
    extra.append({"kind": "reuse", "texts": ["one\n", "two é\n", "", "three\n"]})
    extra.append({"kind": "reuse", "texts": ["", "x"]})
    # commands that end before their input is forwarded (the write meets a closed pipe), then ordinary ones
    extra.append({"kind": "reuse", "texts": [["true", "x" * 300], "after\n", ["head -c 2", "abcdef" * 60], "again é\n"]})
    extra.append({"kind": "reuse", "texts": ["first\n", ["exit 0", "y" * 200], ["true", ""], "last\n"]})
    encs = ["utf-8", "latin-1", "cp1252", "utf-16-le", "cp1251", "utf-8", "utf-16", "utf-8-sig", "shift_jis"]
    pool = "aé ñoz\n€яx5"
    for _ in range(ctx.n(40, 400)):
        runs = []
        for _ in range(rng.randint(2, 4)):
            enc = rng.choice(encs)
            ok = [ch for ch in pool if _encodable(ch, enc)]
            runs.append(["".join(rng.choice(ok) for _ in range(rng.randint(0, 8))), enc, rng.random() < 0.4])
        extra.append({"kind": "reuse_stream", "runs": runs})
    for how in ("sys.stdin", "explicit"):
        extra.append({"kind": "async", "how": how, "text": "hello é\n"})
    # watcher responses of page-sized lengths to a real child (in_stream=False: "watcher responses still get through")
    for n in ([1, 4095, 4096, 4097, 8192] if not ctx.thorough else [1, 511, 512, 4095, 4096, 4097, 8191, 8192, 12288, 65536]):
        extra.append({"kind": "resp_real", "n": n})
    # runs whose lifetimes overlap (asynchronous), same and different encodings, inputs released in every order
    for _ in range(ctx.n(10, 80)):
        k = rng.choice([2, 2, 3])
        oruns = [["".join(rng.choice("ab é\n") for _ in range(rng.randint(1, 5))), rng.choice(["utf-16", "utf-16", "utf-8-sig", "utf-8", "latin-1"])]
                 for _ in range(k)]
        order = list(range(k))
        rng.shuffle(order)
        extra.append({"kind": "overlap", "runs": oruns, "order": order})
    # the encoding step against the Encoder model (Model/Encode.lean): text cut into pieces, one encoder per run
    ecases = [gen_encode(rng) for _ in range(ctx.n(600, 6000))]
    emodel = common.LeanDriver("drv_runner").run([encode_line(c) for c in ecases]) if ctx.model_ok else [None] * len(ecases)
    for c, m in zip(ecases, emodel):
        out.case(c, len(c["pieces"]) > 1)
        out.hist["encode:" + c["enc"]] += 1
        got = encode_impl(c)
        if m is not None:
            out.traces += 1
            if got.hex() != m and "".join(c["pieces"]):
                out.disagree(c, got.hex(), m)
        why = encode_case(c)
        if why:
            out.fail(c, why)
    # byte-mode input: decode-then-encode against the model composition (driver op R; one byte per read, as the code reads)
    pcases = [gen_pipeline(rng) for _ in range(ctx.n(300, 3000))]
    pmodel = (common.LeanDriver("drv_runner").run(["R|" + ",".join("%02x" % b for b in bytes.fromhex(c["hex"])) for c in pcases])
              if ctx.model_ok else [None] * len(pcases))
    npf = 0
    for c, m in zip(pcases, pmodel):
        if npf >= 4:
            break
        data = bytes.fromhex(c["hex"])
        try:
            data.decode("utf-8")
            valid = True
        except UnicodeDecodeError:
            valid = False
        out.case(c, len(data) > 1)
        out.hist["pipeline:" + ("valid" if valid else "invalid")] += 1
        try:
            got, _closed = common.with_timeout(pipeline_impl, 30, c)
        except common.Hang:
            out.fail(c, "[hang] the run did not return")
            npf += 1
            continue
        if m is not None:
            out.traces += 1
            if got.hex() != m:
                out.disagree(c, got.hex(), m)
        why = pipeline_case(c)
        if why:
            npf += 1
            out.fail(c, why)
    failed_of_kind = {}
    for c in extra:
        if failed_of_kind.get(c["kind"], 0) >= 4:
            # four concrete failing inputs of this kind are on record; the remaining ones would each wait for an EOF
            # that never comes
            out.hist["extra-skipped-after-failures:" + c["kind"]] += 1
            continue
        out.case(c, True)
        out.hist["extra:" + c["kind"]] += 1
        ok, why = replay(c)
        if not ok:
            failed_of_kind[c["kind"]] = failed_of_kind.get(c["kind"], 0) + 1
            out.fail(c, why)
    return out
