"""C14 - a timed-out command is killed and reported promptly; a timely one is left alone."""
import os
import sys
import time

import common
import runnerio
from common import Outcome

ID = "C14"
PROPS = ["Invoke/Props/C14.lean"]
TARGETS = ["drv_runner"]
DRIVER_ROOTS = ["Driver/Runner.lean"]
GENERATED = ["RunnerState"]
RULE = ("(i) gated schedules of the real Runner threads with a gated Timer (expiry, kill and timer completion are schedule "
        "events) in every order against process exit, reads, joins, the timed_out test and stop(), compared step-for-step "
        "with the Lean transition system; (ii) timeout sources kwarg / config / -T through the real Context and Program; "
        "(iii) real children: sleep with a short timeout (killed, CommandTimedOut within a margin, captured output carried), "
        "a quick child under a long timeout (normal result, nothing killed), pty on/off, a child ignoring SIGTERM/SIGINT, a "
        "child that leaves a grandchild holding the pipes. non-trivial = a timeout is in effect; distinct by schedule")
TRUSTED = ["Lean 4.33 kernel", "axioms propext/Classical.choice/Quot.sound only", "harness/gate.py gate scheduler + harness/runnerio.py",
           "model Invoke/Model/RunnerIO.lean hand-written, tied by correspondence on every run",
           "threading.Timer semantics (modelled as armed/kill/finish/done/cancelled), SIGKILL delivery (real runs only)"]
ASSUMPTIONS = ["'promptly' also needs the wait loop's pause between two polls to stay bounded however long the command has run; the code "
               "documents input_sleep (10 ms), the check demands <= 0.25 s (clause [poll-interval])",
               "'promptly' is proved as a step bound (main observes the exit at its next poll); wall-clock bounds are measured on "
               "real children with margins and are not theorems",
               "what SIGKILL reaches (grandchildren holding the pipes) is a runtime matter: modelled by the holdOpen flag, measured on real runs"]
LEVEL_TEXT = ("Lean 4 proofs over EVERY schedule of the repaired runner: timeout_kills_and_raises (a kill issued before the wait loop saw "
              "the command end => timed-out failure whatever warn, exactly one kill, command ended), timely_command_normal (seen ended "
              "before any kill => never killed, never timed out, own exit status, ordinary outcome), timeout_reported_promptly (kill issued, "
              "no grandchild holding the pipes => every sequence of more than mu fair rounds ends the run with the timed-out failure; "
              "composition with C08), timed_out_means_killed, "
              "kills_at_most_once, kills_eq_issued, no_timeout_no_kill, cancelled_never_kills, expiry_kills, late_expiry_kills_nothing, "
              "reused_runner_times_out_like_fresh (regenerated RunnerState tables: nothing but inert leftovers carried into a next run; an "
              "overrunning second run is killed and reported like on a fresh object); the "
              "three race schedules of the former finding #26 are replayed by decide (race_*_repaired); the residual window (command ended "
              "but not yet polled when the timer fires) is witnessed by exit_unseen_at_expiry_counterexample and recorded as a known "
              "finding; the transition system is tied to Runner.start_timer/timed_out/stop/_finish/wait/_disarm_timer_if_timely and "
              "Local.kill by gate-scheduled runs of the real threads, with an oracle on the order of exit / kill / observation events and "
              "real children for wall-clock promptness")
TECHNIQUE = "Lean 4 invariant proofs over all schedules + gated-thread model/implementation correspondence"


def idx(trace, name, start=0):
    for i in range(start, len(trace)):
        if trace[i] == name:
            return i
    return None


def analyse(c, o):
    """order of the timeout-relevant events in the implementation's gate trace.
    elapse  = the Timer thread's kill() step (the moment the timeout takes effect);
    exit    = the command ending by itself;
    seen    = the wait-loop step that follows a poll made after the command had ended (the runner knows)"""
    tr = o["trace"]
    a = {"elapse": idx(tr, "timer:kill"), "expire": idx(tr, "timer:expire"), "finish": idx(tr, "timer:finish"),
         "cancel": idx(tr, "main:cancel"), "returned": idx(tr, "main:returned")}
    a["exit"] = next((i for i, t in enumerate(tr) if t.startswith("env:x")), None)
    a["seen"] = None
    if a["exit"] is not None:
        p = idx(tr, "main:poll", a["exit"])
        if p is not None:
            a["seen"] = idx(tr, "main:polldead", p)
    return a


def oracle_gated(c, o, io_):
    if not c["has_t"] or c["start_fails"] or not o["main_done"]:
        if not c["has_t"] and (o["kills"] or io_["outcome"].startswith("raise:CommandTimedOut")):
            return "[no-timeout] no timeout in effect but kills=%d outcome=%s" % (o["kills"], io_["outcome"])
        if c["has_t"] and not c["start_fails"] and o["kills"] > 1:
            return "[killed-twice] kill() took effect %d times" % o["kills"]
        return None
    if o["kills"] > 1:
        return "[killed-twice] kill() took effect %d times" % o["kills"]
    if io_["outcome"] == "raise:ThreadException":
        return None  # a worker died: the property's timeout clauses do not apply
    a = analyse(c, o)
    still_running_at_elapse = a["elapse"] is not None and (a["exit"] is None or a["elapse"] < a["exit"])
    finished_first = a["exit"] is not None and (a["elapse"] is None or a["exit"] < a["elapse"])
    if still_running_at_elapse:
        if not io_["outcome"].startswith("raise:CommandTimedOut"):
            return "[timeout-not-raised] the timeout elapsed while the command was running but the outcome is %s" % io_["outcome"]
        if o["kills"] < 1:
            return "[timeout-not-killed] timed out but never killed"
        r = o["result"]
        if r[0] == "raise" and (r[2], r[3]) != o["cap"]:
            return "[timeout-output] the timed-out failure does not carry the output captured so far"
    if finished_first:
        # residual window (known finding): the command ended, but the wait loop had not polled again when the timer fired
        unseen = a["elapse"] is not None and (a["seen"] is None or a["elapse"] < a["seen"])
        tag = " {exit not yet seen by the wait loop when the timer fired}" if unseen else ""
        if io_["outcome"].startswith("raise:CommandTimedOut"):
            return "[timely-but-timedout] the command finished before the timeout elapsed but a timed-out failure was raised" + tag
        if o["kills"]:
            return "[killed-after-finish] the command finished before the timeout elapsed but kill() was issued afterwards (%d after run returned)%s" % (
                o["kills_after_return"], tag)
    if a["elapse"] is None and io_["outcome"].startswith("raise:CommandTimedOut"):
        return "[timedout-without-expiry] timed out although the timer's kill never ran"
    if a["elapse"] is None and o["kills"]:
        return "[killed-without-expiry] killed although the timer's kill never ran"
    return None


def match_known(entry, failure):
    why = failure["why"]
    if entry.get("id") == "C14-grandchild-holds-pipes":
        return why.startswith("[grandchild]")
    if entry.get("id") == "C14-exit-unseen-at-expiry":
        return "{exit not yet seen by the wait loop when the timer fired}" in why and \
            why.startswith(("[timely-but-timedout]", "[killed-after-finish]"))
    return False


class Probe:
    """captures the timeout handed to start_timer"""
    seen = None


def source_case(case):
    from invoke import Context, Config, Program, Collection, task
    from fakerunner import Scripted

    class R(Scripted):
        def start_timer(self, timeout):
            Probe.seen = timeout

    Probe.seen = "unset"
    kind = case["src"]
    if kind == "kwarg":
        cfg = Config(overrides={"timeouts": {"command": 7}, "runners": {"local": R}})
        Context(cfg).run("x", hide=True, in_stream=False, timeout=3)
        want = 3
    elif kind == "kwarg0":
        # a per-call value of 0 is a per-call value: it wins over the configured one (and is not "no timeout")
        cfg = Config(overrides={"timeouts": {"command": 7}, "runners": {"local": R}})
        Context(cfg).run("x", hide=True, in_stream=False, timeout=0)
        want = 0
    elif kind == "kwargNone":
        # a per-call None is a per-call value too: the caller exempts this command from the configured timeout
        # (`timeout` follows the PRESENCE of the kwarg - C15 `opt_resolution`)
        cfg = Config(overrides={"timeouts": {"command": 7}, "runners": {"local": R}})
        Context(cfg).run("x", hide=True, in_stream=False, timeout=None)
        want = None
    elif kind == "config":
        cfg = Config(overrides={"timeouts": {"command": 7}, "runners": {"local": R}})
        Context(cfg).run("x", hide=True, in_stream=False)
        want = 7
    elif kind == "none":
        cfg = Config(overrides={"runners": {"local": R}})
        Context(cfg).run("x", hide=True, in_stream=False)
        want = None
    elif kind in ("file", "envvar"):
        # configured through a runtime config file / an environment variable, run through the real
        # Program WITHOUT -T: the configured value must be the one in effect
        import json as _json
        import tempfile
        import shutil

        @task
        def t(c):
            c.config.runners.local = R
            c.run("x", hide=True, in_stream=False)
        d = tempfile.mkdtemp(prefix="c14-")
        old_env = dict(os.environ)
        try:
            argv = ["inv"]
            if kind == "file":
                f = os.path.join(d, "rt.json")
                open(f, "w").write(_json.dumps({"timeouts": {"command": 9}}))
                argv += ["-f", f]
            else:
                os.environ["INVOKE_TIMEOUTS_COMMAND"] = "9"
            p = Program(namespace=Collection(t))
            try:
                p.run(argv + case.get("argv", []) + ["t"] + case.get("post", []), exit=False)
            except SystemExit:
                pass
        finally:
            os.environ.clear()
            os.environ.update(old_env)
            shutil.rmtree(d, ignore_errors=True)
        want = 5 if case.get("argv") or case.get("post") else 9
    else:  # CLI flag
        @task
        def t(c):
            c.config.runners.local = R
            c.run("x", hide=True, in_stream=False)
        p = Program(namespace=Collection(t))
        try:
            # the option may also follow the task name (a core option inside a task's argument list, C18)
            p.run(["inv"] + case["argv"] + ["t"] + case.get("post", []), exit=False)
        except SystemExit:
            pass
        want = 5
    if kind == "envvar" and not case.get("argv") and str(Probe.seen) == str(want):
        return None  # a None-typed setting takes the environment text verbatim (C16)
    if Probe.seen != want:
        return "timeout in effect is %r, expected %r (source %s)" % (Probe.seen, want, kind)
    return None


def real_case(case):
    from invoke import Context, Config
    from invoke.exceptions import CommandTimedOut, UnexpectedExit
    c = Context(Config())
    k = case["real"]
    t0 = time.time()
    if k == "exempt":
        # a timeout is configured, the call says timeout=None: this command has no timeout and is left alone
        c = Context(Config(overrides={"timeouts": {"command": 0.3}}))
        try:
            r = c.run("sleep 1; echo done", timeout=None, hide=True, in_stream=False, pty=case["pty"])
        except CommandTimedOut:
            return "[killed-without-timeout] run(..., timeout=None) under a configured timeout was killed and reported as timed out"
        return None if "done" in r.stdout else "wrong output %r" % r.stdout
    if k == "sleep":
        try:
            c.run("echo started; %s" % case["cmd"], timeout=0.3, hide=True, in_stream=False, pty=case["pty"], warn=case["warn"])
        except CommandTimedOut as e:
            dt = time.time() - t0
            if "started" not in e.result.stdout:
                return "timed-out failure does not carry the captured output"
            if dt > 2.0:
                return "timed-out failure took %.2fs for a 0.3s timeout" % dt
            return None
        return "a command running past its timeout was not reported as timed out"
    if k == "quick":
        try:
            r = c.run("echo hi", timeout=30, hide=True, in_stream=False, pty=case["pty"], warn=case["warn"])
        except CommandTimedOut:
            return "a timely command was reported as timed out"
        if r.stdout.strip() != "hi" or r.exited != 0:
            return "timely command: wrong result"
        if time.time() - t0 > 5:
            return "timely command took too long"
        t = c.config  # noqa
        return None
    if k == "grandchild":
        try:
            c.run("(sleep 1.6 &) ; sleep 5", timeout=0.3, hide=True, in_stream=False)
        except CommandTimedOut:
            dt = time.time() - t0
            if dt > 1.2:
                return "[grandchild] timed-out failure took %.2fs for a 0.3s timeout: run() waits for a grandchild holding the pipes" % dt
            return None
        return "not reported as timed out"
    return None


def reuse_case(case):
    """one Runner object used twice: a run under a (not firing) timeout, then a run without any timeout"""
    from invoke import Context, Config
    from invoke.exceptions import CommandTimedOut
    from fakerunner import Scripted
    r = Scripted(Context(Config()), out=[b"a"], exited=case.get("rc", 0), finish_when="drained")
    r.run("x", hide=True, in_stream=False, timeout=30, warn=True)
    r._out, r._err = [b"b"], []
    r._drained = {"out": False, "err": False}
    try:
        res = r.run("y", hide=True, in_stream=False, warn=True)
    except CommandTimedOut:
        return "[timely-but-timedout] a command run without any timeout was reported as timed out (same Runner object used earlier with a timeout)"
    if res.exited != case.get("rc", 0):
        return "wrong result on the second run"
    return None


def async_case(case):
    """asynchronous run that finishes early but whose join() raises, with a timeout in effect: nothing may be killed
    later and the timer must not stay armed"""
    import threading
    from invoke import Context, Config, Local
    from invoke.exceptions import Failure
    kills = []

    class L(Local):
        def kill(self):
            kills.append(time.time())
            super().kill()

    p = L(Context(Config())).run(case["cmd"], asynchronous=True, timeout=0.6, pty=case["pty"])
    try:
        p.join()
    except Failure:
        pass
    time.sleep(0.9)
    armed = [t for t in threading.enumerate() if isinstance(t, threading.Timer) and t.is_alive()]
    if kills:
        return "[killed-after-finish] the command finished (join returned/raised) before the timeout, yet kill() was issued later"
    if armed:
        return "[leftover-timer] join() is over but the timeout timer is still armed"
    return None


def reuse_real_case(case):
    """HISTORY on one real Local runner: a timely run under a long timeout, then a run that exceeds a short timeout
    (must be killed and reported promptly), then again a timely run under a long timeout (normal outcome)"""
    from invoke import Context, Config, Local
    from invoke.exceptions import CommandTimedOut
    r = Local(Context(Config()))
    for i, run in enumerate(case["runs"]):
        cmd, timeout, overrun = run[:3]
        pty = run[3] if len(run) > 3 else case["pty"]  # per-run pty: what a pty run leaves on the object must not
        t0 = time.time()                                # matter to a later run without one, and vice versa
        try:
            res = r.run(cmd, hide=True, in_stream=False, timeout=timeout, pty=pty)
        except CommandTimedOut:
            dt = time.time() - t0
            if not overrun:
                return "[timely-but-timedout] run %d on one runner object (%r, timeout=%r) finished in time but was reported as timed out" % (i, cmd, timeout)
            if dt > timeout + 1.2:
                return "[timeout-late] run %d on one runner object (%r, timeout=%r): timed-out failure after %.2fs" % (i, cmd, timeout, dt)
            continue
        if overrun:
            return "[timeout-not-raised] run %d on one runner object (%r, timeout=%r) ran past its timeout (%.2fs) and was not reported as timed out" % (
                i, cmd, timeout, time.time() - t0)
        if res.exited != 0:
            return "wrong result on run %d" % i
    return None


POLL_MAX = 0.25  # seconds; see ASSUMPTIONS


def poll_interval_case(case):
    """'promptly' needs the wait loop to keep looking: however long the command has been running, the pause between
    two polls of the process stays bounded (the code documents `input_sleep`, 10 ms; we demand <= POLL_MAX).
    A scripted process that ends after N polls; `time.sleep` of invoke.runners is replaced by a recorder."""
    import types
    import invoke.runners as R
    from invoke import Context, Config
    from fakerunner import Scripted

    class Slow(Scripted):
        input_sleep = 0.01  # Local's documented default
        polls = 0

        @property
        def process_is_finished(self):
            type(self).polls += 1
            return type(self).polls > case["polls"]

    Slow.polls = 0
    sleeps = []
    old = R.time
    R.time = types.SimpleNamespace(sleep=lambda d: sleeps.append(d), time=old.time)
    try:
        kw = {"timeout": 600} if case.get("timeout") else {}
        Slow(Context(Config()), out=[b"x"], exited=0).run("cmd", hide=True, in_stream=False, **kw)
    finally:
        R.time = old
    if sleeps and max(sleeps) > POLL_MAX:
        return "[poll-interval] after %d polls the wait loop pauses %.2fs between two looks at the process (bound %.2fs): a kill or an exit is noticed that late" % (
            len(sleeps), max(sleeps), POLL_MAX)
    return None


def late_join_case(case):
    """asynchronous run with a timeout, joined only AFTER the timeout has long elapsed: the clock starts with the
    command, not with join() - the command must have been killed at its timeout (its later side effect never happens)"""
    import tempfile
    import shutil
    from invoke import Context, Config
    from invoke.exceptions import CommandTimedOut
    d = tempfile.mkdtemp(prefix="c14-")
    try:
        marker = os.path.join(d, "late")
        t0 = time.time()
        p = Context(Config()).run("sleep 1.0; touch %s" % marker, asynchronous=True, timeout=0.3, pty=case["pty"], hide=True)
        time.sleep(1.8)
        try:
            p.join()
        except CommandTimedOut:
            if os.path.exists(marker):
                return "[timeout-not-killed] reported as timed out, yet the command ran on past its timeout (its later side effect happened)"
            return None
        finally:
            dt = time.time() - t0
        return "[timeout-not-raised] async command still running at its timeout (0.3s), joined at %.1fs: no timed-out failure%s" % (
            dt, "; it ran to completion" if os.path.exists(marker) else "")
    finally:
        shutil.rmtree(d, ignore_errors=True)


def replay(case):
    if "reuse_real" in case:
        try:
            why = common.with_timeout(reuse_real_case, 60, case)
        except common.Hang:
            why = "[hang] the run did not return"
        return why is None, why or "ok"
    if "poll_interval" in case:
        try:
            why = common.with_timeout(poll_interval_case, 60, case)
        except common.Hang:
            why = "[hang] the run did not return"
        return why is None, why or "ok"
    if "late_join" in case:
        try:
            why = common.with_timeout(late_join_case, 60, case)
        except common.Hang:
            why = "[hang] the run did not return"
        return why is None, why or "ok"
    if "reuse" in case:
        try:
            why = common.with_timeout(reuse_case, 30, case)
        except common.Hang:
            why = "[hang] the run did not return"
        return why is None, why or "ok"
    if "async" in case:
        try:
            why = common.with_timeout(async_case, 30, case)
        except common.Hang:
            why = "[hang] the run did not return"
        return why is None, why or "ok"
    if "src" in case:
        why = source_case(case)
    elif "real" in case:
        try:
            why = common.with_timeout(real_case, 60, case)
        except common.Hang:
            why = "[hang] the run did not return"
    elif "sched" in case:
        o = runnerio.run_impl(case)
        why = oracle_gated(case, o, runnerio.impl_obs(case, o))
    else:
        return True, "unknown case"
    return why is None, why or "ok"


def run(ctx):
    out = Outcome()
    rng = ctx.rng
    gcases = [runnerio.gen_case(rng, rng.choice(["timer", "timer", "timer", None])) for _ in range(ctx.n(2500, 25000))]
    # the three race schedules of the repaired finding #26 (Props/C14.lean race_*_repaired) and the residual one first
    base = {"has_in": False, "has_t": True, "pty": False, "echo_opt": 0, "in_tty": False, "hold": False, "start_fails": False,
            "read_size": 1000, "out": [], "err": [], "ins": None, "hide": True, "explicit": True}
    w1 = dict(base, warn=True, sched="timer,timer,main,main,main,out,main,err,main,main,main".split(","))
    w2 = dict(base, warn=False, sched="x0,main,main,timer,timer,timer,main,main,main,out,main,err,main,main,main".split(","))
    w3 = dict(base, warn=False, sched="x0,main,main,main,main,main,out,main,err,main,main,timer,main,timer,timer".split(","))
    w4 = dict(base, warn=False, sched="x0,timer,timer,timer,main,main,main,out,main,err,main,main,main".split(","))
    runnerio.run_cases(ctx, out, [w1, w2, w3, w4] + gcases, oracle=oracle_gated)
    extra = [{"src": "kwarg"}, {"src": "kwarg0"}, {"src": "kwargNone"}, {"src": "config"}, {"src": "none"}, {"src": "cli", "argv": ["-T", "5"]},
             {"src": "cli", "argv": ["--command-timeout=5"]}, {"src": "cli", "argv": ["-T5"]},
             {"src": "file"}, {"src": "envvar"}, {"src": "file", "argv": ["-T", "5"]}, {"src": "envvar", "argv": ["-T5"]},
             {"src": "cli", "argv": [], "post": ["-T", "5"]}, {"src": "cli", "argv": [], "post": ["-T5"]},
             {"src": "cli", "argv": [], "post": ["--command-timeout=5"]}, {"src": "cli", "argv": [], "post": ["--command-timeout", "5"]},
             {"src": "cli", "argv": ["-e"], "post": ["-T=5"]}, {"src": "file", "post": ["-T", "5"]}, {"src": "envvar", "post": ["-T5"]},
             {"reuse": True, "rc": 0}, {"reuse": True, "rc": 2}]
    for pty in (False, True):
        for cmd in ("exit 3", "true"):
            extra.append({"async": True, "cmd": cmd, "pty": pty})
        extra.append({"late_join": True, "pty": pty})
        extra.append({"poll_interval": True, "polls": 400 if pty else 60, "timeout": pty})
        extra.append({"reuse_real": True, "pty": pty, "runs": [["true", 5, False], ["sleep 2", 0.3, True], ["echo fine", 5, False]]})
        extra.append({"reuse_real": True, "pty": pty, "runs": [["sleep 2", 0.3, True], ["sleep 2", 0.3, True], ["true", 5, False]]})
        extra.append({"reuse_real": True, "pty": pty, "runs": [["sleep 2", 0.3, True], ["echo second", None, False], ["true", None, False]]})
    # mixed histories: pty and plain runs on ONE runner object, the overrunning run at every position
    mixes = [[True, False], [False, True], [True, False, False], [False, True, False], [True, True, False], [False, False, True]]
    for mix in mixes:
        for over in range(len(mix)):
            runs = [(["sleep 2", 0.3, True, p] if i == over else [rng.choice(["true", "echo fine"]), rng.choice([5, None]), False, p])
                    for i, p in enumerate(mix)]
            extra.append({"reuse_real": True, "pty": None, "runs": runs})
    for pty in (False, True):
        for warn in (False, True):
            extra.append({"real": "sleep", "cmd": "sleep 5", "pty": pty, "warn": warn})
            extra.append({"real": "quick", "pty": pty, "warn": warn})
    extra.append({"real": "sleep", "cmd": "trap '' TERM INT; sleep 5", "pty": False, "warn": False})
    extra.append({"real": "grandchild"})
    extra.append({"real": "exempt", "pty": False})
    extra.append({"real": "exempt", "pty": True})
    for c in extra:
        out.case(c, True)
        out.hist["extra:" + (c.get("src") and "source" or c.get("real") or ("reuse" if "reuse" in c else "reuse_real" if "reuse_real" in c
                             else "late_join" if "late_join" in c else "poll_interval" if "poll_interval" in c else "async"))] += 1
        try:
            ok, why = replay(c)
        except OSError as e:
            out.hist["real_skipped:" + type(e).__name__] += 1
            continue
        except Exception as e:
            ok, why = False, "[unexpected-exception] %r" % e
        if not ok:
            out.fail(c, why)
    out.extra["race_region_cases"] = out.hist.get("oracle_failure", 0)
    return out
