"""C15 - the command, options and environment actually used are the documented resolution."""
import contextlib
import io
import itertools
import os
import sys
from unittest import mock

import common
from common import Outcome, LeanDriver

ID = "C15"
PROPS = ["Invoke/Props/C15.lean"]
TARGETS = ["drv_runopts"]
DRIVER_ROOTS = ["Driver/Runopts.lean"]
GENERATED = ["Runner", "RunnerState"]
RULE = ("cases = (a) run: (kwargs, config overrides of run.*, timeouts.command, parent environment) through the REAL "
        "Runner.run/_setup/_unify_kwargs_with_config/generate_env over a capturing scripted process - every single key x "
        "{kwarg absent,None,False,other} x {config absent,None,False,other}; the interacting keys hide/echo/dry/asynchronous/"
        "disown/out_stream/err_stream/in_stream exhaustively over small domains with the source (kwarg or config) drawn at "
        "random; random 3-way and n-way combinations of all keys; (b) hide: normalize_hide on vocabulary x stream overrides; "
        "(c) ctx: random nested cd/prefix/try block programs with run, sudo (user kwarg/config, env), observation of the two "
        "stacks, exceptions raised in blocks (explicit raise or a failing command) on a real Context whose runners.local is the "
        "capturing runner; (d) cwd: Context.cwd on random path stacks.  non-trivial = at least one option given / at least one "
        "block; distinct = distinct case dicts")
TRUSTED = ["Lean 4.33 kernel", "axioms propext/Classical.choice/Quot.sound only",
           "tools/extractors/runner.py (run keys/defaults from Config.global_defaults(), hide vocabulary by probing normalize_hide)",
           "harness/props/c15.py correspondence + canonicalisation",
           "models Invoke/Model/RunOpts.lean, Invoke/Model/Context.lean hand-written, tied by generated tables and correspondence",
           "CPython dict / str.join / os.path.join / contextlib.contextmanager semantics (modelled)"]
ASSUMPTIONS = ["option values range over None | False | True | strings | stream objects | string mappings | lists "
               "(the documented types); `env` is a mapping wherever it is given",
               "'full hiding suppresses echo' is demanded for the documented trigger hide=True only (DESIGN C15 note)",
               "posixpath.join / str.replace on the generated path alphabet are as modelled (checked differentially by the cwd cases)"]
LEVEL_TEXT = ("Lean 4 proofs over the run-option keys/defaults REGENERATED from Config.global_defaults() and the hide vocabulary "
              "probed from normalize_hide: opt_resolution (every key: kwarg if not None else config else default; timeout by kwarg "
              "presence), echo_hide_resolution + interactions (hide=True => no echo; dry => echo and nothing started; asynchronous "
              "=> hide both minus overridden streams, stdin disconnected unless given; asynchronous+disown => ValueError and "
              "unknown kwarg => TypeError before start), normalize_hide_table, generate_env, prefix_composition / "
              "nested_prefixes_in_order / nested_cds_in_order, prefix_stack_restored (any nesting, normal or exceptional exit, by "
              "induction over block programs), sudo_command / sudo_wraps_prefixed_command, reused_runner_starts_like_fresh (RunnerState "
              "table regenerated from the real Local: no option, watcher list or codec of an earlier run on the same runner object is in "
              "effect); the models are tied to the "
              "implementation on every run by the generated tables and a differential correspondence check through the real "
              "Runner and Context, plus a direct oracle")
TECHNIQUE = "Lean 4 theorems (list/assoc-list induction, decide on regenerated tables) + model/implementation correspondence with a capturing runner"

PENV = {"HOME": "/h", "A": "parent", "P": "1"}
BOOL = [None, False, True]
S_OUT, S_ERR, S_IN, S_CFG_OUT, S_CFG_IN = {"stream": 10}, {"stream": 11}, {"stream": 12}, {"stream": 13}, {"stream": 14}
DOM_KW = {
    "asynchronous": BOOL, "disown": BOOL, "dry": BOOL, "echo": BOOL, "echo_stdin": BOOL, "fallback": BOOL, "pty": BOOL,
    "replace_env": BOOL, "warn": BOOL,
    "encoding": [None, "utf-8", "latin-1"], "shell": [None, "/bin/sh", "/bin/zsh", "/opt/{sh}/%s"],
    "env": [None, {"map": {}}, {"map": {"A": "1"}}, {"map": {"A": "2", "B": "x"}}, {"map": {"T{0}": "%s{}", "A": "${A}"}}],
    "hide": [None, False, True, "out", "err", "both", "stdout", "stderr"],
    "out_stream": [None, S_OUT], "err_stream": [None, S_ERR], "in_stream": [None, False, S_IN],
    "echo_format": [None, "RUN {command}"], "watchers": [None, {"list": 0}, {"list": 1}],
}
DOM_CFG = dict(DOM_KW)
DOM_CFG.update({
    "env": [{"map": {}}, {"map": {"A": "0"}}, {"map": {"C": "3"}}],
    "echo_format": ["CFG {command}"],
    "out_stream": [None, S_CFG_OUT], "err_stream": [None, {"stream": 15}], "in_stream": [None, False, S_CFG_IN],
    "watchers": [None, {"list": 0}, {"list": 2}],
})


# ------------------------------------------------------------------ encoding

def enc_chars(s):
    return ".".join(str(ord(c)) for c in s)


def enc_map(d):
    return ";".join("%s~%s" % (enc_chars(k), enc_chars(v)) for k, v in sorted(d.items()))


def enc_v(v):
    """case value -> protocol"""
    if v is None:
        return "N"
    if v is False:
        return "F"
    if v is True:
        return "T"
    if isinstance(v, int):
        return "I%d" % v
    if isinstance(v, str):
        return "S" + enc_chars(v)
    if "stream" in v:
        return "X%d" % v["stream"]
    if "map" in v:
        return "M" + enc_map(v["map"])
    return "L%d" % v["list"]


def enc_kw(d):
    return ",".join("%s=%s" % (k, enc_v(v)) for k, v in d.items()) or "-"


class TS:
    """a tagged stream object that survives copy.copy (config values are copied)"""

    def __init__(self, tag):
        self.tag = tag
        self.buf = []

    def write(self, s):
        self.buf.append(s)

    def flush(self):
        pass

    def read(self, n):
        return ""


def real(v):
    if v is None or isinstance(v, (bool, int, str)):
        return v
    if "stream" in v:
        return TS(v["stream"])
    if "map" in v:
        return dict(v["map"])
    from invoke.watchers import StreamWatcher
    return [StreamWatcher() for _ in range(v["list"])]


def to_case(x):
    """a built-in default (real object) in the JSON case encoding"""
    if hasattr(x, "items"):
        return {"map": {str(k): str(v) for k, v in x.items()}}
    if isinstance(x, (list, tuple)):
        return {"list": len(x)}
    return x


def enc_real(x):
    """real object -> protocol"""
    if x is None:
        return "N"
    if x is False:
        return "F"
    if x is True:
        return "T"
    if isinstance(x, int):
        return "I%d" % x
    if isinstance(x, str):
        return "S" + enc_chars(x)
    if isinstance(x, TS):
        return "X%d" % x.tag
    if hasattr(x, "items"):
        return "M" + enc_map({str(k): str(v) for k, v in x.items()})
    if isinstance(x, (list, tuple)):
        return "L%d" % len(x)
    return "?" + type(x).__name__


# ------------------------------------------------------------------ (a) run

def run_line(case):
    return "run %s %s %s %s M%s" % (enc_chars(case["cmd"]), enc_kw(case["kw"]), enc_kw(case["cfg"]), enc_v(case["cfg_timeout"]),
                                    enc_map(case["penv"]))


def observe_run(call, get_runner, cmd, kw_case, penv, extra_kw=None, echo_probe=False):
    """one real run through `call(cmd, **kwargs)` -> (canonical line, facts for the oracle); `get_runner()` returns the
    Runner object that executed it.  extra_kw: real objects overriding the decoded kwargs; echo_probe: the command also
    produces output that may be mirrored to stdout, so "echoed" means "the command text itself was printed"."""
    kw = {k: real(v) for k, v in kw_case.items()}
    kw.update(extra_kw or {})
    fin, fout, ferr = TS(0), TS(1), TS(2)
    facts = {"exc": None, "echoed": "", "started": None}
    with mock.patch.dict(os.environ, penv, clear=True), mock.patch.object(sys, "stdin", fin), \
            mock.patch.object(sys, "stdout", fout), mock.patch.object(sys, "stderr", ferr):
        try:
            res = call(cmd, **kw)
            if res is not None and hasattr(res, "join"):
                res = res.join()
        except Exception as e:  # noqa
            facts["exc"] = e
    r = get_runner()
    facts["echoed"] = "".join(fout.buf)
    if echo_probe and cmd not in facts["echoed"]:
        facts["echoed"] = ""
    facts["started"] = r.started
    facts["runner"] = r
    # snapshot: the runner object may be reused for the next run of a history
    facts["opts"] = dict(getattr(r, "opts", {}) or {}) if facts["exc"] is None else {}
    facts["streams"] = dict(getattr(r, "streams", {}) or {}) if facts["exc"] is None else {}
    if facts["exc"] is not None:
        e = facts["exc"]
        name = "TypeError" if isinstance(e, TypeError) else "ValueError" if isinstance(e, ValueError) else "exc:" + type(e).__name__
        return ("err " + name) if not name.startswith("exc:") else name, facts
    o = r.opts
    st = r.started
    line = ("ok echo=%d start=%s shell=%s startenv=%s env=%s hide=%s out=%s err=%s in=%s timeout=%s opts=%s" % (
        1 if facts["echoed"] else 0,
        "-" if st is None else "c" + enc_chars(st[0]),
        "-" if st is None else enc_real(st[1]),
        "-" if st is None else "e" + enc_map(st[2]),
        enc_map(dict(r.env)),
        "+".join(o["hide"]) or "-",
        enc_real(r.streams["out"]), enc_real(r.streams["err"]), enc_real(r.streams["in"]),
        enc_real(o["timeout"]),
        ",".join("%s=%s" % (k, enc_real(o[k])) for k in sorted(o) if k not in ("hide", "timeout"))))
    return line, facts


def make_config(case, extra=None):
    from invoke import Config
    cfg = {k: real(v) for k, v in case["cfg"].items()}
    ov = {"run": cfg, "timeouts": {"command": real(case["cfg_timeout"])}}
    ov.update(extra or {})
    return Config(overrides=ov, lazy=True)


def impl_run(case):
    """the real Runner over a capturing scripted process -> (canonical line, facts for the oracle)"""
    from fakerunner import Scripted
    from invoke import Context
    r = Scripted(Context(make_config(case)))
    return observe_run(r.run, lambda: r, case["cmd"], case["kw"], case["penv"])


def impl_hist(case):
    """object-reuse history: ONE Config (and Context, or even Runner) object used for several runs in a row with
    different kwargs, interleaved with blocks left by exceptions, sudo calls and fresh Contexts on the same Config.
    Every run must behave as if it were the first: returns [(line, facts, step)] for the run steps."""
    from fakerunner import Scripted
    from invoke import Context
    from invoke.watchers import StreamWatcher
    launched = []

    class Cap(Scripted):
        def __init__(self, context):
            super().__init__(context)
            launched.append(self)

    conf = make_config(case, {"runners": {"local": Cap}})
    c = Context(conf)
    reused = Scripted(c) if case["mode"] == "runner" else None
    results = []
    for step in case["steps"]:
        what = step["do"]
        if what == "run":
            if reused is not None:
                reused.started = None
                line, facts = observe_run(reused.run, lambda: reused, step["cmd"], step["kw"], case["penv"])
            else:
                n = len(launched)
                line, facts = observe_run(c.run, lambda: launched[n], step["cmd"], step["kw"], case["penv"])
            results.append((line, facts, step))
        elif what == "newctx":
            c = Context(conf)
            if reused is not None:
                reused = Scripted(c)
        elif what == "block":
            cm = c.cd(step["arg"]) if step["k"] in ("C", "GC") else c.prefix(step["arg"])
            try:
                if step["k"].startswith("G"):
                    g = held_open(cm)
                    next(g)
                    try:
                        if step["exc"] is not None:
                            raise EXC_KINDS[step["exc"]]()
                    finally:
                        g.close()
                else:
                    with cm:
                        if step["exc"] is not None:
                            raise EXC_KINDS[step["exc"]]()
            except (Boom, KeyboardInterrupt, SystemExit, GeneratorExit):
                pass
        elif what == "sudo":
            kw = dict(hide=True, in_stream=False)
            if step.get("env"):
                kw["env"] = {n: "v" for n in step["env"]}
            if step.get("watch"):
                kw["watchers"] = [StreamWatcher()]
            with mock.patch.dict(os.environ, case["penv"], clear=True), contextlib.redirect_stdout(io.StringIO()), \
                    contextlib.redirect_stderr(io.StringIO()):
                try:  # only a source of leftover state; whether this call itself is acceptable is not checked here
                    res = c.sudo("id", **kw)
                    if res is not None and hasattr(res, "join"):
                        res.join()
                except Exception:  # noqa
                    pass
    return results


# ------------------------------------------------------------------ (g) runs in a row on ONE runner object

class EndsWith:
    """a stateless watcher (safe to share between runs, e.g. through the config): answers when the output seen so far
    ENDS with the pattern - the scripted output is chunked so that this happens exactly once per occurrence"""

    def __init__(self, pattern, response):
        self.pattern, self.response = pattern, response

    def submit(self, stream):
        return [self.response] if stream.endswith(self.pattern) else []


def make_watchers(spec, flavour):
    """spec: list of [pattern, response]; flavour "responder" = the real invoke Responder (fresh object per run)"""
    import re as _re
    from invoke.watchers import Responder
    if flavour == "responder":
        return [Responder(_re.escape(p), r) for p, r in spec]
    return [EndsWith(p, r) for p, r in spec]


def rhist_model_kw(run):
    kw = dict(run["kw"])
    w = run["w"]
    if w != "absent":
        kw["watchers"] = None if w is None else {"list": len(w)}
    return kw


def rhist_states(case):
    """the configuration AT THE TIME OF EACH CALL: the initial overrides folded with the in-place edits made between the
    runs.  An edit is [how, key, value]: how = "attr" (`config.run.<key> = v`) | "item" (`config.run[key] = v`) |
    "envset" (`config.run.env[name] = v`, key = name) | "w" (`config.run.watchers = [...]`, value = watcher spec) |
    "timeout" (`config.timeouts.command = v`).  Scalars and lists: the last write wins; env: entries accumulate.
    Returns [(cfg for the model/oracle, timeouts.command, configured watcher spec or "absent")] per run."""
    cfg, ct, cw = dict(case["cfg"]), case["cfg_timeout"], case["cfg_w"]
    out = []
    for run in case["runs"]:
        for how, key, val in run.get("cfg_edit", []):
            if how in ("attr", "item"):
                cfg[key] = val
            elif how == "envset":
                cfg["env"] = {"map": dict((cfg.get("env") or {"map": {}})["map"], **{key: val})}
            elif how == "w":
                cw = val
            elif how == "timeout":
                ct = val
        c = dict(cfg)
        if cw != "absent":
            c["watchers"] = {"list": len(cw)}
        out.append((c, ct, cw))
    return out


def apply_cfg_edits(conf, run):
    for how, key, val in run.get("cfg_edit", []):
        if how == "attr":
            setattr(conf.run, key, real(val))
        elif how == "item":
            conf.run[key] = real(val)
        elif how == "envset":
            conf.run.env[key] = val
        elif how == "w":
            conf.run.watchers = make_watchers(val, "stateless")
        elif how == "timeout":
            conf.timeouts.command = val


def rhist_penv(case, run):
    """the parent environment AT THE TIME OF THAT CALL (os.environ is added to / changed / deleted from between runs)"""
    return run.get("penv", case["penv"])


def rhist_lines(case):
    return [run_line({"cmd": r["cmd"], "kw": rhist_model_kw(r), "cfg": cfg, "cfg_timeout": ct, "penv": rhist_penv(case, r)})
            for r, (cfg, ct, _) in zip(case["runs"], rhist_states(case))]


def expected_writes(case, run, cfg_w=None):
    """the ACTIVE watchers of a run are the resolution of THAT run's own call: kwarg if given (not None), else config,
    else the built-in default (none); each answers once per occurrence of its pattern in that run's output"""
    w = run["w"]
    cfg_w = case["cfg_w"] if cfg_w is None else cfg_w
    active = w if w not in ("absent", None) else ([] if cfg_w == "absent" else cfg_w)
    text = "".join(run["out"])
    return sorted(r for p, r in active for _ in range(text.count(p)))


def check_rhist(case, defaults):
    from fakerunner import Scripted
    from invoke import Context

    class Re(Scripted):
        def rearm(self, out, exited):
            self._out, self._err, self._exited = [x.encode() for x in out if x], [], exited  # an empty read means EOF
            self._drained = {"out": False, "err": self._pty}
            self.stdin_writes, self.stdin_closed, self.started, self.killed = [], 0, None, 0

    conf = make_config({"cfg": {k: v for k, v in case["cfg"].items()}, "cfg_timeout": case["cfg_timeout"]})
    if case["cfg_w"] != "absent":
        conf.run.watchers = make_watchers(case["cfg_w"], "stateless")
    r = Re(Context(conf))
    lines, why = [], None
    states = rhist_states(case)
    for i, run in enumerate(case["runs"]):
        cfg_model, cfg_timeout, cfg_w = states[i]
        apply_cfg_edits(conf, run)   # the SAME config object is edited in place between the runs
        r.rearm(run["out"], run.get("exited", 0))
        extra = {}
        if run["w"] not in ("absent", None):
            extra["watchers"] = make_watchers(run["w"], run.get("flavour", "stateless"))
        kw_model = rhist_model_kw(run)
        penv = rhist_penv(case, run)
        line, facts = observe_run(r.run, lambda: r, run["cmd"], kw_model, penv, extra_kw=extra, echo_probe=True)
        lines.append(line)
        if why is not None:
            continue
        w = oracle_run({"cmd": run["cmd"], "kw": kw_model, "cfg": cfg_model, "cfg_timeout": cfg_timeout,
                        "penv": penv}, facts, defaults)
        if w:
            why = "run #%d of %d on one runner object (parent environment at the earlier calls: %r; config edited in place before this call: %r): %s" % (
                i + 1, len(case["runs"]), [rhist_penv(case, x) for x in case["runs"][:i]], run.get("cfg_edit", []), w)
            continue
        got = sorted(x.decode("utf-8", "replace") for x in r.stdin_writes)
        ran = facts["exc"] is None and facts["started"] is not None and not facts["opts"].get("disown")
        want = expected_writes(case, run, cfg_w) if ran else []
        if got != want:
            why = ("run #%d of %d on one runner object: %r was written to the command's stdin, the watchers of THIS call "
                   "(kwarg %s, config %s) demand %r; output was %r; earlier runs had watchers %r" % (
                       i + 1, len(case["runs"]), got, run["w"], cfg_w, want, "".join(run["out"]),
                       [x["w"] for x in case["runs"][:i]]))
    return " ## ".join(lines), why


def check_rhist_real(case):
    """the same on a REAL `Local` runner and a real child that prompts and reads an answer"""
    from invoke import Context, Config
    from invoke.runners import Local
    from invoke.watchers import Responder
    r = Local(Context(Config(lazy=True)))
    got = []
    saved = os.environ.get("VERIF_X")
    try:
        return _rhist_real_runs(case, r, got, Responder)
    finally:
        if saved is None:
            os.environ.pop("VERIF_X", None)
        else:
            os.environ["VERIF_X"] = saved


def _rhist_real_runs(case, r, got, Responder):
    for run in case["runs"]:
        answered = run["w"] not in ("absent", None, [])
        cmd = "printf 'name? '; read -t %s a; echo \"got:$a\"" % ("5" if answered else "0.25")
        kw = dict(hide=True, in_stream=False, warn=True)
        if run["w"] != "absent":
            kw["watchers"] = None if run["w"] is None else [Responder("name\\? ", resp) for resp in run["w"]]
        want = "name? got:%s\n" % (run["w"][0].strip() if answered else "")
        if "x" in run:  # the parent environment is edited between the runs; the child reports what it sees
            if run["x"] is None:
                os.environ.pop("VERIF_X", None)
            else:
                os.environ["VERIF_X"] = run["x"]
            seen = run["x"]
            if run.get("env") is not None:
                kw["env"] = dict(run["env"])
                seen = run["env"].get("VERIF_X", seen)
                if run.get("replace"):
                    kw["replace_env"] = True
                    kw["env"].setdefault("PATH", os.environ.get("PATH", "/usr/bin:/bin"))
                    seen = run["env"].get("VERIF_X")
            cmd += "; echo \"env:${VERIF_X-unset}\""
            want += "env:%s\n" % ("unset" if seen is None else seen)
        res = r.run(cmd, **kw)
        got.append(res.stdout)
        if res.stdout != want:
            return "|".join(got), ("run #%d on one real Local runner (watchers of this call: %r, of the earlier calls: %r): the child "
                                   "saw %r, demand %r" % (len(got), run["w"], [x["w"] for x in case["runs"][:len(got) - 1]],
                                                          res.stdout, want))
    return "|".join(got), None


# ------------------------------------------------------------------ (h) rejections on the REAL Local runner

def reject_kw(case):
    kw = dict(case["extra"])
    kw.update(case["bad"])
    if case["async_disown"] in ("kw", "mixed"):
        kw["asynchronous"] = True
    if case["async_disown"] == "kw":
        kw["disown"] = True
    return kw


def reject_cfg(case):
    return {"disown": True} if case["async_disown"] == "mixed" else \
        {"asynchronous": True, "disown": True} if case["async_disown"] == "cfg" else {}


def reject_line(case):
    return run_line({"cmd": "CMD", "kw": reject_kw(case), "cfg": reject_cfg(case), "cfg_timeout": None, "penv": PENV})


def check_reject_real(case):
    """unknown options / asynchronous+disown on the real `Local` (through Context.run, Context.sudo, Local(ctx).run): the
    exception that escapes is the documented TypeError / ValueError naming the option, nothing is started (the command
    would leave a marker file), no thread and no file descriptor is left behind"""
    import gc
    import shutil
    import tempfile
    import threading
    from invoke import Context, Config
    from invoke.runners import Local
    tmp = tempfile.mkdtemp(prefix="verif-c15-")
    marker = os.path.join(tmp, "started")
    try:
        c = Context(Config(overrides={"run": reject_cfg(case)}, lazy=True))
        call = {"ctx.run": c.run, "ctx.sudo": c.sudo, "local.run": Local(c).run}[case["via"]]
        gc.collect()
        threads0, fds0 = threading.active_count(), len(os.listdir("/proc/self/fd"))
        exc = None
        sink = io.StringIO()
        with contextlib.redirect_stdout(sink), contextlib.redirect_stderr(sink):
            try:
                res = call("touch " + marker, in_stream=False, **reject_kw(case))
                if res is not None and hasattr(res, "join"):
                    res.join()
            except BaseException as e:  # noqa
                exc = e
        gc.collect()
        threads1, fds1 = threading.active_count(), len(os.listdir("/proc/self/fd"))
        started = os.path.exists(marker)
    finally:
        shutil.rmtree(tmp, ignore_errors=True)
    line = "err " + type(exc).__name__ if exc is not None else "ok"
    msg = str(exc) if exc is not None else ""
    ok_type = isinstance(exc, TypeError) and any(repr(n) in msg or n in msg for n in case["bad"])
    ok_value = isinstance(exc, ValueError) and "asynchronous" in msg and "disown" in msg
    what = "%s(..., %s) with run config %r" % (case["via"], ", ".join("%s=%r" % kv for kv in reject_kw(case).items()), reject_cfg(case))
    why = None
    if case["bad"] and case["async_disown"] != "no":
        if not (ok_type or ok_value):
            why = "%s: must be rejected with the documented TypeError naming the option or ValueError naming asynchronous/disown; got %s: %s" % (
                what, type(exc).__name__, msg[:120])
    elif case["bad"]:
        if not ok_type:
            why = "%s: the unknown option must be rejected with TypeError naming it (one of %r); got %s: %s" % (
                what, sorted(case["bad"]), type(exc).__name__, msg[:120])
    elif not ok_value:
        why = "%s: asynchronous together with disown must be rejected with ValueError naming them; got %s: %s" % (
            what, type(exc).__name__, msg[:120])
    if why is None and started:
        why = "%s: was rejected, but the command had been started (marker file exists)" % what
    if why is None and (threads1 > threads0 or fds1 > fds0):
        why = "%s: rejected, but threads %d -> %d, open fds %d -> %d" % (what, threads0, threads1, fds0, fds1)
    return line, why


def hist_lines(case):
    return [run_line({"cmd": st["cmd"], "kw": st["kw"], "cfg": case["cfg"], "cfg_timeout": case["cfg_timeout"], "penv": case["penv"]})
            for st in case["steps"] if st["do"] == "run"]


def check_hist(case, defaults):
    res = impl_hist(case)
    why = None
    for i, (line, facts, step) in enumerate(res):
        w = oracle_run({"cmd": step["cmd"], "kw": step["kw"], "cfg": case["cfg"], "cfg_timeout": case["cfg_timeout"],
                        "penv": case["penv"]}, facts, defaults)
        if w and why is None:
            why = "run #%d of a history on one %s object (after %d earlier steps): %s" % (
                i + 1, "Runner" if case["mode"] == "runner" else "Context/Config", case["steps"].index(step), w)
    return " ## ".join(line for line, _, _ in res), why


HIDE_TABLE = {None: [], False: [], True: ["stdout", "stderr"], "both": ["stdout", "stderr"], "out": ["stdout"],
              "stdout": ["stdout"], "err": ["stderr"], "stderr": ["stderr"]}


def oracle_run(case, facts, defaults):
    """direct statement of the property on what the real runner did"""
    kw, cfg = case["kw"], case["cfg"]

    def eff(k):  # per-call value if given, else configured, else built-in default
        if kw.get(k) is not None:
            return kw[k]
        if k in cfg:
            return cfg[k]
        return to_case(defaults[k])

    exc, started, r = facts["exc"], facts["started"], facts["runner"]
    unknown = [k for k in kw if k not in defaults and k != "timeout"]
    if unknown:
        if not isinstance(exc, TypeError):
            return "unknown option %r must be rejected with TypeError, got %r" % (unknown[0], exc)
        if started is not None:
            return "a process was started although an unknown option was given"
        return None
    if eff("asynchronous") and eff("disown"):
        if not isinstance(exc, ValueError):
            return "asynchronous together with disown must be rejected with ValueError, got %r" % (exc,)
        if started is not None:
            return "a process was started although asynchronous and disown were both requested"
        return None
    hide = eff("hide")
    if isinstance(hide, str) and hide not in HIDE_TABLE:
        return None  # an undocumented hide word: the statement says nothing
    if exc is not None:
        return "unexpected %s: %s" % (type(exc).__name__, exc)
    o = facts["opts"]
    # every option = per-call value if given, else configured, else default (echo/hide: see the interactions below)
    for k in defaults:
        if k in ("echo", "hide"):
            continue
        if enc_real(o[k]) != enc_v(eff(k)):
            return "option %s resolved to %s; kwarg=%s config=%s default=%s demand %s" % (
                k, enc_real(o[k]), enc_v(kw[k]) if k in kw else "absent", enc_v(cfg[k]) if k in cfg else "absent",
                enc_real(defaults[k]), enc_v(eff(k)))
    want_timeout = kw["timeout"] if "timeout" in kw else case["cfg_timeout"]
    if enc_real(o["timeout"]) != enc_v(want_timeout):
        return "timeout resolved to %s, demand %s" % (enc_real(o["timeout"]), enc_v(want_timeout))
    # interactions
    want_echo = bool(eff("echo"))
    if hide is True:
        want_echo = False
    if eff("dry") is True:
        want_echo = True
    if bool(facts["echoed"]) != want_echo:
        return "echo: command %s echoed, demand %s (echo=%s hide=%s dry=%s)" % (
            "was" if facts["echoed"] else "was not", want_echo, enc_v(eff("echo")), enc_v(hide), enc_v(eff("dry")))
    if want_echo and case["cmd"] not in facts["echoed"]:
        return "echoed text %r does not contain the command" % facts["echoed"]
    if eff("dry"):
        if started is not None:
            return "dry-run started a process"
        return None
    if started is None:
        return "no process was started"
    cmd, shell, env = started
    if cmd != case["cmd"]:
        return "command handed to start is %r, given %r" % (cmd, case["cmd"])
    if enc_real(shell) != enc_v(eff("shell")):
        return "shell handed to start is %r, demand %r" % (shell, eff("shell"))
    given = (eff("env") or {"map": {}})["map"]
    want_env = dict(given) if eff("replace_env") else dict(case["penv"], **given)
    if env != want_env:
        return "child environment %r, demand %r (replace_env=%s)" % (env, want_env, eff("replace_env"))
    # hiding and streams
    asy = bool(eff("asynchronous"))
    want_hide = list(HIDE_TABLE[True if asy else hide])
    outs, errs, ins = eff("out_stream"), eff("err_stream"), eff("in_stream")
    if outs is not None and "stdout" in want_hide:
        want_hide.remove("stdout")
    if errs is not None and "stderr" in want_hide:
        want_hide.remove("stderr")
    if list(o["hide"]) != want_hide:
        return "hidden streams %r, demand %r (hide=%s asynchronous=%s out_stream %s err_stream %s)" % (
            list(o["hide"]), want_hide, enc_v(hide), asy, "given" if outs is not None else "default", "given" if errs is not None else "default")
    want_out = "X1" if outs is None else enc_v(outs)
    want_err = "X2" if errs is None else enc_v(errs)
    want_in = enc_v(ins) if ins is not None else ("F" if asy else "X0")
    got = (enc_real(facts["streams"]["out"]), enc_real(facts["streams"]["err"]), enc_real(facts["streams"]["in"]))
    if got != (want_out, want_err, want_in):
        return "streams out/err/in = %s, demand %s" % (got, (want_out, want_err, want_in))
    return None


def check_run(case, defaults):
    line, facts = impl_run(case)
    return line, oracle_run(case, facts, defaults)


# ------------------------------------------------------------------ (b) hide

HIDE_WORDS = [None, False, True, "out", "stdout", "err", "stderr", "both", "all", "bogus", ""]


def check_hide(case):
    from invoke.runners import normalize_hide
    v = case["val"]
    try:
        got = list(normalize_hide(v, TS(10) if case["out"] else None, TS(11) if case["err"] else None))
    except ValueError:
        got = None
    line = "ValueError" if got is None else ("+".join(got) or "-")
    why = None
    if v in HIDE_TABLE or v is None or v is False or v is True:
        want = list(HIDE_TABLE[v])
        if case["out"] and "stdout" in want:
            want.remove("stdout")
        if case["err"] and "stderr" in want:
            want.remove("stderr")
        if got != want:
            why = "normalize_hide(%r, out given=%s, err given=%s) = %r, documented %r" % (v, case["out"], case["err"], got, want)
    return line, why


# ------------------------------------------------------------------ (c) block programs on a real Context

OPEN = ("C", "P", "Y", "GC", "GP")


class Boom(Exception):
    pass


# how a block is left exceptionally: an Exception subclass, and the BaseExceptions that are NOT Exceptions
EXC_KINDS = {0: Boom, 1: KeyboardInterrupt, 2: SystemExit, 3: GeneratorExit}


def kind_name(e):
    from invoke.exceptions import Failure
    if isinstance(e, Failure):
        return "Failure"
    for n in (KeyboardInterrupt, SystemExit, GeneratorExit):
        if isinstance(e, n):
            return n.__name__
    return "Exception"


def held_open(cm):
    """a generator that holds the block open while suspended; closing it throws GeneratorExit at the yield"""
    with cm:
        yield


def match_end(toks, pos):
    """index just after the E closing the block whose body starts at pos"""
    depth = 0
    i = pos
    while i < len(toks):
        t = toks[i]
        if t[0] in OPEN:
            depth += 1
        elif t[0] == "E":
            if depth == 0:
                return i + 1
            depth -= 1
        i += 1
    return len(toks)


def enc_strs(xs):
    return ";".join("e" + enc_chars(x) for x in xs)


def tok_line(t):
    k = t[0]
    if k in ("R", "Q", "C", "P", "GC", "GP"):
        return k + enc_chars(t[1])
    if k == "X":
        return "X%d" % t[1]
    if k == "U":
        u = t[2]
        return "U%s/%s/%s" % (enc_chars(t[1]), "A" if u == "absent" else "N" if u is None else "S" + enc_chars(u),
                              ":".join("e" + enc_chars(n) for n in t[3]))
    return k


def ctx_line(case):
    return "ctx %s %s %s" % (enc_chars(case["prompt"]), "N" if case["user"] is None else "S" + enc_chars(case["user"]),
                             ",".join(tok_line(t) for t in case["toks"]))


def expected_cwd(cds):
    """independent statement: paths from the last absolute (~ or /) one, spaces escaped, joined like a shell path"""
    if not cds:
        return ""
    start = 0
    for i, p in enumerate(cds):
        if p.startswith("/") or p.startswith("~"):
            start = i
    return os.path.join(*[p.replace(" ", "\\ ") for p in cds[start:]])


def impl_ctx(case):
    """interpret the block program on a real Context; returns (canonical line, list of oracle failures)"""
    from fakerunner import Scripted
    from invoke import Context, Config
    from invoke.exceptions import Failure

    launched = []

    class Cap(Scripted):
        fail_next = False

        def __init__(self, context):
            super().__init__(context, exited=1 if Cap.fail_next else 0)
            Cap.fail_next = False
            launched.append(self)

    sudo_cfg = {"prompt": case["prompt"]}
    if case["user"] is not None:
        sudo_cfg["user"] = case["user"]
    if case.get("password") is not None:
        sudo_cfg["password"] = case["password"]
    c = Context(Config(overrides={"runners": {"local": Cap}, "sudo": sudo_cfg}, lazy=True))
    toks = case["toks"]
    events, problems = [], []
    quiet = dict(hide=True, in_stream=False)

    def prefixed(cmd, cds, pfs):
        d = expected_cwd(cds)
        return " && ".join((["cd " + d] if d else []) + list(pfs) + [cmd])

    def block(pos, cds, pfs):
        """run tokens from pos up to the closing E (exclusive); lexical context = cds, pfs"""
        while pos < len(toks):
            t = toks[pos]
            k = t[0]
            if k == "E":
                return
            if k in ("R", "Q"):
                Cap.fail_next = k == "Q"
                n = len(launched)
                crash = None
                try:
                    c.run(t[1], **quiet)
                except Failure:
                    raise
                except Exception as e:  # noqa - the text of a command must never make run() itself blow up
                    crash = e
                finally:
                    got = launched[n].started[0] if len(launched) > n and launched[n].started else None
                    events.append("r" + enc_chars(got if got is not None else "<nothing started>"))
                    want = prefixed(t[1], cds, pfs)
                    if got != want:
                        problems.append("run(%r) inside cd%r prefix%r handed %r to the shell, demand %r%s" % (
                            t[1], cds, pfs, got, want, "" if crash is None else " (run raised %s: %s)" % (type(crash).__name__, crash)))
                pos += 1
            elif k == "U":
                n = len(launched)
                kw = dict(quiet)
                if t[2] != "absent":
                    kw["user"] = t[2]
                if t[3]:
                    kw["env"] = {name: "v" for name in t[3]}
                crash = None
                try:
                    c.sudo(t[1], **kw)
                except Failure:
                    raise
                except Exception as e:  # noqa - texts are data: no character of them may make sudo() blow up
                    crash = e
                got = launched[n].started[0] if len(launched) > n and launched[n].started else None
                events.append("r" + enc_chars(got if got is not None else "<nothing started>"))
                user = case["user"] if t[2] == "absent" else t[2]
                want = "sudo -S -p '%s' " % case["prompt"]
                if t[3]:
                    want += "--preserve-env='%s' " % ",".join(t[3])
                if user is not None:
                    want += "-H -u %s " % user
                want += prefixed(t[1], cds, pfs)
                if got != want:
                    problems.append("sudo(%r, user=%r, env names %r) inside cd%r prefix%r ran %r, demand %r%s" % (
                        t[1], t[2], t[3], cds, pfs, got, want,
                        "" if crash is None else " (sudo raised %s: %s)" % (type(crash).__name__, crash)))
                pos += 1
            elif k == "O":
                events.append("s%s/%s" % (enc_strs(c.command_prefixes), enc_strs(c.command_cwds)))
                if list(c.command_prefixes) != list(pfs) or list(c.command_cwds) != list(cds):
                    problems.append("stacks are prefixes=%r cwds=%r, the enclosing blocks are prefixes=%r cwds=%r" % (
                        list(c.command_prefixes), list(c.command_cwds), pfs, cds))
                pos += 1
            elif k == "X":
                raise EXC_KINDS[t[1]]()
            elif k in ("GC", "GP"):
                end = match_end(toks, pos + 1)
                g = held_open(c.cd(t[1]) if k == "GC" else c.prefix(t[1]))
                next(g)
                try:
                    block(pos + 1, cds + [t[1]] if k == "GC" else cds, pfs + [t[1]] if k == "GP" else pfs)
                finally:
                    g.close()
                pos = end
            elif k == "C":
                end = match_end(toks, pos + 1)
                with c.cd(t[1]):
                    block(pos + 1, cds + [t[1]], pfs)
                pos = end
            elif k == "P":
                end = match_end(toks, pos + 1)
                with c.prefix(t[1]):
                    block(pos + 1, cds, pfs + [t[1]])
                pos = end
            elif k == "Y":
                end = match_end(toks, pos + 1)
                try:
                    block(pos + 1, cds, pfs)
                except BaseException as e:  # noqa - every kind must leave the stacks restored
                    if not isinstance(e, (Boom, Failure, KeyboardInterrupt, SystemExit, GeneratorExit)):
                        raise
                pos = end
            else:
                pos += 1

    raised = "-"
    sink = io.StringIO()
    with contextlib.redirect_stdout(sink), contextlib.redirect_stderr(sink):
        try:
            block(0, [], [])
        except (Boom, Failure, KeyboardInterrupt, SystemExit, GeneratorExit) as e:
            raised = kind_name(e)
    if list(c.command_prefixes) or list(c.command_cwds):
        problems.append("after the outermost block the stacks are prefixes=%r cwds=%r instead of empty" % (
            list(c.command_prefixes), list(c.command_cwds)))
    line = "%s raised=%s final=%s/%s" % ("|".join(events), raised, enc_strs(c.command_prefixes), enc_strs(c.command_cwds))
    return line, problems


def check_ctx(case):
    line, problems = impl_ctx(case)
    return line, (problems[0] if problems else None)


CMDS = ["ls", "make all", "x"]
PATHS = ["/a", "b", "~/c", "d e", "/", "x/", "", "~", "/var/www", "site 1"]
PREFIXES = ["act", "source /s", "export A=1", "p"]
# rare shapes: `~` and `/` in every position (leading, interior, trailing, doubled), empty pieces, spaces, shell
# metacharacters, long names, non-ASCII
ATOMS = ["~", "/", "~", "/", "a", "b", "tmp", " ", ".", "..", "$HOME", "&", ";", "*", "|", "'", '"', "\\", "(", ")",
         "\u00e9", "-", "=", "x" * 40]
RARE_PATHS = ["data/~tmp", "/~archive", "a/~", "~~", "//", "//x", "a//b", "~/", "/~", "~a", "a~", " ~", " /x", "~ ", "/ ",
              "x/~/y", "./~", "..", ".", "a b/~c d", "$(pwd)/~x", "a;b", "~user/dir", "/" + "n" * 60, "\u00e9t\u00e9/~"]
RARE_PREFIXES = ["", " ", "a && b", "x;y", "~", "/", "cd /~z", "'q'", '"q"', "$(p)", "export P=~/bin", "w" * 50, "a\\ b", "&&"]
RARE_CMDS = ["", " ", "ls ~/x", "echo '/~'", "a && b", "cd /~ && pwd", "z" * 50]


# texts that are special to Python's OWN string templating (str.format, %-formatting, string.Template): every text the
# caller supplies is data and must reach the shell verbatim
TPL = ["{", "}", "{}", "{0}", "{1}", "{{x}}", "${VAR}", "$V", "%s", "%(x)s", "%", "%%", "%d", "{command}", "{!r}", "{:>8}",
       "{0[0]}", "{a.b}", "}{"]
TPL_CMDS = ["find . -name '*.pyc' -exec rm {} ;", "echo ${HOME}", "awk '{print $1}' f", "mkdir -p /srv/{a,b}",
            "xargs -I{0} echo {0}", "echo {{x}}", "printf '%s\\n' x", "echo %(x)s", "date +%Y-%m-%d", "echo 100%", "echo {",
            "echo }", "echo {command}", "echo {1} {0}"]
TPL_PATHS = ["/srv/{a}", "{}", "~/${USER}", "d{0}", "%s", "/x/%(y)s", "{{z}}", "a}b{", "100%", "/{", "~}"]
TPL_PREFIXES = ["export P=${P}", "echo {}", "set -- {0}", "printf %s", "{{", "}}", '[ -n "${A:-}" ]', "%", "x={command}"]
TPL_USERS = ["{u}", "%s", "a{0}", "u}", "{}", "${U}"]
TPL_ENVS = ["{E}", "X%s", "A{0}", "${B}", "{}", "P%"]
TPL_PROMPTS = ["{}> ", "pw {0}: ", "%s? ", "{{p}} ", "[sudo] {user}: ", "%(p)s", "}"]
ATOMS += ["{", "}", "{}", "{0}", "%s", "%", "${V}", "{{", "}}"]


def rare(rng, fixed, plain, tpl):
    x = rng.random()
    if x < 0.35:
        return rng.choice(plain)
    if x < 0.55:
        return rng.choice(fixed)
    if x < 0.75:
        return rng.choice(tpl) if rng.random() < 0.6 else rng.choice(plain) + rng.choice(TPL) + rng.choice(["", "x", " y"])
    return "".join(rng.choice(ATOMS) for _ in range(rng.randint(1, 5)))


def gen_path(rng):
    return rare(rng, RARE_PATHS, PATHS, TPL_PATHS)


def gen_prefix(rng):
    return rare(rng, RARE_PREFIXES, PREFIXES, TPL_PREFIXES)


def gen_cmd(rng):
    return rng.choice(CMDS) if rng.random() < 0.6 else rare(rng, RARE_CMDS, CMDS, TPL_CMDS)


def gen_user_kw(rng):
    return rng.choice(["absent", "absent", None, "bob", rng.choice(TPL_USERS)])


def gen_env_names(rng):
    return rng.choice([[], [], ["A"], ["A", "B_C"], [rng.choice(TPL_ENVS)], ["A", rng.choice(TPL_ENVS)]])


def gen_prompt(rng):
    return rng.choice(["[sudo] password: ", "PW> ", rng.choice(TPL_PROMPTS)])


def gen_cfg_user(rng):
    return rng.choice([None, None, "root", "al", rng.choice(TPL_USERS)])


def template_family():
    """every templating token in every text position (command, cd path, prefix, sudo user from kwarg / from config,
    preserved env name, prompt), alone and embedded, for run AND sudo inside nested cd + prefix"""
    out = []
    for t in TPL:
        for w in (t, "a" + t + "b"):
            plain = dict(cmd="ls", path="/srv", pfx="act", ukw="absent", ucfg=None, env=[], prompt="PW> ")
            for pos in ("cmd", "path", "pfx", "ukw", "ucfg", "env", "prompt"):
                d = dict(plain)
                d[pos] = [w] if pos == "env" else w
                for with_user, with_env in ((False, False), (True, True)):
                    ukw = d["ukw"] if pos == "ukw" or not with_user else "bob"
                    env = d["env"] if pos == "env" or not with_env else ["A"]
                    toks = [["C", d["path"]], ["P", d["pfx"]], ["R", d["cmd"]], ["U", d["cmd"], ukw, env],
                            ["P", "inner"], ["U", d["cmd"], ukw, env], ["E"], ["E"], ["E"], ["U", d["cmd"], ukw, env], ["R", d["cmd"]]]
                    out.append({"kind": "ctx", "prompt": d["prompt"], "user": d["ucfg"], "toks": toks})
    for cmd in TPL_CMDS:
        out.append({"kind": "ctx", "prompt": "[sudo] password: ", "user": None,
                    "toks": [["U", cmd, "absent", []], ["R", cmd], ["C", "/w"], ["U", cmd, "bob", ["A"]], ["E"]]})
    return out


def gen_prog(rng, depth, budget):
    toks = []
    n = rng.randint(1, 4)
    for _ in range(n):
        if budget[0] <= 0:
            break
        budget[0] -= 1
        x = rng.random()
        if x < 0.22:
            toks.append(["R", gen_cmd(rng)])
        elif x < 0.30:
            toks.append(["U", gen_cmd(rng), gen_user_kw(rng), gen_env_names(rng)])
        elif x < 0.42:
            toks.append(["O"])
        elif x < 0.50:
            toks.append(["X", rng.choice([0, 1, 1, 2, 2, 3])])
        elif x < 0.55:
            toks.append(["Q", rng.choice(CMDS)])
        elif depth < 6:
            k = rng.choice(["C", "C", "P", "P", "Y", "Y", "GC", "GP"])
            toks.append([k, gen_path(rng)] if k in ("C", "GC") else [k, gen_prefix(rng)] if k in ("P", "GP") else [k])
            toks += gen_prog(rng, depth + 1, budget)
            toks.append(["E"])
        else:
            toks.append(["R", gen_cmd(rng)])
    return toks


LEAVES = ["logs", "cache", "sub dir", "x", "data/~tmp", "{}", ""]
MIDDLES = ["app", "releases/current", "m", "a b"]
PARENTS = ["/srv/alpha", "/srv/beta", "~/one", "~/two", "/", "/srv", "rel", "other rel", "/srv/{a}", "/srv/alpha/"]


def gen_siblings(rng):
    """2-4 SIBLING stacks (depth 2-4) on one Context that share relative leaf (and middle) names under DIFFERENT parents;
    the run/sudo/observation sits only in the innermost block (no resolution in the parent block); stacks are also
    re-entered a second time; cd and prefix siblings are mixed; some siblings are left by an exception"""
    leaf = rng.choice(LEAVES)
    mids = [rng.choice(MIDDLES) for _ in range(2)]
    depth = rng.randint(2, 4)
    parents = rng.sample(PARENTS, rng.randint(2, 4))
    if rng.random() < 0.4:
        parents.insert(rng.randrange(len(parents) + 1), rng.choice(parents))  # the SAME stack entered twice
    toks = []
    outer = rng.random() < 0.25
    if outer:
        toks.append([rng.choice(["C", "P"]), rng.choice(["/base", "wrap"])])
    for par in parents:
        stack = [par] + mids[:depth - 2] + [leaf if rng.random() < 0.85 else rng.choice(LEAVES)]
        opened = 0
        guarded = rng.random() < 0.2
        if guarded:
            toks.append(["Y"])
        for j, d in enumerate(stack):
            if rng.random() < 0.15:
                toks.append([rng.choice(["P", "GP"]), rng.choice(PREFIXES + ["act {}"])])
                opened += 1
            toks.append([rng.choice(["C", "C", "C", "GC"]), d])
            opened += 1
        inner = rng.choice([[["R", "ls"]], [["R", "ls"]], [["U", "ls", "absent", []]], [["O"], ["R", "x"]], [["U", "id", "bob", ["A"]], ["R", "ls"]]])
        toks += [list(t) for t in inner]
        if guarded:
            toks.append(["X", rng.choice([0, 1, 2, 3])])
        toks += [["E"]] * opened
        if guarded:
            toks.append(["E"])
        if rng.random() < 0.2:
            toks.append(rng.choice([["O"], ["R", "pwd"]]))
    if outer:
        toks.append(["E"])
    return toks


def gen_cwd_seq(rng):
    """stacks resolved one after the other on ONE Context (the stack is replaced in place between resolutions)"""
    leaf = rng.choice(LEAVES)
    n = rng.randint(2, 5)
    stacks = []
    for _ in range(n):
        x = rng.random()
        if x < 0.6:
            stacks.append([rng.choice(PARENTS)] + [rng.choice(MIDDLES) for _ in range(rng.randint(0, 2))] + [leaf])
        elif x < 0.8 and stacks:
            stacks.append(list(rng.choice(stacks)))
        else:
            stacks.append([gen_path(rng) for _ in range(rng.randint(0, 4))])
    return stacks


def check_cwdseq(case):
    from invoke import Context, Config
    c = Context(Config(lazy=True))
    got, why = [], None
    for st in case["stacks"]:
        del c.command_cwds[:]
        c.command_cwds.extend(st)
        g = c.cwd
        got.append(enc_chars(g))
        if why is None and g != expected_cwd(st):
            why = "cwd of %r (resolved on one Context after %r) is %r, demand %r" % (st, case["stacks"][:len(got) - 1], g, expected_cwd(st))
    return " ## ".join(got), why


def gen_deep_exit(rng):
    """blocks nested several levels deep, left by one exception from the innermost level, caught at a random outer
    level, followed by observations, run/sudo calls and NEW blocks on the same Context"""
    depth = rng.randint(2, 6)
    catch_at = rng.randint(0, depth - 1)
    toks = []
    closers = 0
    for lvl in range(depth):
        if lvl == catch_at:
            toks.append(["Y"])
            closers += 1
        k = rng.choice(["C", "P", "GC", "GP"])
        toks.append([k, gen_path(rng)] if k in ("C", "GC") else [k, gen_prefix(rng)])
        closers += 1
        if rng.random() < 0.3:
            toks.append(["R", gen_cmd(rng)])
    toks.append(rng.choice([["X", 0], ["X", 1], ["X", 2], ["X", 3], ["Q", "false"]]))
    opened = [t[0] for t in toks if t[0] in OPEN]
    # close everything down to (and including) the try; after it we are at the nesting level of `catch_at`
    n_close = len(opened) - sum(1 for t in toks[:toks.index(["Y"])] if t[0] in OPEN)
    for _ in range(n_close):
        toks.append(["E"])
    after = [["O"], ["R", gen_cmd(rng)], ["U", "ls", rng.choice(["absent", "bob"]), []]]
    k = rng.choice(["C", "P"])
    after += [[k, gen_path(rng)] if k == "C" else [k, gen_prefix(rng)], ["R", gen_cmd(rng)], ["O"], ["E"], ["O"]]
    toks += after
    for _ in range(len(opened) - n_close):
        toks.append(["E"])
    toks.append(["O"])
    return toks


# ------------------------------------------------------------------ (e) sudo password -> auto-responder

def check_sudopw(case):
    """what the FailingResponder installed by the real Context.sudo would write (correspondence only: the statement
    does not mention the password)"""
    from fakerunner import Scripted
    from invoke import Context, Config
    launched = []

    class Cap(Scripted):
        def __init__(self, context):
            super().__init__(context)
            launched.append(self)

    sudo_cfg = {} if case["cfg"] is None else {"password": case["cfg"]}
    c = Context(Config(overrides={"runners": {"local": Cap}, "sudo": sudo_cfg}, lazy=True))
    kw = dict(hide=True, in_stream=False)
    if case["kw"] != "absent":
        kw["password"] = case["kw"]
    if case.get("watchers"):
        from invoke.watchers import StreamWatcher
        kw["watchers"] = [StreamWatcher()]
    c.sudo("x", **kw)
    ws = launched[0].watchers
    why = None
    if case.get("watchers") and len(ws) != 2:
        why = None  # not part of the statement
    return enc_chars(ws[-1].response), why


# ------------------------------------------------------------------ (d) cwd

def check_cwd(case):
    from invoke import Context, Config
    c = Context(Config(lazy=True))
    c.command_cwds.extend(case["paths"])
    got = c.cwd
    want = expected_cwd(case["paths"])
    return enc_chars(got), (None if got == want else "cwd of %r is %r, demand %r" % (case["paths"], got, want))


# ------------------------------------------------------------------ replay / run

def _defaults():
    from invoke.config import Config
    return Config.global_defaults()["run"]


def replay(case):
    k = case["kind"]
    if k == "run":
        line, why = check_run(case, _defaults())
    elif k == "hide":
        line, why = check_hide(case)
    elif k == "ctx":
        line, why = check_ctx(case)
    elif k == "cwd":
        line, why = check_cwd(case)
    elif k == "cwdseq":
        line, why = check_cwdseq(case)
    elif k == "sudopw":
        line, why = check_sudopw(case)
    elif k == "hist":
        line, why = check_hist(case, _defaults())
    elif k == "rhist":
        line, why = check_rhist(case, _defaults())
    elif k == "rhist_real":
        line, why = check_rhist_real(case)
    elif k == "reject_real":
        line, why = check_reject_real(case)
    else:
        return True, "unknown case kind"
    return why is None, why or "ok: %s" % line[:300]


def pick_state(rng, dom, state):
    """state: absent | none | false | other"""
    if state == "none":
        return None if None in dom else "skip"
    if state == "false":
        return False if False in dom else "skip"
    rest = [v for v in dom if v is not None and v is not False]
    return rng.choice(rest) if rest else "skip"


def run(ctx):
    out = Outcome()
    rng = ctx.rng
    drv = LeanDriver("drv_runopts")
    defaults = _defaults()
    big = ctx.thorough or ctx.escalated
    keys = [k for k in defaults if k in DOM_KW]
    for k in defaults:
        if k not in DOM_KW:
            ctx.notes.append("run option %r has no generator domain in harness/props/c15.py (left at its default)" % k)
    cases = []

    def base_case(kw, cfg, ct=None):
        return {"kind": "run", "cmd": rng.choice(["CMD", "make -j2 all", "echo hi", rng.choice(TPL_CMDS)]), "kw": kw, "cfg": cfg,
                "cfg_timeout": ct, "penv": PENV}

    def sprinkle(kw, cfg, p):
        """add random other keys"""
        for k in keys:
            if k not in kw and rng.random() < p:
                kw[k] = rng.choice(DOM_KW[k])
            if k not in cfg and rng.random() < p:
                cfg[k] = rng.choice(DOM_CFG[k])

    # 1. every single key x kwarg state x config state
    for k in keys:
        for ks, cs in itertools.product(["absent", "none", "false", "other"], repeat=2):
            kw, cfg = {}, {}
            if ks != "absent":
                v = pick_state(rng, DOM_KW[k], ks)
                if v == "skip":
                    continue
                kw[k] = v
            if cs != "absent":
                v = pick_state(rng, DOM_CFG[k], cs)
                if v == "skip":
                    continue
                cfg[k] = v
            sprinkle(kw, cfg, 0.08)
            cases.append(base_case(kw, cfg))
            out.hist["run:single:%s/%s" % (ks, cs)] += 1
    # timeout: presence, not None-ness
    for kt in ("absent", None, 5):
        for ctv in (None, 9):
            kw = {} if kt == "absent" else {"timeout": kt}
            cfg = {}
            sprinkle(kw, cfg, 0.1)
            cases.append(base_case(kw, cfg, ctv))
            out.hist["run:timeout"] += 1
    # 2. the interacting keys, exhaustively over small domains; the source of each value drawn at random
    inter = {"hide": ["absent", True, "both", "err", False], "echo": ["absent", True, False], "dry": ["absent", True],
             "asynchronous": ["absent", True], "disown": ["absent", True], "out_stream": ["absent", "given"],
             "err_stream": ["absent", "given"], "in_stream": ["absent", False, "given"]}
    names = list(inter)
    for combo in itertools.product(*[inter[n] for n in names]):
        if not big and rng.random() < 0.5:
            continue
        kw, cfg = {}, {}
        for n, v in zip(names, combo):
            if v == "absent":
                if rng.random() < 0.15:
                    kw[n] = None  # an explicit None must behave like absence
                continue
            src = rng.choice(["kw", "kw", "cfg"])
            if v == "given":
                v = {"out_stream": (S_OUT, S_CFG_OUT), "err_stream": (S_ERR, {"stream": 15}), "in_stream": (S_IN, S_CFG_IN)}[n][src == "cfg"]
            (kw if src == "kw" else cfg)[n] = v
        cases.append(base_case(kw, cfg))
        out.hist["run:interactions"] += 1
    # 3. random 3-way and n-way combinations of all keys
    for _ in range(ctx.n(1200, 20000)):
        kw, cfg = {}, {}
        if rng.random() < 0.5:
            for k in rng.sample(keys, 3):
                if rng.random() < 0.7:
                    kw[k] = rng.choice(DOM_KW[k])
                if rng.random() < 0.6:
                    cfg[k] = rng.choice(DOM_CFG[k])
            out.hist["run:3way"] += 1
        else:
            sprinkle(kw, cfg, rng.choice([0.15, 0.3, 0.5]))
            out.hist["run:nway"] += 1
        if rng.random() < 0.2:
            kw["timeout"] = rng.choice([None, 5])
        if rng.random() < 0.04:
            kw[rng.choice(["bogus", "timeuot", "user"])] = rng.choice([None, True])
        if rng.random() < 0.03:
            (kw if rng.random() < 0.5 else cfg)["hide"] = rng.choice(["bogus", "all", ""])
        cases.append(base_case(kw, cfg, rng.choice([None, None, 9])))
    # (b) hide table
    for v in HIDE_WORDS:
        for o, e in itertools.product([False, True], repeat=2):
            cases.append({"kind": "hide", "val": v, "out": o, "err": e})
    # (c) block programs
    for i in range(ctx.n(900, 14000)):
        toks = gen_prog(rng, 0, [rng.randint(3, 18)]) if i % 3 else gen_deep_exit(rng)
        cases.append({"kind": "ctx", "prompt": gen_prompt(rng), "user": gen_cfg_user(rng), "toks": toks})
    for _ in range(ctx.n(350, 5000)):
        cases.append({"kind": "ctx", "prompt": gen_prompt(rng), "user": gen_cfg_user(rng), "toks": gen_siblings(rng), "fam": "siblings"})
    for _ in range(ctx.n(300, 4000)):
        cases.append({"kind": "cwdseq", "stacks": gen_cwd_seq(rng)})
    tf = template_family()
    cases += tf
    out.hist["ctx:template-family"] = len(tf)
    # (d) cwd: every rare single component at depth 1..3 behind plain anchors, then random stacks
    for p in RARE_PATHS + PATHS:
        for pre in ([], ["/srv"], ["~"], ["rel"], ["/srv", "sub dir"]):
            for post in ([], ["logs"]):
                cases.append({"kind": "cwd", "paths": pre + [p] + post})
    for _ in range(ctx.n(500, 8000)):
        cases.append({"kind": "cwd", "paths": [gen_path(rng) for _ in range(rng.randint(0, 6))]})

    # (f) object-reuse histories
    def rand_kw(p):
        kw = {}
        for k in keys:
            if rng.random() < p:
                kw[k] = rng.choice(DOM_KW[k])
        if rng.random() < 0.15:
            kw["timeout"] = rng.choice([None, 5])
        return kw

    sticky = [{"hide": True}, {"echo": True}, {"dry": True}, {"asynchronous": True}, {"disown": True}, {"warn": True},
              {"env": {"map": {"A": "2", "B": "x"}}, "replace_env": True}, {"watchers": {"list": 1}}, {"out_stream": S_OUT},
              {"in_stream": S_IN}, {"shell": "/bin/zsh"}, {"echo_format": "RUN {command}"}, {"timeout": 5}, {"pty": True},
              {"hide": "both", "err_stream": S_ERR}, {"bogus": True}, {"asynchronous": True, "disown": True}]
    for _ in range(ctx.n(350, 5000)):
        cfg = {}
        for k in keys:
            if rng.random() < 0.12:
                cfg[k] = rng.choice(DOM_CFG[k])
        mode = rng.choice(["context", "context", "runner"])
        steps = []
        for _ in range(rng.randint(2, 5)):
            x = rng.random()
            if x < 0.35:  # a run with a "sticky" option, then its effect must be gone in the next run
                steps.append({"do": "run", "cmd": gen_cmd(rng), "kw": dict(rng.choice(sticky))})
            elif x < 0.6:
                steps.append({"do": "run", "cmd": gen_cmd(rng), "kw": rand_kw(rng.choice([0.0, 0.1, 0.3]))})
            elif x < 0.8 and mode == "context":
                steps.append({"do": "block", "k": rng.choice(["C", "P", "GC", "GP"]), "arg": gen_prefix(rng),
                              "exc": rng.choice([None, 0, 1, 2, 3])})
            elif x < 0.9 and mode == "context":
                steps.append({"do": "sudo", "env": rng.choice([[], ["A"]]), "watch": rng.random() < 0.5})
            else:
                steps.append({"do": "newctx"})
        steps.append({"do": "run", "cmd": gen_cmd(rng), "kw": rand_kw(rng.choice([0.0, 0.0, 0.1]))})
        cases.append({"kind": "hist", "mode": mode, "cfg": cfg, "cfg_timeout": rng.choice([None, None, 9]), "penv": PENV,
                      "steps": steps})

    # (g) 2-4 runs in a row on ONE runner object, each with its own per-call options; watchers observed by behaviour
    PATS = [["PW? ", "y\n"], ["name: ", "bob\n"], ["[y/n] ", "n\n"], ["{}> ", "{0}\n"]]
    rh_keys = [k for k in keys if k not in ("watchers", "in_stream", "out_stream", "err_stream")]

    def gen_w(allow_absent=True):
        x = rng.random()
        if x < 0.35 and allow_absent:
            return "absent"
        if x < 0.45:
            return None
        if x < 0.6:
            return []
        return [list(p) for p in rng.sample(PATS, rng.choice([1, 1, 2]))]

    def gen_out(mention):
        chunks = []
        for p in mention:
            chunks += [rng.choice(["", "pre ", "line\n", "x" * 30]), p]
        chunks.append(rng.choice(["", "\n", " done\n"]))
        return [c for c in chunks]

    for i in range(ctx.n(160, 2500)):
        cfg = {}
        for k in rh_keys:
            if rng.random() < 0.1:
                cfg[k] = rng.choice(DOM_CFG[k])
        cfg_w = rng.choice(["absent", "absent", [], [list(rng.choice(PATS))]])
        runs, prev = [], []
        edit_env = i % 2 == 0
        edit_cfg = i % 3 != 1
        cfgp_now = [p for p, _ in cfg_w] if cfg_w != "absent" else []
        cur_env = dict(PENV)
        for j in range(rng.randint(2, 4)):
            kw = {}
            for k in rh_keys:
                if rng.random() < (0.12 if k not in ("asynchronous", "disown", "dry") else 0.05):
                    kw[k] = rng.choice(DOM_KW[k])
            if rng.random() < 0.2:
                kw["in_stream"] = rng.choice([False, S_IN])
            if rng.random() < 0.15:
                kw["timeout"] = rng.choice([None, 5])
            # the first run (almost) always brings watchers; later runs often bring none / an empty list / their own
            w = gen_w(allow_absent=j > 0) if (j > 0 or rng.random() < 0.2) else [list(p) for p in rng.sample(PATS, rng.choice([1, 2]))]
            own = [p for p, _ in w] if w not in ("absent", None) else []
            cfgp = [p for p, _ in cfg_w] if cfg_w != "absent" else []
            mention = list(dict.fromkeys(prev + own + cfgp + ([rng.choice(PATS)[0]] if rng.random() < 0.3 else [])))
            rng.shuffle(mention)
            run = {"cmd": "CMD-%d-%d" % (i, j), "kw": kw, "w": w, "out": gen_out(mention),
                   "exited": 0, "flavour": rng.choice(["stateless", "responder"])}
            # the config is edited IN PLACE between the runs (attribute and item syntax, any run.* option, timeouts.command)
            if edit_cfg and j > 0:
                edits = []
                for _ in range(rng.randint(1, 3)):
                    x = rng.random()
                    if x < 0.6:
                        k = rng.choice([k for k in rh_keys if k != "env"])
                        edits.append([rng.choice(["attr", "item"]), k, rng.choice(DOM_CFG[k])])
                    elif x < 0.75:
                        edits.append(["envset", rng.choice(["A", "C", "NEW"]), rng.choice(["e1", "e2", ""])])
                    elif x < 0.9:
                        edits.append(["w", None, rng.choice([[], [list(rng.choice(PATS))]])])
                    else:
                        edits.append(["timeout", None, rng.choice([None, 7, 9])])
                run["cfg_edit"] = edits
                for how, k, v in edits:
                    if how == "w":
                        cfgp_now[:] = [p for p, _ in v]
                # later output should mention the newly configured watchers' patterns as well
                run["out"] = gen_out(list(dict.fromkeys(mention + cfgp_now)))
            # os.environ is added to / changed / deleted from between the runs; env / replace_env per run
            if edit_env:
                for _ in range(rng.randint(0, 2) if j else 0):
                    x = rng.random()
                    if x < 0.4:
                        cur_env[rng.choice(["NEW", "N2", "B"])] = rng.choice(["1", "two", ""])
                    elif x < 0.7 and cur_env:
                        cur_env[rng.choice(sorted(cur_env))] = rng.choice(["changed", "c2"])
                    elif cur_env:
                        del cur_env[rng.choice(sorted(cur_env))]
                run["penv"] = dict(cur_env)
                if rng.random() < 0.5:
                    kw["env"] = rng.choice(DOM_KW["env"][1:])
                if rng.random() < 0.3:
                    kw["replace_env"] = rng.choice([True, False, None])
            runs.append(run)
            prev = list(dict.fromkeys(prev + own))
        cases.append({"kind": "rhist", "cfg": cfg, "cfg_w": cfg_w, "cfg_timeout": rng.choice([None, None, 9]), "penv": PENV,
                      "runs": runs})
    for seq in ([["y\n"], "absent"], [["y\n"], [], ["z\n"], None]) if not big else (
            [["y\n"], "absent"], [["y\n"], [], ["z\n"], None], ["absent", ["q\n"], "absent"], [["a\n"], ["b\n"], "absent"]):
        cases.append({"kind": "rhist_real", "runs": [{"w": w} for w in seq]})
    for seq in ([("1", None, False), ("2", None, False), (None, None, False)],
                [("a", {"VERIF_X": "mine"}, False), ("b", {"OTHER": "o"}, False), ("c", {"OTHER": "o"}, True), ("d", None, False)]):
        cases.append({"kind": "rhist_real", "runs": [{"w": "absent" if k else ["y\n"], "x": x, "env": e, "replace": rp}
                                                      for k, (x, e, rp) in enumerate(seq)]})

    # (h) rejections on the real Local
    for via in ("ctx.run", "ctx.sudo", "local.run"):
        for bad, ad in (({"bogus": 1}, "no"), ({"bogus": None}, "no"), ({"timeuot": 5}, "no"), ({"hidee": True, "zzz": None}, "no"),
                        ({}, "kw"), ({}, "cfg"), ({}, "mixed"), ({"bogus": 1}, "kw"), ({"in_streem": None}, "cfg")):
            for extra in ({}, {"pty": True}, {"pty": False, "hide": True}, {"dry": True}, {"warn": True, "echo": True, "hide": "both"}):
                cases.append({"kind": "reject_real", "via": via, "bad": bad, "async_disown": ad, "extra": extra})

    for kwp, cfgp, ws in itertools.product(["absent", None, "pw", ""], [None, "secret"], [False, True]):
        cases.append({"kind": "sudopw", "kw": kwp, "cfg": cfgp, "watchers": ws})

    lines, spans = [], []
    for c in cases:
        k = c["kind"]
        spans.append(len(lines))
        if k == "hist":
            lines += hist_lines(c)
            continue
        if k == "cwdseq":
            lines += ["cwd " + enc_strs(st) for st in c["stacks"]]
            continue
        if k == "rhist":
            lines += rhist_lines(c)
            continue
        if k == "rhist_real":
            continue
        if k == "reject_real":
            lines.append(reject_line(c))
            continue
        if k == "sudopw":
            lines.append("resp %s %s" % ("A" if c["kw"] == "absent" else enc_v(c["kw"]), enc_v(c["cfg"])))
            continue
        if k == "run":
            lines.append(run_line(c))
        elif k == "hide":
            lines.append("hide %s %s %s" % (enc_v(c["val"]), "X10" if c["out"] else "N", "X11" if c["err"] else "N"))
        elif k == "ctx":
            lines.append(ctx_line(c))
        else:
            lines.append("cwd " + enc_strs(c["paths"]))
    spans.append(len(lines))
    raw = drv.run(lines) if ctx.model_ok else None
    model = [None if raw is None else " ## ".join(raw[spans[i]:spans[i + 1]]) for i in range(len(cases))]

    for c, m in zip(cases, model):
        k = c["kind"]
        if k == "rhist":
            out.case(c, True)
            got, why = check_rhist(c, defaults)
            out.hist["rhist"] += 1
            out.hist["rhist:runs"] += len(c["runs"])
            for rr in c["runs"]:
                for how, k, _ in rr.get("cfg_edit", []):
                    out.hist["rhist:config-edited-in-place:" + (how if how not in ("attr", "item") else how + ":" + k)] += 1
            for a, b in zip(c["runs"], c["runs"][1:]):
                if "penv" in b:
                    pa, pb = a["penv"], b["penv"]
                    out.hist["rhist:parent-env-%s-between-runs" % ("unchanged" if pa == pb else "edited")] += 1
                    if pa != pb:
                        for nm, cond in (("added", set(pb) - set(pa)), ("deleted", set(pa) - set(pb)),
                                         ("changed", [k for k in pa if k in pb and pa[k] != pb[k]])):
                            if cond:
                                out.hist["rhist:parent-env-" + nm] += 1
            for a, b in zip(c["runs"], c["runs"][1:]):
                had = a["w"] not in ("absent", None, [])
                out.hist["rhist:%s-then-%s" % ("watchers" if had else "none",
                                               "absent" if b["w"] == "absent" else "None" if b["w"] is None else
                                               "empty" if b["w"] == [] else "own")] += 1
        elif k == "reject_real":
            out.case(c, True)
            got, why = check_reject_real(c)
            out.hist["reject-real:%s:%s" % (c["via"], got)] += 1
        elif k == "rhist_real":
            out.case(c, True)
            m = None
            got, why = check_rhist_real(c)
            out.hist["rhist:real-Local"] += 1
        elif k == "cwdseq":
            out.case(c, True)
            got, why = check_cwdseq(c)
            out.hist["cwd:sequence-on-one-context"] += 1
        elif k == "hist":
            out.case(c, True)
            got, why = check_hist(c, defaults)
            out.hist["hist:" + c["mode"]] += 1
            out.hist["hist:runs"] += sum(1 for st in c["steps"] if st["do"] == "run")
        elif k == "run":
            out.case(c, bool(c["kw"] or c["cfg"]))
            got, why = check_run(c, defaults)
            if any(ch in c["cmd"] for ch in "{}%"):
                out.hist["run:cmd-with-template-chars"] += 1
            out.hist["run-outcome:" + got.split(" ")[0] + ("" if got.startswith("ok") else ":" + got.split(" ")[-1])] += 1
            if got.startswith("ok"):
                if " start=- " in got:
                    out.hist["run:dry"] += 1
                if "asynchronous=T" in got:
                    out.hist["run:async"] += 1
                if " echo=1" in got:
                    out.hist["run:echoed"] += 1
        elif k == "hide":
            out.case(c, True)
            got, why = check_hide(c)
            out.hist["hide"] += 1
        elif k == "ctx":
            out.case(c, any(t[0] in OPEN for t in c["toks"]))
            got, why = check_ctx(c)
            out.hist["ctx"] += 1
            if c.get("fam") == "siblings":
                out.hist["ctx:sibling-stacks"] += 1
            if " raised=-" not in got:
                out.hist["ctx:raised-to-top:" + got.split(" raised=")[1].split(" ")[0]] += 1
            for t in c["toks"]:
                if t[0] == "X":
                    out.hist["ctx:raise:" + EXC_KINDS[t[1]].__name__] += 1
                elif t[0] in ("GC", "GP"):
                    out.hist["ctx:generator-held-block"] += 1
            if any(t[0] == "Y" for t in c["toks"]):
                out.hist["ctx:with-try"] += 1
            if any(t[0] == "U" for t in c["toks"]):
                out.hist["ctx:with-sudo"] += 1
                texts = [c["prompt"], c["user"] or ""] + [x for t in c["toks"] for x in t[1:] if isinstance(x, str)] + \
                        [n for t in c["toks"] if t[0] == "U" for n in t[3]]
                if any(ch in x for x in texts for ch in "{}%"):
                    out.hist["ctx:sudo-with-template-chars"] += 1
        elif k == "sudopw":
            out.case(c, True)
            got, why = check_sudopw(c)
            out.hist["sudo-password"] += 1
        else:
            out.case(c, len(c["paths"]) > 0)
            got, why = check_cwd(c)
            out.hist["cwd"] += 1
        if m is not None:
            out.traces += 1
            if m != got:
                out.disagree(c, got, m)
        if why:
            out.fail(c, why)
    out.extra["table_obligations"] = 4  # every_key_has_default, hide_vocabulary, hide_probe_agrees, mem_* (keys present)
    return out
