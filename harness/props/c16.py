"""C16 - environment variables override exactly the existing settings they name, typed; ambiguity refused."""
import copy
import os
from contextlib import contextmanager

import common  # noqa: F401  (puts the repository on sys.path)
from common import Outcome, LeanDriver
from valcodec import (enc_tree, enc_environ, enc_str, enc_leaf, enc_chars, build, tag, plain, leaves, sections, typed)

ID = "C16"
PROPS = ["Invoke/Props/C16.lean"]
TARGETS = ["drv_env"]
DRIVER_ROOTS = ["Driver/Env.lean"]
GENERATED = ["Env", "Config"]
RULE = ("cases = (nested settings tree with underscore-/case-bearing keys so that distinct paths collide at every depth, "
        "all leaf types incl. list/tuple/float/None/empty sections, environment with relevant / irrelevant / badly typed / "
        "empty / unprefixed / lower-case / section-naming variables, prefix default or custom via a Config subclass); "
        "each is run through the real Config(...).load_shell_env() under a replaced os.environ; non-trivial = at least "
        "one variable of the environment names an existing setting or two settings collide; distinct = distinct "
        "(tree, environment, prefix) triples")
TRUSTED = ["Lean 4.33 kernel", "axioms propext/Classical.choice/Quot.sound only",
           "harness/props/c16.py + harness/valcodec.py correspondence and canonicalisation",
           "tools/extractors/config.py (behavioural probing of the cast branches)",
           "CPython str.upper / int(str) on ASCII (modelled in Model/Env.lean, checked differentially on every run)",
           "model Invoke/Model/Env.lean hand-written, tied by correspondence on every run"]
ASSUMPTIONS = ["setting keys and environment values are ASCII strings (str.upper and int() are modelled for ASCII)",
               "a value that the setting's numeric type rejects (ValueError) is outside the property (don't-care)",
               "float and other non-int classes are opaque to the model (their casts are checked by the oracle only)"]
LEVEL_TEXT = ("Lean 4 proofs about the model of invoke.env.Environment (crawl collects exactly the leaf paths and refuses exactly "
              "the colliding trees; load writes exactly the named existing settings and never a new one; the cast table, stated "
              "over the branch order regenerated from the repository), tied to the implementation on every run by a differential "
              "correspondence check and a direct oracle on Config.load_shell_env")
TECHNIQUE = "Lean 4 theorems over all trees/environments + regenerated cast-order table + model/implementation correspondence"

KEYS = ["a", "b", "a_b", "b_a", "c", "a_b_c", "ab", "A", "B_a", "b_c", "x1", "_a", "a_", ""]
KEYW = [6, 6, 5, 3, 4, 3, 2, 2, 1, 3, 2, 1, 1, 0.3]
LEAVES = [True, False, 0, 7, -3, "s", "", "0", None, [1], ["a", "b"], [], (1,), (), 1.5]
LEAFW = [4, 4, 2, 3, 2, 4, 2, 1, 4, 0.5, 0.5, 0.3, 0.5, 0.3, 1]
NUMERIC = ["1", "0", "42", "-3", " 7 ", "+5", "1_000", "00", "\t8\n", "-0"]
VALUES = ["1", "0", "", "x", "42", "-3", "yes", " 7 ", "+5", "1_000", "0x1f", "false", "00", "1__0", "_1", "2.5", "- 1", "\t8\n"]


def gen_tree(rng, depth=0):
    out = {}
    n = rng.choice([1, 1, 2, 2, 3, 4]) if depth == 0 else rng.choice([0, 1, 1, 2, 3])
    for k in rng.choices(KEYS, KEYW, k=n):
        if rng.random() < (0.4 if depth < 3 else 0.0):
            out[k] = gen_tree(rng, depth + 1)
        else:
            out[k] = rng.choices(LEAVES, LEAFW)[0]
    return out


def var_of(p):
    return "_".join(p).upper()


def plant_collision(rng, t):
    """add a sibling whose name joins two nested keys: {k1: {k2: ..}} gets k1_k2 next to k1 (at any depth)"""
    spots = []

    def walk(d):
        for k1, v in d.items():
            if isinstance(v, dict):
                for k2, w in v.items():
                    if not isinstance(w, dict) and (k1 + "_" + k2) not in d:
                        spots.append((d, k1 + "_" + k2))
                walk(v)
    walk(t)
    if spots:
        d, k = rng.choice(spots)
        d[k] = rng.choices(LEAVES, LEAFW)[0]


def gen_case(rng):
    t = gen_tree(rng)
    if rng.random() < 0.08:
        plant_collision(rng, t)
    lv = list(leaves(t))
    pre = rng.choice(["invoke", "invoke", "myapp", "my_app", "x"])
    how = "default" if pre == "invoke" else rng.choice(["prefix", "env_prefix"])
    P = pre.upper() + "_"
    env = {}
    for p, v in lv:
        r = rng.random()
        if r < 0.5:
            numeric = isinstance(v, (int, float)) and not isinstance(v, bool)
            env[P + var_of(p)] = rng.choice(NUMERIC) if numeric and rng.random() < 0.8 else rng.choice(VALUES)
        elif r < 0.55:
            env[P + "_".join(p)] = "1"  # right name, wrong case: not a match unless already upper
        elif r < 0.6:
            env[var_of(p)] = "1"  # unprefixed
        elif r < 0.65:
            env[P + var_of(p) + "_EXTRA"] = "zz"
    for s in sections(t):
        if rng.random() < 0.3:
            env[P + var_of(s)] = "5"  # names a section, not a setting
    if rng.random() < 0.7:
        env[P + "NOPE"] = "1"
    if rng.random() < 0.3:
        env["OTHER_" + (var_of(lv[0][0]) if lv else "Q")] = "1"
    if rng.random() < 0.2:
        env[pre.upper() + (var_of(lv[0][0]) if lv else "Q")] = "1"  # prefix without the underscore
    env = {k: v for k, v in env.items() if k and "=" not in k and "\0" not in k}
    return {"kind": "load", "tree": tag(t), "prefix": pre, "how": how, "env": env}


# ------------------------------------------------------------------ running the real code

@contextmanager
def replaced_environ(env):
    old = dict(os.environ)
    try:
        os.environ.clear()
        os.environ.update(env)
        yield
    finally:
        os.environ.clear()
        os.environ.update(old)


def make_config(case):
    from invoke.config import Config
    pre, how = case["prefix"], case.get("how", "default")
    if how == "default":
        klass = Config
    elif how == "prefix":
        klass = type("PrefixedConfig", (Config,), {"prefix": pre})
    else:
        klass = type("EnvPrefixedConfig", (Config,), {"env_prefix": pre})
    return klass(defaults=copy.deepcopy(build(case["tree"])), lazy=True)


def run_impl(case):
    """-> (before view, exception class name | None, after view)"""
    with replaced_environ(case["env"]):
        c = make_config(case)
        before = plain(c)
        try:
            c.load_shell_env()
        except Exception as e:  # noqa
            return before, type(e).__name__, plain(c)
        return before, None, plain(c)


# ------------------------------------------------------------------ oracle: the property, stated directly

def expected(case, before):
    """-> ('ambiguous' | 'uncastable' | 'dontcare' | 'ok', {path: typed value} overrides)"""
    P = case["prefix"].upper() + "_"
    lv = list(leaves(before))
    names = {}
    for p, _ in lv:
        names.setdefault(var_of(p), []).append(p)
    if any(len(ps) > 1 for ps in names.values()):
        return "ambiguous", {}
    exp, unc, dc = {}, False, False
    for p, v in lv:
        key = P + var_of(p)
        if key not in case["env"]:
            continue
        s = case["env"][key]
        if isinstance(v, bool):
            exp[p] = s not in ("0", "")
        elif isinstance(v, str) or v is None:
            exp[p] = s
        elif isinstance(v, (list, tuple)):
            unc = True
        else:
            try:
                exp[p] = type(v)(s)
            except ValueError:
                dc = True
    if dc:
        return "dontcare", {}
    if unc:
        return "uncastable", {}
    return "ok", exp


def oracle(case, before, exc, after):
    kind, exp = expected(case, before)
    if kind == "ambiguous":
        return kind, (None if exc == "AmbiguousEnvVar" else "two settings map to one variable name but the load was not refused as ambiguous (got %s)" % exc)
    if exc == "AmbiguousEnvVar":
        return kind, "load refused as ambiguous although no two settings share a variable name"
    if kind == "dontcare":
        return kind, None
    if kind == "uncastable":
        return kind, (None if exc == "UncastableEnvVar" else "a list/tuple setting was named by the environment but not rejected (got %s)" % exc)
    if exc is not None:
        return kind, "unexpected %s" % exc
    want = {p: typed(v) for p, v in leaves(before)}
    want.update({p: typed(v) for p, v in exp.items()})
    got = {p: typed(v) for p, v in leaves(after)}
    if got != want:
        diff = sorted(set(got.items()) ^ set(want.items()))[:4]
        return kind, "settings after the load differ from 'named existing settings overridden, typed; all else untouched': %r" % (diff,)
    if set(sections(after)) != set(sections(before)):
        return kind, "sections changed: %r" % sorted(set(sections(after)) ^ set(sections(before)))[:4]
    return kind, None


def replay(case):
    if case.get("kind") != "load":
        return True, "auxiliary differential case (no property statement attached)"
    before, exc, after = run_impl(case)
    kind, why = oracle(case, before, exc, after)
    return why is None, why or "ok (%s)" % kind


# ------------------------------------------------------------------ model side

def dec_tree(s):
    """inverse of enc_tree for the leaf kinds the env level can contain"""
    toks = s.split(",")
    pos = [0]

    def chars(x):
        return "".join(chr(int(c)) for c in x.split(".")) if x else ""

    def val():
        t = toks[pos[0]]
        pos[0] += 1
        if t[0] == "D":
            d = {}
            for _ in range(int(t[1:])):
                k = chars(toks[pos[0]][1:])
                pos[0] += 1
                d[k] = val()
            return d
        if t == "N":
            return None
        if t in "TF":
            return t == "T"
        if t[0] == "I":
            return int(t[1:])
        if t[0] == "S":
            return chars(t[1:])
        if t[0] == "L":
            n = int(t[1:])
            xs = [chars(x[1:]) for x in toks[pos[0]:pos[0] + n]]
            pos[0] += n
            return ("L", xs)
        return ("O", t[1:])
    return val()


def overlay(base, upd):
    out = copy.deepcopy(base)
    for k, v in upd.items():
        if isinstance(v, dict):
            out[k] = overlay(out[k] if isinstance(out.get(k), dict) else {}, v)
        else:
            out[k] = v
    return out


def load_line(case, before):
    return "load %s %s %s" % (enc_str(case["prefix"].upper() + "_"), enc_environ(case["env"]), enc_tree(before))


def compare(case, before, exc, after, m, kind):
    """None when model and implementation agree (on what the property constrains), else (impl, model) strings"""
    if kind == "dontcare":
        return None
    if m.startswith("err:"):
        got = "err:%s" % exc
        return None if got == m else (got, m)
    if exc is not None:
        return ("err:%s" % exc, m[:200])
    want = enc_tree(overlay(before, dec_tree(m[3:])), canon=True)
    got = enc_tree(after, canon=True)
    return None if want == got else (got[:300], want[:300])


def names_float(case, before):
    P = case["prefix"].upper() + "_"
    return any(isinstance(v, float) and (P + var_of(p)) in case["env"] for p, v in leaves(before))


def aux_cases(ctx, rng):
    """differential checks of the CPython functions the model re-implements, and of the private helpers when present"""
    cases, lines = [], []
    alpha = " \t\n+-_0123456789x"
    for s in VALUES + ["", " ", "+", "-", "_", "1_", "0_0", "+-1", "\x0b5\x0c", "\x1c5\x1f", "5 5"]:
        cases.append({"kind": "int", "s": s})
    for _ in range(ctx.n(300, 5000)):
        cases.append({"kind": "int", "s": "".join(rng.choice(alpha) for _ in range(rng.randint(0, 6)))})
    for _ in range(ctx.n(100, 1000)):
        cases.append({"kind": "upper", "s": "".join(chr(rng.randint(32, 126)) for _ in range(rng.randint(0, 8)))})
    for _ in range(ctx.n(200, 2000)):
        cases.append({"kind": "cast", "old": tag(rng.choice([x for x in LEAVES if not isinstance(x, float)])), "s": rng.choice(VALUES)})
    for _ in range(ctx.n(300, 3000)):
        cases.append({"kind": "crawl", "tree": tag(gen_tree(rng))})
    for c in cases:
        if c["kind"] in ("int", "upper"):
            lines.append("%s %s" % (c["kind"], enc_str(c["s"])))
        elif c["kind"] == "cast":
            lines.append("cast %s %s" % (",".join(enc_leaf(build(c["old"]))), enc_str(c["s"])))
        else:
            lines.append("crawl " + enc_tree(build(c["tree"])))
    return cases, lines


def aux_impl(c):
    """canonical implementation answer for an auxiliary case, or None when the private helper no longer exists"""
    if c["kind"] == "int":
        try:
            return "ok %d" % int(c["s"])
        except ValueError:
            return "err:ValueError"
    if c["kind"] == "upper":
        return "ok " + enc_chars(c["s"].upper())
    try:
        from invoke.env import Environment
        Environment(config={}, prefix="")
    except Exception:  # noqa  (private module reorganised: nothing to compare against)
        return None
    if c["kind"] == "cast":
        fn = getattr(Environment(config={}, prefix=""), "_cast", None)
        if fn is None:
            return None
        try:
            return "ok " + ",".join(enc_leaf(fn(build(c["old"]), c["s"])))
        except Exception as e:  # noqa
            return "err:" + type(e).__name__
    t = build(c["tree"])
    env = Environment(config=t, prefix="")
    fn = getattr(env, "_crawl", None)
    if fn is None:
        return None
    try:
        try:
            got = fn(key_path=[], env_vars={})
        except TypeError:
            return None
        return "ok " + ";".join(enc_chars(k) + "=" + "/".join(enc_chars(x) for x in p) for k, p in got.items())
    except Exception as e:  # noqa
        return "err:" + type(e).__name__


# ------------------------------------------------------------------ run

def run(ctx):
    out = Outcome()
    rng = ctx.rng
    drv = LeanDriver("drv_env")
    cases = [gen_case(rng) for _ in range(ctx.n(12000, 150000))]
    # design-time witnesses
    cases += [
        {"kind": "load", "tree": tag({"foo": {"bar": 1}, "foo_bar": 2}), "prefix": "invoke", "how": "default", "env": {}},
        {"kind": "load", "tree": tag({"x": {"a_b": 1, "a": {"b": 2}}}), "prefix": "invoke", "how": "default", "env": {}},
        {"kind": "load", "tree": tag({"a": True, "b": False}), "prefix": "invoke", "how": "default", "env": {"INVOKE_A": "0", "INVOKE_B": "false"}},
        {"kind": "load", "tree": tag({"a": 1}), "prefix": "invoke", "how": "default", "env": {"INVOKE_B": "1", "INVOKE_A_B": "2"}},
    ]
    results, lines = [], []
    for c in cases:
        before, exc, after = run_impl(c)
        results.append((before, exc, after))
        lines.append(load_line(c, before))
    aux, aux_lines = aux_cases(ctx, rng)
    model = drv.run(lines + aux_lines) if ctx.model_ok else [None] * (len(lines) + len(aux_lines))
    for c, (before, exc, after), m in zip(cases, results, model):
        kind, why = oracle(c, before, exc, after)
        P = c["prefix"].upper() + "_"
        applied = sum(1 for p, _ in leaves(before) if P + var_of(p) in c["env"])
        out.case(c, nontrivial=(applied > 0 or kind == "ambiguous"))
        out.hist["kind:" + kind] += 1
        out.hist["prefix:" + c.get("how", "default")] += 1
        if kind == "ok":
            out.hist["applied:%d" % min(applied, 4)] += 1
        if kind == "ambiguous":
            lv = [p for p, _ in leaves(before)]
            d = min(len(p) for p in lv for q in lv if p != q and var_of(p) == var_of(q))
            out.hist["collision_min_depth:%d" % d] += 1
        if m is not None:
            if names_float(c, before):
                out.hist["model_skipped_float"] += 1
            else:
                out.traces += 1
                bad = compare(c, before, exc, after, m, kind)
                if bad:
                    out.disagree(c, bad[0], bad[1])
        if why:
            out.fail(c, why)
    for c, m in zip(aux, model[len(lines):]):
        got = aux_impl(c)
        out.evaluations += 1
        out.hist["aux:" + c["kind"]] += 1
        if got is None:
            out.hist["aux_skipped_private_api_gone:" + c["kind"]] += 1
            continue
        if m is not None:
            if m == "err:ValueError":  # don't-care region of the property: the class of this error is not compared
                continue
            out.traces += 1
            if c["kind"] == "crawl" and m.startswith("ok ") and got.startswith("ok "):
                m, got = sorted(m[3:].split(";")), sorted(got[3:].split(";"))
            if m != got:
                out.disagree(c, got, m)
    out.extra["table_obligations"] = 2  # generated_cast_order_documented, generated_cast_table_documented
    return out
