"""C16 - environment variables override exactly the existing settings they name, typed; ambiguity refused."""
import copy
import os
from contextlib import contextmanager

import common  # noqa: F401  (puts the repository on sys.path)
from common import Outcome, LeanDriver
from valcodec import HostList, Pair, Endpoint, Port, Name, Ratio, Level
from valcodec import (enc_tree, enc_environ, enc_str, enc_leaf, enc_chars, build, tag, plain, leaves, sections, typed)

ID = "C16"
PROPS = ["Invoke/Props/C16.lean"]
TARGETS = ["drv_env"]
DRIVER_ROOTS = ["Driver/Env.lean"]
GENERATED = ["Env", "Config"]
RULE = ("cases = (nested settings tree with underscore-/case-bearing keys so that distinct paths collide at every depth, "
        "all leaf types incl. list/tuple/float/None/empty sections and instances of SUBCLASSES of list / tuple (namedtuple) / int / str / float / IntEnum, environment with relevant / irrelevant / badly typed / "
        "empty / unprefixed / lower-case / section-naming variables, prefix default or custom via a Config subclass - plain or made of regex metacharacters (. + * ? ( ) [ ] | ^ $ \\ { }), with "
        "near-miss variables that match such a prefix as a pattern but not literally - or containing dashes, spaces, mixed case, a leading "
        "digit, leading / trailing underscores, non-ASCII letters, or empty, with near-miss variables a normalisation of the prefix would accept); "
        "each is run through the real Config(...).load_shell_env() under a replaced os.environ; non-trivial = at least "
        "one variable of the environment names an existing setting or two settings collide; distinct = distinct "
        "(tree, environment, prefix) triples; plus HISTORIES on one Config object: 2-4 load_shell_env() calls under changing "
        "environments (variables added / changed / removed / all removed), interleaved with load_defaults / load_overrides / "
        "load_collection (different content or {}, with merge=True or deferred merge=False, explicit merge()), attribute writes and clone(); the property is evaluated after every load for "
        "the environment of that moment")
TRUSTED = ["Lean 4.33 kernel", "axioms propext/Classical.choice/Quot.sound only",
           "harness/props/c16.py + harness/valcodec.py correspondence and canonicalisation",
           "tools/extractors/config.py (behavioural probing of the cast branches)",
           "CPython str.upper / int(str) on ASCII (modelled in Model/Env.lean, checked differentially on every run)",
           "model Invoke/Model/Env.lean hand-written, tied by correspondence on every run"]
ASSUMPTIONS = ["setting keys and environment values are ASCII strings (str.upper and int() are modelled for ASCII)",
               "a value that the setting's numeric type rejects (ValueError) is outside the property (don't-care)",
               "float and other non-int classes are opaque to the model (their casts are checked by the oracle only)"]
LEVEL_TEXT = ("Lean 4 proofs about the model of invoke.env.Environment (crawl collects exactly the leaf paths and refuses exactly "
              "the colliding trees; load writes exactly the named existing settings and never a new one; the cast table, stated "
              "over the branch order regenerated from the repository), tied to the implementation on every run by a differential "
              "correspondence check and a direct oracle on Config.load_shell_env")
TECHNIQUE = "Lean 4 theorems over all trees/environments + regenerated cast-order table + model/implementation correspondence"

# keys are opaque strings: underscores, mixed case, dots (a dotted key spells what joining a nested path with '.' gives),
# the prefix word itself, the empty string
KEYS = ["a", "b", "a_b", "b_a", "c", "a_b_c", "ab", "A", "B_a", "b_c", "x1", "_a", "a_", "",
        "a.b", "b.a", "a.b.c", "a.", ".a", "b.c", "invoke",
        # names of dict / DataProxy / Config methods and attributes, and names that equal / end with / contain a prefix
        "keys", "items", "get", "update", "prefix", "_config", "reinvoke", "invoke_a", "myapp", "my_app", "x"]
KEYW = [6, 6, 5, 3, 4, 3, 2, 2, 1, 3, 2, 1, 1, 0.3,
        2.5, 1.5, 1, 0.5, 0.5, 1.5, 0.7,
        1.5, 0.7, 0.7, 0.5, 0.7, 0.4, 0.7, 0.7, 0.5, 0.5, 0.7]
LEAVES = [True, False, 0, 7, -3, "s", "", "0", None, [1], ["a", "b"], [], (1,), (), 1.5,
          # instances of SUBCLASSES of the leaf types: list / tuple subclasses (incl. a namedtuple) are list / tuple settings,
          # a str subclass is a str setting, int / float subclasses and enum members go through their own class
          HostList(["web1"]), HostList(), Pair((1, 2)), Endpoint("h"), Port(80), Name("n"), Ratio(0.5), Level.LOW]
LEAFW = [4, 4, 2, 3, 2, 4, 2, 1, 4, 0.5, 0.5, 0.3, 0.5, 0.3, 1,
         0.6, 0.3, 0.5, 0.6, 0.6, 0.6, 0.4, 0.4]
NUMERIC = ["1", "0", "42", "-3", " 7 ", "+5", "1_000", "00", "\t8\n", "-0"]
VALUES = ["1", "0", "", "x", "42", "-3", "yes", " 7 ", "+5", "1_000", "0x1f", "false", "00", "1__0", "_1", "2.5", "- 1", "\t8\n"]


def gen_tree(rng, depth=0):
    out = {}
    n = rng.choice([1, 1, 2, 2, 3, 4]) if depth == 0 else rng.choice([0, 1, 1, 2, 3])
    for k in rng.choices(KEYS, KEYW, k=n):
        if rng.random() < (0.4 if depth < 3 else 0.0):
            out[k] = gen_tree(rng, depth + 1)
        else:
            out[k] = rng.choices(LEAVES, LEAFW)[0]
    return out


def var_of(p):
    return "_".join(p).upper()


def plant_collision(rng, t):
    """add a sibling whose name joins two nested keys: {k1: {k2: ..}} gets k1_k2 next to k1 (at any depth)"""
    spots = []

    def walk(d):
        for k1, v in d.items():
            if isinstance(v, dict):
                for k2, w in v.items():
                    if not isinstance(w, dict) and (k1 + "_" + k2) not in d:
                        spots.append((d, k1 + "_" + k2))
                walk(v)
    walk(t)
    if spots:
        d, k = rng.choice(spots)
        d[k] = rng.choices(LEAVES, LEAFW)[0]


def plant_dotted(rng, t):
    """next to a nested path k1 -> k2 put the key "k1.k2" (a DIFFERENT setting with a different variable name) holding a
    value of another kind, at the same level as k1 or at the top"""
    spots = []

    def walk(d):
        for k1, v in d.items():
            if isinstance(v, dict):
                for k2 in v:
                    spots.append((d, k1 + "." + k2, v[k2]))
                walk(v)
    walk(t)
    if spots:
        d, k, other = rng.choice(spots)
        where = d if rng.random() < 0.7 else t
        if k not in where:
            if isinstance(other, dict):
                where[k] = rng.choices(LEAVES, LEAFW)[0]
            else:
                where[k] = rng.choice([{"x1": 1}, {}] + [x for x in LEAVES if type(x) is not type(other)])


# the prefix is a literal string, whatever characters it is made of
META_PREFIXES = ["my.app", "c++", "a*", "x?", "(p)", "[ab]", "a|b", "^p", "p$", "b\\w", "p.", ".*", "a{2}", "q+"]
META = set(".+*?()[]|^$\\{}")


# ... nor is it normalised beyond the documented upper-casing: dashes, spaces, dots, mixed case, a leading digit, leading /
# trailing / only underscores, non-ASCII letters (str.upper: ß -> SS, ı -> I, ǆ -> Ǆ, ﬁ -> FI), the empty prefix
NORM_PREFIXES = ["my-app", "my app", "a--b", "-", "MyApp", "myApp", "9lives", "_app", "app_", "__", "stra\u00dfe", "\u0131x",
                 "\u01c6", "\ufb01x", "\u00e9t\u00e9", "", " pad "]


def choose_prefix(rng, plain):
    r = rng.random()
    return rng.choice(META_PREFIXES) if r < 0.22 else rng.choice(NORM_PREFIXES) if r < 0.47 else rng.choice(plain)


def normalised_near_misses(rng, pre, name):
    """variable names a 'helpful' normalisation of the prefix would accept: NOT `pre.upper() + "_" + name` literally"""
    P = pre.upper() + "_"
    import unicodedata
    ascii_fold = unicodedata.normalize("NFKD", pre).encode("ascii", "ignore").decode().upper() + "_"
    ascii_upper = "".join(c.upper() if c.isascii() else c for c in pre) + "_"
    cands = {P.replace("-", "_"), P.replace(" ", "_"), P.replace(".", "_"), P.replace("-", ""), P.replace(" ", ""),
             pre.strip().upper() + "_", pre.strip("_").upper() + "_", pre.strip("-_ ").upper() + "_", pre + "_", pre.lower() + "_",
             pre.title() + "_", pre.casefold().upper() + "_", pre.swapcase() + "_", ascii_fold, ascii_upper, P.rstrip("_") + "_",
             "_" + P, P + "_", P[:-1], P.lstrip("0123456789"), "INVOKE_", "_"}
    cands.discard(P)
    out = sorted(c + name for c in cands if (c + name) and "=" not in (c + name) and "\0" not in (c + name))
    return rng.sample(out, min(len(out), rng.choice([1, 2, 3, 4])))


def near_misses(rng, P, name):
    """variable names that are NOT `P + name` literally but would be if P were read as a pattern"""
    out = set()
    for i, ch in enumerate(P):
        if ch in META:
            out.add(P[:i] + "X" + P[i + 1:] + name)          # `.` as any character
            out.add(P[:i] + P[i + 1:] + name)                 # the metacharacter dropped: `(p)` -> p, `^p` -> p, `x?` -> x
            if i:
                out.add(P[:i - 1] + P[i + 1:] + name)         # the repeated item absent: `a*` / `x?`
                out.add(P[:i] + P[i - 1] * 2 + P[i + 1:] + name)  # the repeated item thrice: `q+`, `a*`
    stripped = "".join(c for c in P if c not in META)
    out.add(stripped + name)
    if "[" in P and "]" in P:
        inner = P[P.index("[") + 1:P.index("]")]
        for c in inner:
            out.add(P[:P.index("[")] + c + P[P.index("]") + 1:] + name)
    if "\\" in P:
        out.add(P.replace("\\W", "-").replace("\\w", "-") + name)
    out.discard(P + name)
    out = sorted(x for x in out if x and "=" not in x and "\0" not in x)
    return rng.sample(out, min(len(out), rng.choice([1, 2, 3])))


def gen_case(rng):
    t = gen_tree(rng)
    if rng.random() < 0.08:
        plant_collision(rng, t)
    if rng.random() < 0.12:
        plant_dotted(rng, t)
    lv = list(leaves(t))
    pre = choose_prefix(rng, ["invoke", "invoke", "myapp", "my_app", "x"])
    how = "default" if pre == "invoke" else rng.choice(["prefix", "env_prefix"])
    if pre == "":
        how = "env_prefix"  # (as `prefix` the empty string would also be the FILE prefix: "<dir>/.yaml" - not this property's business)
    P = pre.upper() + "_"
    env = {}
    for p, v in lv:
        if any(c in META for c in P) and rng.random() < 0.5:
            for nm in near_misses(rng, P, var_of(p)):
                env[nm] = rng.choice(["near", "1", "0", "9"])  # reads like the prefix as a pattern; names nothing
        if pre in NORM_PREFIXES and rng.random() < 0.6:
            for nm in normalised_near_misses(rng, pre, var_of(p)):
                env.setdefault(nm, rng.choice(["near", "1", "0", "9"]))  # the prefix 'normalised'; not the documented name
        r = rng.random()
        if r < 0.5:
            numeric = isinstance(v, (int, float)) and not isinstance(v, bool)
            env[P + var_of(p)] = rng.choice(NUMERIC) if numeric and rng.random() < 0.8 else rng.choice(VALUES)
        elif r < 0.55:
            env[P + "_".join(p)] = "1"  # right name, wrong case: not a match unless already upper
        elif r < 0.6:
            env[var_of(p)] = "1"  # unprefixed
        elif r < 0.65:
            env[P + var_of(p) + "_EXTRA"] = "zz"
    for s in sections(t):
        if rng.random() < 0.3:
            env[P + var_of(s)] = "5"  # names a section, not a setting
    if rng.random() < 0.7:
        env[P + "NOPE"] = "1"
    if rng.random() < 0.3:
        env["OTHER_" + (var_of(lv[0][0]) if lv else "Q")] = "1"
    if rng.random() < 0.2:
        env[pre.upper() + (var_of(lv[0][0]) if lv else "Q")] = "1"  # prefix without the underscore
    env = {k: v for k, v in env.items() if k and "=" not in k and "\0" not in k}
    return {"kind": "load", "tree": tag(t), "prefix": pre, "how": how, "env": env}


# ------------------------------------------------------------------ running the real code

@contextmanager
def replaced_environ(env):
    old = dict(os.environ)
    try:
        os.environ.clear()
        os.environ.update(env)
        yield
    finally:
        os.environ.clear()
        os.environ.update(old)


def make_config(case):
    from invoke.config import Config
    pre, how = case["prefix"], case.get("how", "default")
    if how == "default":
        klass = Config
    elif how == "prefix":
        klass = type("PrefixedConfig", (Config,), {"prefix": pre})
    else:
        klass = type("EnvPrefixedConfig", (Config,), {"env_prefix": pre})
    return klass(defaults=copy.deepcopy(build(case["tree"])), lazy=True)


def run_impl(case):
    """-> (before view, exception class name | None, after view)"""
    with replaced_environ(case["env"]):
        c = make_config(case)
        before = plain(c)
        try:
            c.load_shell_env()
        except Exception as e:  # noqa
            return before, type(e).__name__, plain(c)
        return before, None, plain(c)


# ------------------------------------------------------------------ oracle: the property, stated directly

def expected(case, before):
    """-> ('ambiguous' | 'uncastable' | 'dontcare' | 'ok', {path: typed value} overrides)"""
    P = case["prefix"].upper() + "_"
    lv = list(leaves(before))
    names = {}
    for p, _ in lv:
        names.setdefault(var_of(p), []).append(p)
    if any(len(ps) > 1 for ps in names.values()):
        return "ambiguous", {}
    exp, unc, dc = {}, False, False
    for p, v in lv:
        key = P + var_of(p)
        if key not in case["env"]:
            continue
        s = case["env"][key]
        if isinstance(v, bool):
            exp[p] = s not in ("0", "")
        elif isinstance(v, str) or v is None:
            exp[p] = s
        elif isinstance(v, (list, tuple)):
            unc = True
        else:
            try:
                exp[p] = type(v)(s)
            except ValueError:
                dc = True
    if dc:
        return "dontcare", {}
    if unc:
        return "uncastable", {}
    return "ok", exp


def oracle(case, before, exc, after):
    kind, exp = expected(case, before)
    if kind == "ambiguous":
        return kind, (None if exc == "AmbiguousEnvVar" else "two settings map to one variable name but the load was not refused as ambiguous (got %s)" % exc)
    if exc == "AmbiguousEnvVar":
        return kind, "load refused as ambiguous although no two settings share a variable name"
    if kind == "dontcare":
        return kind, None
    if kind == "uncastable":
        return kind, (None if exc == "UncastableEnvVar" else "a list/tuple setting was named by the environment but not rejected (got %s)" % exc)
    if exc is not None:
        return kind, "unexpected %s" % exc
    want = {p: typed(v) for p, v in leaves(before)}
    want.update({p: typed(v) for p, v in exp.items()})
    got = {p: typed(v) for p, v in leaves(after)}
    if got != want:
        diff = sorted(set(got.items()) ^ set(want.items()))[:4]
        return kind, "settings after the load differ from 'named existing settings overridden, typed; all else untouched': %r" % (diff,)
    if set(sections(after)) != set(sections(before)):
        return kind, "sections changed: %r" % sorted(set(sections(after)) ^ set(sections(before)))[:4]
    return kind, None


def replay(case):
    if case.get("kind") == "history":
        why, _ = judge_history(case, run_history(case))
        return why is None, why or "ok"
    if case.get("kind") != "load":
        return True, "auxiliary differential case (no property statement attached)"
    before, exc, after = run_impl(case)
    kind, why = oracle(case, before, exc, after)
    return why is None, why or "ok (%s)" % kind


# ------------------------------------------------------------------ model side

def dec_tree(s):
    """inverse of enc_tree for the leaf kinds the env level can contain"""
    toks = s.split(",")
    pos = [0]

    def chars(x):
        return "".join(chr(int(c)) for c in x.split(".")) if x else ""

    def val():
        t = toks[pos[0]]
        pos[0] += 1
        if t[0] == "D":
            d = {}
            for _ in range(int(t[1:])):
                k = chars(toks[pos[0]][1:])
                pos[0] += 1
                d[k] = val()
            return d
        if t == "N":
            return None
        if t in "TF":
            return t == "T"
        if t[0] == "I":
            return int(t[1:])
        if t[0] == "S":
            return chars(t[1:])
        if t[0] == "L":
            n = int(t[1:])
            xs = [chars(x[1:]) for x in toks[pos[0]:pos[0] + n]]
            pos[0] += n
            return ("L", xs)
        return ("O", t[1:])
    return val()


def overlay(base, upd):
    out = copy.deepcopy(base)
    for k, v in upd.items():
        if isinstance(v, dict):
            out[k] = overlay(out[k] if isinstance(out.get(k), dict) else {}, v)
        else:
            out[k] = v
    return out


def load_line(case, before):
    return "load %s %s %s" % (enc_str(case["prefix"].upper() + "_"), enc_environ(case["env"]), enc_tree(before))


def compare(case, before, exc, after, m, kind):
    """None when model and implementation agree (on what the property constrains), else (impl, model) strings"""
    if kind == "dontcare":
        return None
    if m.startswith("err:"):
        got = "err:%s" % exc
        return None if got == m else (got, m)
    if exc is not None:
        return ("err:%s" % exc, m[:200])
    want = enc_tree(overlay(before, dec_tree(m[3:])), canon=True)
    got = enc_tree(after, canon=True)
    return None if want == got else (got[:300], want[:300])


def names_float(case, before):
    """does the environment name a setting whose class is opaque to the model (float, int / float subclasses, enum members)?"""
    P = case["prefix"].upper() + "_"
    return any(enc_leaf(v)[0].startswith("O") and (P + var_of(p)) in case["env"] for p, v in leaves(before))


def aux_cases(ctx, rng):
    """differential checks of the CPython functions the model re-implements, and of the private helpers when present"""
    cases, lines = [], []
    alpha = " \t\n+-_0123456789x"
    for s in VALUES + ["", " ", "+", "-", "_", "1_", "0_0", "+-1", "\x0b5\x0c", "\x1c5\x1f", "5 5"]:
        cases.append({"kind": "int", "s": s})
    for _ in range(ctx.n(300, 5000)):
        cases.append({"kind": "int", "s": "".join(rng.choice(alpha) for _ in range(rng.randint(0, 6)))})
    for _ in range(ctx.n(100, 1000)):
        cases.append({"kind": "upper", "s": "".join(chr(rng.randint(32, 126)) for _ in range(rng.randint(0, 8)))})
    for _ in range(ctx.n(200, 2000)):
        cases.append({"kind": "cast", "old": tag(rng.choice([x for x in LEAVES if not enc_leaf(x)[0].startswith("O")])), "s": rng.choice(VALUES)})
    for _ in range(ctx.n(300, 3000)):
        cases.append({"kind": "crawl", "tree": tag(gen_tree(rng))})
    for c in cases:
        if c["kind"] in ("int", "upper"):
            lines.append("%s %s" % (c["kind"], enc_str(c["s"])))
        elif c["kind"] == "cast":
            lines.append("cast %s %s" % (",".join(enc_leaf(build(c["old"]))), enc_str(c["s"])))
        else:
            lines.append("crawl " + enc_tree(build(c["tree"])))
    return cases, lines


def aux_impl(c):
    """canonical implementation answer for an auxiliary case, or None when the private helper no longer exists"""
    if c["kind"] == "int":
        try:
            return "ok %d" % int(c["s"])
        except ValueError:
            return "err:ValueError"
    if c["kind"] == "upper":
        return "ok " + enc_chars(c["s"].upper())
    try:
        from invoke.env import Environment
        Environment(config={}, prefix="")
    except Exception:  # noqa  (private module reorganised: nothing to compare against)
        return None
    if c["kind"] == "cast":
        fn = getattr(Environment(config={}, prefix=""), "_cast", None)
        if fn is None:
            return None
        try:
            return "ok " + ",".join(enc_leaf(fn(build(c["old"]), c["s"])))
        except Exception as e:  # noqa
            return "err:" + type(e).__name__
    t = build(c["tree"])
    env = Environment(config=t, prefix="")
    fn = getattr(env, "_crawl", None)
    if fn is None:
        return None
    try:
        try:
            got = fn(key_path=[], env_vars={})
        except TypeError:
            return None
        return "ok " + ";".join(enc_chars(k) + "=" + "/".join(enc_chars(x) for x in p) for k, p in got.items())
    except Exception as e:  # noqa
        return "err:" + type(e).__name__



# ------------------------------------------------------------------ histories: several load_shell_env() on ONE object

LEVEL_CODE = {"defaults": "d", "collection": "c", "overrides": "o", "modifications": "m"}
HIST_ORDER = ["defaults", "collection", "env", "overrides", "modifications"]
NOWHERE = "/nonexistent-verif-c16/"


def redraw(rng, v):
    """another value for the same setting: mostly of the same type"""
    if rng.random() < 0.12:
        return rng.choices(LEAVES, LEAFW)[0]
    if isinstance(v, bool):
        return rng.random() < 0.5
    if isinstance(v, int):
        return rng.choice([0, 1, 7, -3, 12])
    if isinstance(v, str):
        return rng.choice(["s", "", "0", "txt"])
    if v is None:
        return rng.choice([None, None, "w"])
    return copy.deepcopy(v)


def variant(rng, master, p_in):
    out = {}
    for k, v in master.items():
        if rng.random() >= p_in:
            continue
        out[k] = variant(rng, v, p_in) if isinstance(v, dict) else redraw(rng, v)
    return out


def merged(levels, env):
    out = {}
    for l in HIST_ORDER:
        out = overlay(out, env if l == "env" else levels[l])
    return out


def gen_environ(rng, P, view, prev):
    """an environment for this moment, derived from the previous one: variables removed / changed / added / all gone"""
    lv = list(leaves(view))
    r = rng.random()
    if prev is not None and r < 0.1:
        return dict(prev)
    env = {}
    if not (prev is not None and r < 0.35):  # else: every applicable variable is gone, only unrelated ones remain
        for k, v in (prev or {}).items():
            q = rng.random()
            if q < 0.35:
                continue
            env[k] = v if q < 0.7 else rng.choice(VALUES + NUMERIC)
        for p, v in lv:
            if rng.random() < 0.3:
                numeric = isinstance(v, (int, float)) and not isinstance(v, bool)
                env[P + var_of(p)] = rng.choice(NUMERIC) if numeric and rng.random() < 0.85 else rng.choice(VALUES)
        if prev is not None and not any((P + var_of(p)) in env for p, _ in lv) and lv:
            p, v = rng.choice(lv)
            env[P + var_of(p)] = "1"
    if any(c in META for c in P):
        for p, _ in lv:
            if rng.random() < 0.3:
                for nm in near_misses(rng, P, var_of(p)):
                    env[nm] = "near"
    pre0 = next((x for x in NORM_PREFIXES if x.upper() + "_" == P), None)
    if pre0 is not None:
        for p, _ in lv:
            if rng.random() < 0.3:
                for nm in normalised_near_misses(rng, pre0, var_of(p)):
                    env.setdefault(nm, "near")
    if rng.random() < 0.6:
        env[P + "NOT_A_SETTING"] = "1"
    if rng.random() < 0.3:
        env["UNRELATED"] = "x"
    return {k: v for k, v in env.items() if k and "=" not in k}


def gen_history(rng):
    while True:
        master = gen_tree(rng)
        if rng.random() < 0.85 and len({var_of(p) for p, _ in leaves(master)}) != len(list(leaves(master))):
            continue  # mostly collision-free vocabularies, so that histories get past the first load
        if list(leaves(master)):
            break
    pre = choose_prefix(rng, ["invoke", "invoke", "myapp", "my_app"])
    how = "default" if pre == "invoke" else rng.choice(["prefix", "env_prefix"])
    if pre == "":
        how = "env_prefix"  # (as `prefix` the empty string would also be the FILE prefix: "<dir>/.yaml" - not this property's business)
    P = pre.upper() + "_"
    levels = {"defaults": variant(rng, master, 0.8), "collection": {}, "overrides": {}, "modifications": {}}
    ops = [{"op": "defaults", "tree": tag(levels["defaults"])}]
    prev = None
    for i in range(rng.choice([2, 2, 3, 3, 4])):
        for _ in range(rng.choice([0, 1, 1, 2, 2]) if i else rng.choice([0, 1, 1, 2])):
            r = rng.random()
            if r < 0.5:
                lvl = rng.choice(["defaults", "collection", "collection", "overrides"])
                t = {} if rng.random() < 0.2 else variant(rng, master, rng.choice([0.4, 0.7, 0.9]))
                levels[lvl] = t
                op = {"op": lvl, "tree": tag(t)}
                if rng.random() < 0.4:
                    op["merge"] = False  # deferred merging: the merged cache stays stale until something merges
                ops.append(op)
            elif r < 0.55:
                ops.append({"op": "merge"})
            elif r < 0.8:
                lv = list(leaves(master))
                p, v = rng.choice(lv)
                val = redraw(rng, v)
                levels["modifications"] = overlay(levels["modifications"], _nest(p, val))
                ops.append({"op": "write", "path": list(p), "value": tag(val)})
            else:
                ops.append({"op": "clone"})
        environ = gen_environ(rng, P, merged(levels, {}), prev)
        prev = environ
        ops.append({"op": "env", "environ": environ})
    return {"kind": "history", "prefix": pre, "how": how, "ops": ops}


def _nest(path, v):
    for k in reversed(path):
        v = {k: v}
    return v


def write_path(c, path, value):
    cur = c
    for k in path[:-1]:
        if k not in cur:
            cur[k] = {}
        cur = cur[k]
    cur[path[-1]] = value


def run_history(case):
    """-> list of (exception class | None, view) per load_shell_env() call, stopping after the first exception;
    a trailing ('crash:<Class>', None) when some other operation raised"""
    from invoke.config import Config
    pre, how = case["prefix"], case.get("how", "default")
    klass = Config if how == "default" else type("HistConfig", (Config,), {("prefix" if how == "prefix" else "env_prefix"): pre})
    obs = []
    with replaced_environ({}):
        c = None
        try:
            for op in case["ops"]:
                kind = op["op"]
                if kind == "env":
                    os.environ.clear()
                    os.environ.update(op["environ"])
                    try:
                        c.load_shell_env()
                    except Exception as e:  # noqa
                        obs.append((type(e).__name__, plain(c)))
                        return obs
                    finally:
                        os.environ.clear()
                    obs.append((None, plain(c)))
                elif kind == "defaults" and c is None:
                    c = klass(defaults=build(op["tree"]), system_prefix=NOWHERE, user_prefix=NOWHERE + ".", lazy=True)
                elif kind in ("defaults", "collection", "overrides"):
                    getattr(c, "load_" + kind)(build(op["tree"]), **({"merge": False} if op.get("merge") is False else {}))
                elif kind == "merge":
                    c.merge()
                elif kind == "write":
                    write_path(c, op["path"], build(op["value"]))
                elif kind == "clone":
                    c = c.clone()
        except Exception as e:  # noqa
            obs.append(("crash:" + type(e).__name__, None))
    return obs


def semantics(base, environ, P):
    """the property for one moment: which settings of `base` the environment overrides, and how
    -> ('ambiguous' | 'uncastable' | 'dontcare' | 'ok', env-level tree)"""
    kind, exp = expected({"prefix": P[:-1], "env": environ}, base)
    tree = {}
    for p, v in exp.items():
        tree = overlay(tree, _nest(p, v))
    return kind, tree


def matches(kind, env_tree, levels, exc, view):
    if kind == "ambiguous":
        return exc == "AmbiguousEnvVar"
    if kind == "uncastable":
        return exc == "UncastableEnvVar"
    if exc is not None:
        return False
    want = merged(levels, env_tree)
    return ({p: typed(v) for p, v in leaves(want)} == {p: typed(v) for p, v in leaves(view)}
            and set(sections(want)) == set(sections(view)))


def judge_history(case, obs):
    """-> (why | None, stats).  After every load the property is evaluated for the environment of THAT moment: the
    existing settings are the ones the OTHER levels define now; whatever an earlier load applied is irrelevant."""
    P = case["prefix"].upper() + "_"
    levels = {"defaults": {}, "collection": {}, "overrides": {}, "modifications": {}}
    i = 0
    stats = {"loads": 0}
    for op in case["ops"]:
        kind = op["op"]
        if kind in levels:
            levels[kind] = build(op["tree"])
        elif kind == "write":
            levels["modifications"] = overlay(levels["modifications"], _nest(op["path"], build(op["value"])))
        elif kind == "env":
            if i >= len(obs):
                return None, stats
            exc, view = obs[i]
            i += 1
            if exc and exc.startswith("crash:"):
                return "an operation other than load_shell_env raised %s" % exc[6:], stats
            stats["loads"] += 1
            k1, e1 = semantics(merged(levels, {}), op["environ"], P)
            if k1 == "dontcare":
                return None, stats
            if not matches(k1, e1, levels, exc, view):
                got = exc or {".".join(p): v for p, v in list(leaves(view))[:6]}
                return ("load %d under %r: outcome %r is not 'exactly the existing settings named by the environment of this "
                        "moment are overridden, typed; all else as the other levels say' (expected %s)" % (
                            i, op["environ"], got, k1)), stats
            if exc is not None:
                return None, stats
    if i < len(obs) and obs[i][0] and obs[i][0].startswith("crash:"):
        return "an operation other than load_shell_env raised %s" % obs[i][0][6:], stats
    return None, stats


def history_line(case):
    parts = ["hist", enc_str(case["prefix"].upper() + "_")]
    mods = {}
    for op in case["ops"]:
        kind = op["op"]
        if kind == "env":
            parts.append("e=" + enc_environ(op["environ"]))
        elif kind == "write":
            mods = overlay(mods, _nest(op["path"], build(op["value"])))
            parts.append("m=" + enc_tree(mods))
        elif kind in LEVEL_CODE:
            parts.append(LEVEL_CODE[kind] + ("u" if op.get("merge") is False else "") + "=" + enc_tree(build(op["tree"])))
        elif kind == "merge":
            parts.append("g")
    return " ".join(parts)


def master_view(case, upto):
    """the other levels merged, as they are when the operation `upto` runs"""
    levels = {"defaults": {}, "collection": {}, "overrides": {}, "modifications": {}}
    for op in case["ops"]:
        if op is upto:
            break
        if op["op"] in levels:
            levels[op["op"]] = build(op["tree"])
        elif op["op"] == "write":
            levels["modifications"] = overlay(levels["modifications"], _nest(op["path"], build(op["value"])))
    return merged(levels, {})


def history_has_opaque(case):
    def any_float(t):
        return any(enc_leaf(v)[0].startswith("O") for _, v in leaves(t))
    return any((op["op"] in LEVEL_CODE and any_float(build(op["tree"]))) or
               (op["op"] == "write" and enc_leaf(build(op["value"]))[0].startswith("O")) for op in case["ops"])



# ------------------------------------------------------------------ run

def run(ctx):
    out = Outcome()
    rng = ctx.rng
    drv = LeanDriver("drv_env")
    cases = [gen_case(rng) for _ in range(ctx.n(12000, 150000))]
    # design-time witnesses
    cases += [
        {"kind": "load", "tree": tag({"foo": {"bar": 1}, "foo_bar": 2}), "prefix": "invoke", "how": "default", "env": {}},
        {"kind": "load", "tree": tag({"x": {"a_b": 1, "a": {"b": 2}}}), "prefix": "invoke", "how": "default", "env": {}},
        {"kind": "load", "tree": tag({"a": True, "b": False}), "prefix": "invoke", "how": "default", "env": {"INVOKE_A": "0", "INVOKE_B": "false"}},
        {"kind": "load", "tree": tag({"a": 1}), "prefix": "invoke", "how": "default", "env": {"INVOKE_B": "1", "INVOKE_A_B": "2"}},
        {"kind": "load", "tree": tag({"a.b": 5, "a": {"b": "text"}}), "prefix": "invoke", "how": "default", "env": {"INVOKE_A_B": "7", "INVOKE_A.B": "8"}},
    ]
    results, lines = [], []
    for c in cases:
        before, exc, after = run_impl(c)
        results.append((before, exc, after))
        lines.append(load_line(c, before))
    aux, aux_lines = aux_cases(ctx, rng)
    hist = [gen_history(rng) for _ in range(ctx.n(2500, 40000))]
    hist += [{"kind": "history", "prefix": "invoke", "how": "default", "ops": [
        {"op": "defaults", "tree": tag({"foo": "old", "num": 1, "nested": {"flag": False}})},
        {"op": "env", "environ": {"INVOKE_FOO": "bar", "INVOKE_NUM": "5", "INVOKE_NESTED_FLAG": "yes"}},
        {"op": "env", "environ": {"INVOKE_NUM": "7", "UNRELATED": "x"}},
        {"op": "env", "environ": {"UNRELATED": "x", "INVOKE_NOT_A_SETTING": "y"}},
        {"op": "clone"}, {"op": "env", "environ": {}}]}]
    hist_lines = [history_line(c) for c in hist]
    model = drv.run(lines + aux_lines + hist_lines) if ctx.model_ok else [None] * (len(lines) + len(aux_lines) + len(hist_lines))
    for c, (before, exc, after), m in zip(cases, results, model):
        kind, why = oracle(c, before, exc, after)
        P = c["prefix"].upper() + "_"
        applied = sum(1 for p, _ in leaves(before) if P + var_of(p) in c["env"])
        out.case(c, nontrivial=(applied > 0 or kind == "ambiguous"))
        out.hist["kind:" + kind] += 1
        out.hist["prefix:" + c.get("how", "default")] += 1
        if c["prefix"] in NORM_PREFIXES:
            cls = ("empty" if c["prefix"] == "" else "non_ascii" if not c["prefix"].isascii() else "dash_or_space" if any(x in c["prefix"] for x in "- ")
                   else "underscores" if c["prefix"].strip("_") != c["prefix"] else "case_or_digit")
            out.hist["prefix_normalisable:" + cls] += 1
            out.hist["prefix_normalisable_near_miss_vars:%d" % min(3, sum(1 for k in c["env"] if not k.startswith(P)))] += 1
        if any(ch in META for ch in P):
            out.hist["prefix_with_metacharacter"] += 1
            out.hist["prefix_meta_near_miss_vars:%d" % min(3, sum(1 for k, v in c["env"].items() if v in ("near",) or (not k.startswith(P) and v in ("1", "0", "9") and k.endswith(tuple(var_of(p) for p, _ in leaves(before)) or ("\0",)))))] += 1
        dotted = [p for p, _ in leaves(before) if any("." in k for k in p)] + [p for p in sections(before) if any("." in k for k in p)]
        out.hist["dotted_keys:%d" % min(len(dotted), 2)] += 1
        if dotted:
            allp = {".".join(p) for p, _ in leaves(before)} | {".".join(p) for p in sections(before)}
            spelled = len(allp) < len(list(leaves(before))) + len(list(sections(before)))
            out.hist["dotted_key_spells_a_nested_path:%d" % spelled] += 1
        for p, v in leaves(before):
            if type(v) in (HostList, Pair, Endpoint, Port, Name, Ratio, Level) and P + var_of(p) in c["env"]:
                out.hist["env_names_subclass_value:" + type(v).__name__] += 1
        if kind == "ok":
            out.hist["applied:%d" % min(applied, 4)] += 1
        if kind == "ambiguous":
            lv = [p for p, _ in leaves(before)]
            d = min(len(p) for p in lv for q in lv if p != q and var_of(p) == var_of(q))
            out.hist["collision_min_depth:%d" % d] += 1
        if m is not None:
            if names_float(c, before):
                out.hist["model_skipped_float"] += 1
            else:
                out.traces += 1
                bad = compare(c, before, exc, after, m, kind)
                if bad:
                    out.disagree(c, bad[0], bad[1])
        if why:
            out.fail(c, why)
    for c, m in zip(aux, model[len(lines):]):
        got = aux_impl(c)
        out.evaluations += 1
        out.hist["aux:" + c["kind"]] += 1
        if got is None:
            out.hist["aux_skipped_private_api_gone:" + c["kind"]] += 1
            continue
        if m is not None:
            if m == "err:ValueError":  # don't-care region of the property: the class of this error is not compared
                continue
            out.traces += 1
            if c["kind"] == "crawl" and m.startswith("ok ") and got.startswith("ok "):
                m, got = sorted(m[3:].split(";")), sorted(got[3:].split(";"))
            if m != got:
                out.disagree(c, got, m)
    for c, m in zip(hist, model[len(lines) + len(aux_lines):]):
        obs = run_history(c)
        why, st = judge_history(c, obs)
        out.case(c, nontrivial=st["loads"] >= 2)
        out.hist["history"] += 1
        out.hist["history_loads_judged:%d" % st["loads"]] += 1
        out.hist["history_clones:%d" % min(2, sum(1 for op in c["ops"] if op["op"] == "clone"))] += 1
        envs = [op["environ"] for op in c["ops"] if op["op"] == "env"]
        P = c["prefix"].upper() + "_"
        for a, b in zip(envs, envs[1:]):
            rel = lambda e: {k for k in e if k.startswith(P) and k != P + "NOT_A_SETTING"}  # noqa: E731
            out.hist["history_env_change:" + ("same" if a == b else "all_removed" if rel(a) and not rel(b) else
                                              "removed" if rel(a) - rel(b) else "added_or_changed")] += 1
        stale, env_nonempty = False, False
        for op in c["ops"]:
            k = op["op"]
            if k in LEVEL_CODE and k != "modifications":
                stale = op.get("merge") is False
            elif k in ("merge", "write", "clone"):
                stale = False
            elif k == "env":
                out.hist["history_load_on:%s_cache,env_level_%s" % ("stale" if stale else "fresh", "nonempty" if env_nonempty else "empty")] += 1
                lvls = {P + var_of(p) for p, _ in leaves(master_view(c, op))}
                env_nonempty = any(x in op["environ"] for x in lvls)
                stale = False
        if obs and obs[-1][0] and not obs[-1][0].startswith("crash:"):
            out.hist["history_ended_by:" + obs[-1][0]] += 1
        if m is not None and not history_has_opaque(c) and not (why is None and st["loads"] < len(obs)):
            got = []
            for exc, view in obs:
                if exc and exc.startswith("crash:"):
                    got.append(exc)
                elif exc:
                    got.append("err:" + exc)
                else:
                    got.append("ok " + enc_tree(view, canon=True))
            mm = m.split("|")
            dontcare = any(x == "err:ValueError" for x in mm) or any(x == "err:ValueError" for x in got)
            if not dontcare:
                out.traces += 1
                if got != mm[:len(got)] or len(mm) != len(got):
                    out.disagree(c, " | ".join(got)[:400], " | ".join(mm)[:400])
        if why:
            out.fail(c, why)
    out.extra["table_obligations"] = 2  # generated_cast_order_documented, generated_cast_table_documented
    return out
