"""C17 - a task's namespace settings are the deep merge along its path, outer wins; the mapping returned is fresh.

Tree specs, the builder of the REAL `Collection`, the serialisation for `drv_coll` and the comparison loop are
shared with C10 (`props/c10.py`)."""
import copy

import common  # noqa: F401
from common import Outcome
from props import c10 as base

ID = "C17"
PROPS = ["Invoke/Props/C17.lean"]
TARGETS = ["drv_coll"]
DRIVER_ROOTS = ["Driver/Coll.lean"]
GENERATED = []
RULE = ("case = (namespace tree of depth <= 3 with a nested configuration dict per collection: overlapping sections, "
        "disjoint and conflicting keys inside shared sections two levels deep, leaves int/str/bool/None/list, a few "
        "dict-vs-leaf clashes; all candidate dotted names of the tree incl. every alias, default-task and "
        "default-sub-collection shortcut and dash/underscore spelling); observed at Collection.configuration / "
        "task_with_config, at the config the task body sees through Program.run, and by mutating the returned "
        "mapping; a case is non-trivial when some task lies below the root and two collections on its path share a "
        "section; distinct = distinct (tree, names).  Histories on ONE live tree (case = initial tree + explicit list of "
        "steps, judged after every step against a spec tree that received the same operations): lookups - "
        "configuration(name), task_with_config, to_contexts, a Program run, an Executor run; through the root and through "
        "intermediate collections; returned mappings tampered with - interleaved with configure() at every depth (0..4, "
        "weighted towards grandchildren and below), add_task (aliases, defaults) and add_collection of new configured "
        "sub-trees (also as default sub-collection) at every depth, and the mounting of a collection of the tree under a "
        "second configured root that is then asked as well; a history is non-trivial when a mutation at depth >= 1 is "
        "followed by a lookup through a strict ancestor.  Module-backed collections as a node kind of the histories: a "
        "synthetic module with its own configured `ns` / `namespace` collection (possibly with sub-collections, its own "
        "auto_dash_names) or without one, loaded 1-3 times into one collection of the tree by add_collection(module) / "
        "Collection.from_module(name=, config=, auto_dash_names=), before the first lookup (pure construction) or in the "
        "middle of a history, usually followed by configure() on ONE loaded copy; the other copies, the whole tree and the "
        "module's own ns object (asked as a further root, its stored configuration compared after every lookup) are judged "
        "by the same oracle, names keyed by path (copies hold equal or the same Task objects).  Calls without a name: 2-3 "
        "equal-but-distinct Task objects (same function wrapped twice under one name / deep copy / the copies of one module's "
        "task) in different collections of a generated tree, as pre/post tasks of 1-2 main tasks with different call "
        "arguments or with deduplication off, run by ONE Executor (several execute() calls, repeated commands) or by "
        "Program; every body must see the deep merge along the path of the collection it lives in.  Several tasks in one run: trees "
        "of depth 3-4 in which most inner collections have a default task; runs of 2-4 distinct tasks by Executor.execute or one "
        "Program command line, named by full names, aliases, root-level and nested default shortcuts (`a.b`, `a.b.c`), built "
        "around a nested shortcut next to a task of the enclosing collection (both orders), next to tasks of sibling collections "
        "and of the root, plus random mixtures and their reversals; every body is judged by the same oracle for ITS path.  "
        "Sessions: in 40% of the histories ONE Executor and ONE Program object per collection serve all lookups of the history, "
        "the (up to 8 deepest) names being run again after every change.  Shared option dicts: ONE dict object is handed to "
        "configure() of 2-3 collections (fresh unconfigured siblings, their parent, other collections), one of them is then "
        "configured again inside a section of that dict; every dict ever handed to configure() must stay as it was.  "
        "Reconfiguration inside one run: probe(tag 1), a task whose body calls configure() on a collection on (80%) or off the "
        "probe's path, probe again (tag 2, 3) in one execute() / command line; each call sees the tree as it is at that time")
TRUSTED = ["Lean 4.33 kernel", "axioms propext/Classical.choice/Quot.sound only",
           "harness/props/c10.py + c17.py: tree builder, serialisation of the real object, canonicalisation",
           "models Invoke/Model/Collection.lean and Invoke/Model/Val.lean hand-written, tied to invoke.collection / "
           "invoke.config.merge_dicts by the correspondence run on every check",
           "CPython dict / copy.copy semantics (freshness is checked on the real objects, not modelled)"]
ASSUMPTIONS = ["per-path statement of the corollary needs type-consistent settings along the path (a key is a section "
               "in every collection defining it or a leaf in every one); the code raises AmbiguousMergeError otherwise "
               "and the oracle treats such paths as don't-care",
               "freshness is established by mutation + identity scan of the real result (lists nested inside list "
               "leaves are outside the statement: merge_dicts copies leaves with copy.copy)",
               "the theorems quantify over all trees; names are component lists (dot-free components)"]
LEVEL_TEXT = ("Lean 4 proofs over ALL namespace trees and names: whenever task_with_config resolves a name, the settings "
              "returned are the fold of merge_dicts over the configurations of exactly the collections on the path "
              "root..holder with the outer collection applied last (ns_config_is_deep_merge_outer_wins), hence at "
              "every key path the outermost collection defining it wins and inner settings are otherwise preserved "
              "(ns_config_leaf_outermost_wins, via getLeaf_mergeT), replacing any collection off the path changes "
              "nothing (siblings_contribute_nothing), and aliases / default shortcuts give the same settings as the "
              "primary name (same_for_alias_and_default_shortcut); over HISTORIES of configure/add_task/add_collection at "
              "any depth interleaved with lookups the answer depends only on the tree produced by the mutations so far "
              "(history_lookup_depends_only_on_current_tree, history_earlier_lookups_irrelevant), is the deep merge along "
              "the path in THAT tree (history_config_is_deep_merge_of_current_tree), configure reaches exactly the "
              "addressed collection and mutations off the path change nothing (configure_updates_the_addressed_collection, "
              "mutation_off_path_changes_nothing; run_settings_are_pointwise for several tasks in one run; loaded_copies_are_independent_example for two loads of one module - "
              "from_module is construction, the model is the resulting tree) - the same step lists are replayed on the real objects and on the model "
              "(driver query H); the model is tied to invoke.collection + "
              "merge_dicts on every run by a differential check on generated trees and a direct recursive-merge oracle; "
              "freshness is proved on a minimal object model (dicts with addresses, copy_dict/merge_dicts allocating: "
              "configuration_fresh, configuration_fresh_for_lookup, shown to compute the value model) and established "
              "on the real result by mutation and identity scan")
TECHNIQUE = ("Lean 4 theorems by induction over the namespace tree on top of the nested-dict merge lemmas + "
             "model/implementation correspondence + direct Python oracle (independent recursive merge, mutation test)")


def expected_cfg(info):
    """reference: recursive merge of the configurations of the collections on the path, outer applied last"""
    cfgs = [base.eff_cfg(n) for n in info["path_nodes"]]
    if any(c is None for c in cfgs):
        return None
    acc = {}
    try:
        for cfg in reversed(cfgs):  # innermost first, so the outer collections win
            base.ref_merge_into(acc, cfg)
    except base.Clash:
        return None
    return acc


def diff_path(a, b, pre=()):
    """first key path at which two nested dicts differ"""
    if isinstance(a, dict) and isinstance(b, dict):
        for k in sorted(set(a) | set(b)):
            if k not in a or k not in b:
                return pre + (k,)
            d = diff_path(a[k], b[k], pre + (k,))
            if d is not None:
                return d
        return None
    return None if (a == b and type(a) is type(b)) else pre


def get_path(d, path):
    for k in path:
        if not isinstance(d, dict) or k not in d:
            return "<absent>"
        d = d[k]
    return d


def containers(v, acc):
    if isinstance(v, dict):
        acc[id(v)] = v
        for x in v.values():
            containers(x, acc)
    elif isinstance(v, list):
        acc[id(v)] = v
    return acc


def all_collections(root):
    yield root
    for sc in dict.values(root.collections):
        yield from all_collections(sc)


def stored_dicts(c):
    """the plain dicts a collection object holds (its stored configuration, whatever the attribute is called)"""
    return {k: v for k, v in vars(c).items() if type(v) is dict}


def mutate(d):
    """change the returned mapping everywhere a mapping can be changed"""
    for k in list(d.keys()):
        v = d[k]
        if isinstance(v, dict):
            mutate(v)
        elif isinstance(v, list):
            v.append("mutated")
        else:
            d[k] = ("mutated", k)
    d["__added__"] = 1
    if len(d) > 1:
        del d[sorted(k for k in d if k != "__added__")[0]]


def oracle_c17(spec, root, b, names, hist=None):
    fails = []
    if not base.well_formed(spec):
        if hist is not None:
            hist["oracle_skipped_illformed"] += 1
        return fails
    infos = base.expected_bindings(spec, root, b)
    want = {i["vid"]: expected_cfg(i) for i in infos}
    by_vid = {i["vid"]: i for i in infos}
    try:
        parser = base.impl_parser(root)
    except base.SettingsClash:
        parser = None
    accepted = set()
    if parser is not None:
        accepted = set(dict.keys(parser.contexts)) | set(parser.contexts.aliases.keys())
    todo = sorted(set(names) | accepted)
    fresh_done = 0
    for n in todo:
        res, t, cfg = base.impl_lookup(root, n)
        if t is None:
            continue
        exp = want.get(t._vid)
        if exp is None:
            if hist is not None:
                hist["dontcare_type_clash_on_path"] += 1
            continue
        if hist is not None:
            hist["config_checked"] += 1
            i = by_vid[t._vid]
            if len(i["path_nodes"]) > 1:
                hist["config_checked_nested"] += 1
                secs = [set(k for k, v in (base.eff_cfg(x) or {}).items() if isinstance(v, dict)) for x in i["path_nodes"]]
                if any(secs[a] & secs[c] for a in range(len(secs)) for c in range(a + 1, len(secs))):
                    hist["config_checked_shared_section"] += 1
        got = root.configuration(n)
        d = diff_path(got, exp)
        if d is not None:
            i = by_vid[t._vid]
            where = "/".join(k for _, k in i["path_keys"]) or "<root>"
            fails.append(("not-deep-merge", "configuration(%r) (task #%d in %s) has %r at %s, the merge along the path "
                          "(outer wins) has %r" % (n, t._vid, where, get_path(got, d), ".".join(d), get_path(exp, d)), [n]))
            continue
        # ---- freshness: identity scan, then mutate and re-read
        if fresh_done < 12:
            fresh_done += 1
            stored = {}
            for c in all_collections(root):
                for v in stored_dicts(c).values():
                    containers(v, stored)
            shared = [k for k in containers(got, {}) if k in stored]
            if shared:
                fails.append(("aliased", "configuration(%r) shares %d dict/list object(s) with a stored configuration" % (n, len(shared)), [n]))
            snap = [copy.deepcopy(stored_dicts(c)) for c in all_collections(root)]
            mutate(got)
            now = [stored_dicts(c) for c in all_collections(root)]
            if now != snap:
                fails.append(("mutation-leaks", "changing the mapping returned by configuration(%r) changed a stored configuration" % n, [n]))
                for c, s in zip(all_collections(root), snap):  # repair for the following checks
                    for k, v in s.items():
                        setattr(c, k, v)
            again = root.configuration(n)
            if diff_path(again, exp) is not None:
                fails.append(("mutation-leaks", "configuration(%r) differs after the previous result was changed" % n, [n]))
            if hist is not None:
                hist["freshness_checked"] += 1
    # ---- what the task body sees when invoked by each accepted name
    for n in sorted(accepted):
        res, t, cfg = base.impl_lookup(root, n)
        if t is None or want.get(t._vid) is None:
            continue
        out, err, log, exc = base.quiet_run(root, [n])
        if len(log) != 1 or log[0][0] != t._vid:
            continue  # which task runs is C10's business
        seen = log[0][1]
        exp = {k: v for k, v in want[t._vid].items() if k in base.WATCH_KEYS}
        d = diff_path(seen, exp)
        if d is not None:
            fails.append(("body-sees-other-settings", "invoked as %r the task body sees %r at %s, expected %r"
                          % (n, get_path(seen, d), ".".join(d), get_path(exp, d)), [n]))
        elif hist is not None:
            hist["body_config_checked"] += 1
    # ---- the same when another task (from any other namespace path) ran first in the same session:
    #      the settings a task receives are those of ITS path, not left-overs of the previous task
    acc = [n for n in sorted(accepted) if base.impl_lookup(root, n)[1] is not None and want.get(base.impl_lookup(root, n)[1]._vid) is not None]
    pairs = [(m, n) for m in acc for n in acc if m != n][:8] + [(m, n) for m in reversed(acc) for n in acc if m != n][:8]
    for m, n in pairs:
        tm, tn = base.impl_lookup(root, m)[1], base.impl_lookup(root, n)[1]
        if tm._vid == tn._vid:
            continue
        out, err, log, exc = base.quiet_run(root, [m, n])
        if len(log) != 2 or log[0][0] != tm._vid or log[1][0] != tn._vid:
            continue
        seen = log[1][1]
        exp = {k: v for k, v in want[tn._vid].items() if k in base.WATCH_KEYS}
        d = diff_path(seen, exp)
        if d is not None:
            fails.append(("body-sees-other-settings", "invoked as %r right after %r the task body sees %r at %s, expected %r"
                          % (n, m, get_path(seen, d), ".".join(d), get_path(exp, d)), [m, n]))
        elif hist is not None:
            hist["body_config_checked_after_other_task"] += 1
    return fails


# ------------------------------------------------------------------------------------------ setting names are opaque strings
# Every family below takes its configuration dicts from `base.gen_cfg`; while C17 runs it is wrapped so that a share of
# them also carries keys that LOOK like structure: keys containing dots - next to the nested path of the same spelling
# (`{"sec.a": 1}` beside `{"sec": {"a": 2}}`, `"sub2.p"` inside `sec` beside `sec.sub2.p`) -, other separator-like
# characters (`/`, ` `, `__`, `-`, leading / trailing / doubled dots), the empty string, keys equal to collection or
# task names, sections stored under such keys; in the families that do not go through the Lean driver's line protocol
# also `:`, `,`, `|`, braces.  Keys are compared as whole strings by the oracle.  Not generated: keys that differ only in
# case or in `_` vs nesting (`sec_a` beside `sec.a`-the-path: AmbiguousEnvVar by design of the env layer) and non-string
# keys (configure / configuration handle them, the env layer raises TypeError when a task runs; JSON replays cannot carry them).

ODD_LEAF_KEYS = ["sec.a", "sec.b", "a.b", "sub2.p", "sec.sub2.p", "k1.x", "a/b", "a b", "a__b", "", "x.", ".y", "a..b", "k-1", "sub",
                 "build", "ns_a.a", "my_task"]
ODD_SECTION_KEYS = ["s.t", "s/t", "deep", " "]
ODD_KEYS_NO_MODEL = ["a:b", "a,b", "{a}", "a|b", "a\tb"]
ODD = {"on": False, "model_safe": True, "orig": None, "hist": {}}


def key_class(k):
    return ("empty" if k == "" else "dotted" if "." in k else "like_a_collection_or_task_name" if k.isidentifier() else
            "driver_separator" if any(c in k for c in ":,{}|\t") else "other_separator")


def decorate_cfg(rng, cfg):
    places = [cfg]
    if isinstance(cfg.get("sec"), dict):
        places += [cfg["sec"], cfg["sec"]]
        if isinstance(cfg["sec"].get("sub2"), dict):
            places.append(cfg["sec"]["sub2"])
    for _ in range(rng.randint(1, 3)):
        d = rng.choice(places)
        r = rng.random()
        if r < 0.15:
            k = rng.choice(ODD_SECTION_KEYS)
            d[k] = {rng.choice(["p", "q", "p.q"]): rng.randint(0, 9)}
            ODD["hist"]["odd_key_section"] = ODD["hist"].get("odd_key_section", 0) + 1
        elif r < 0.3 and not ODD["model_safe"]:
            k = rng.choice(ODD_KEYS_NO_MODEL)
            d[k] = rng.randint(0, 9)
        else:
            k = rng.choice(ODD_LEAF_KEYS)
            d[k] = rng.choice([rng.randint(0, 9), "v%d" % rng.randint(0, 3), None, True])
        for name in ("odd_key:" + key_class(k), "odd_key_at_%s" % ("top_level" if d is cfg else "nested_level")):
            ODD["hist"][name] = ODD["hist"].get(name, 0) + 1
        if "." in k and d is cfg and isinstance(cfg.get(k.split(".")[0]), dict):
            ODD["hist"]["odd_key_dotted_beside_nested_path_of_same_spelling"] = ODD["hist"].get("odd_key_dotted_beside_nested_path_of_same_spelling", 0) + 1
    ODD["hist"]["odd_key_cfgs"] = ODD["hist"].get("odd_key_cfgs", 0) + 1
    return cfg


def odd_gen_cfg(rng, rich, depth=0):
    cfg = ODD["orig"](rng, rich, depth)
    if depth == 0 and rich and ODD["on"] and rng.random() < 0.4:
        decorate_cfg(rng, cfg)
    return cfg


def odd_keys_in(v):
    """number of keys in a nested dict that are not plain identifiers"""
    if not isinstance(v, dict):
        return 0
    return sum((not (isinstance(k, str) and k.isidentifier())) + odd_keys_in(x) for k, x in v.items())


# ------------------------------------------------------------------------------------------ histories on ONE live tree
# The property speaks about the tree AS IT IS when the settings are asked for.  A history interleaves lookups
# (configuration(name) / task_with_config / __getitem__ + to_contexts / a Program run / an Executor run, through the
# root and through intermediate collections) with `configure()` at every depth, `add_task` and `add_collection` of
# new sub-trees at every depth; after every step the same oracle as above is evaluated against the spec tree that
# has received the same operations.  A case = (initial tree, explicit list of steps): replayable without any rng.

HOWS = ["configuration", "twc", "contexts", "program", "executor"]


def addr_keys(spec, path):
    """real binding keys (as the parent's `collections` holds them) along a path of child indices"""
    keys, node = [], spec
    for i in path:
        ks = node["colls"][i]
        keys.append(base.norm(base.eff_ad(node), base.kid_raw(ks)))
        node = ks["node"]
    return keys


def gen_history(rng, spec, nsteps):
    """explicit steps for `spec` (already methodsified and well-formed); works on a private copy of the spec only"""
    spec = copy.deepcopy(spec)
    root_ad = base.eff_ad(spec)
    steps = []
    serial = [0]

    def nodes():
        return [(n, list(p)) for n, p in base.spec_nodes(spec)]

    def pick_node(deep_bias):
        ns = nodes()
        w = [(1 + len(p) * deep_bias) for _, p in ns]
        return rng.choices(ns, weights=w)[0]

    mounted = []  # second roots: (index, path of the shared collection in the first tree)
    nroots = [0]  # further lookup roots: second roots and the `ns` objects of modules

    session = rng.random() < 0.4  # ONE Executor / Program object per collection is kept alive over the whole history

    def look(path=None, root=0):
        if path is None:
            path = []
        st = {"op": "look", "root": root, "at": path, "how": rng.choice(HOWS), "pick": rng.randrange(1000),
              "tamper": rng.random() < 0.5}
        if session:
            st["session"] = True
            if rng.random() < 0.6:
                st["how"] = rng.choice(["executor", "executor", "program"])
        steps.append(st)

    def shared_configure(k):
        """the SAME dict object becomes the (preferably first) configuration of 2-3 collections - siblings, or parent and
        child -, then one of them is configured again inside a section of that dict; -> path to look from"""
        ns = nodes()
        empty = [(n, p) for n, p in ns if not n["cfg"] and p]
        if len(empty) < 2 and rng.random() < 0.8:
            # two fresh, unconfigured sibling collections
            node, path = pick_node(0.5)
            for j in range(2):
                sub = {"name": "shr%d_%d" % (k, j), "ad": node.get("ad"), "tasks": [{"fn": "t%d_%d" % (k, j), "tname": None, "own": [],
                       "bind": None, "extra": [], "default": "add" if rng.random() < 0.5 else None}], "colls": [], "cfg": {}, "via": "methods"}
                ks = {"node": sub, "bind": None, "default": False}
                node["colls"].append(ks)
                steps.append({"op": "add_coll", "at": path, "kid": copy.deepcopy(ks)})
            look([])
            targets = [path + [len(node["colls"]) - 2], path + [len(node["colls"]) - 1]]
            if rng.random() < 0.3:
                targets.append(path)  # ... and their parent
        else:
            pool = empty if len(empty) >= 2 else [(n, p) for n, p in ns if p]
            if len(pool) < 2:
                return
            targets = [p for n, p in rng.sample(pool, min(len(pool), rng.choice([2, 2, 3])))]
        cfg = base.gen_cfg(rng, True)
        if not isinstance(cfg.get("sec"), dict):
            cfg["sec"] = {"a": rng.randint(0, 9), "sub2": {"p": rng.randint(0, 9)}}
        try:
            for tp in targets:
                base.ref_merge_into(copy.deepcopy(spec_at(spec, tp)["cfg"]), cfg)
        except base.Clash:
            return
        for tp in targets:
            base.ref_merge_into(spec_at(spec, tp)["cfg"], cfg)
        steps.append({"op": "configure_shared", "ats": targets, "cfg": cfg})
        look([])
        # one of them is configured a second time, inside a section the shared dict brought along
        again = rng.choice(targets)
        inner = {"b": rng.randint(10, 99), "c": "again%d" % k}
        cfg2 = {"sec": dict(inner, sub2={"q": rng.randint(10, 99)}) if rng.random() < 0.5 else inner}
        try:
            base.ref_merge_into(copy.deepcopy(spec_at(spec, again)["cfg"]), cfg2)
        except base.Clash:
            return
        base.ref_merge_into(spec_at(spec, again)["cfg"], cfg2)
        steps.append({"op": "configure", "at": again, "cfg": cfg2})
        look([])
        for tp in targets:
            if tp != again and tp and rng.random() < 0.5:
                look(tp)

    def mount():
        inner = [(n, p) for n, p in nodes() if p and base.has_tasks(n)]
        if not inner:
            return
        n, p = rng.choice(inner)
        cfg = base.gen_cfg(rng, True)
        nroots[0] += 1
        steps.append({"op": "mount", "at": p, "cfg": cfg, "ad": root_ad if rng.random() < 0.8 else (not root_ad),
                      "bind": "shared_x%d" % nroots[0]})
        mounted.append((nroots[0], p))
        look([], nroots[0])

    def add_module(k):
        """a synthetic module - with its own configured `ns` / `namespace` collection, or without one - loaded once,
        twice or three times (add_collection(module) / Collection.from_module with name=, config=, auto_dash_names=)
        into one collection of the tree; -> (path of the parent, indices of the new children, lookup root of the ns)"""
        node, path = pick_node(0.7)
        opts = {"mixed": False, "clash": False, "rich": True}
        kind = "ns" if rng.random() < 0.75 else "implicit"
        if kind == "ns":
            ns = None
            for _try in range(8):
                cand = base.methodsify(base.gen_node(rng, rng.choice([1, 2, 2]), root_ad, opts, name=rng.choice(["modns%d" % k, None])))
                if base.has_tasks(cand) and cand["tasks"] and base.well_formed(cand):
                    ns = cand
                    break
            if ns is None:
                return None
            if rng.random() < 0.3:
                ns["ad"] = rng.choice([True, False])
            if not ns["cfg"] or rng.random() < 0.5:
                ns["cfg"] = base.gen_cfg(rng, True) or {"sec": {"a": k}}
        else:
            ns = {"name": None, "ad": None, "tasks": [], "colls": [], "cfg": {}, "via": "methods"}
            for fn in rng.sample(base.FN, rng.randint(1, 3)):
                ns["tasks"].append({"fn": fn, "tname": None, "own": ["al_" + fn] if rng.random() < 0.3 else [], "bind": None,
                                    "extra": [], "default": None})
            if rng.random() < 0.4:
                ns["tasks"][0]["default"] = "decl"
            if not base.well_formed(dict(ns, ad=True)):
                return None
        mounts = []
        for mi in range(rng.choice([1, 2, 2, 2, 3])):
            m = {"bind": "mnt%d_%d" % (k, mi), "via": rng.choice(["module", "module", "from_module"]), "given": None, "config": None,
                 "ad": None, "default": False}
            if m["via"] == "from_module":
                if rng.random() < 0.5:
                    m["given"] = "given%d_%d" % (k, mi)
                    if rng.random() < 0.5:
                        m["bind"] = None  # mounted under the name given to from_module
                if rng.random() < 0.5:
                    cfg = base.gen_cfg(rng, True)
                    try:
                        base.ref_merge_into(copy.deepcopy(ns["cfg"]), cfg)
                        m["config"] = cfg or None
                    except base.Clash:
                        pass
                if rng.random() < 0.25:
                    m["ad"] = rng.choice([True, False])
            if mi == 0 and rng.random() < 0.25 and base.default_target_local(node) is None and has_default(ns):
                m["default"] = True
            mounts.append(m)
        nroots[0] += 1 if kind == "ns" else 0
        st = {"op": "add_module", "at": path, "kind": kind, "attr": rng.choice(["ns", "ns", "namespace"]), "modname": "pkg.mod%d" % k,
              "node": ns, "mounts": mounts}
        steps.append(st)
        first = len(node["colls"])
        for m in mounts:
            node["colls"].append({"node": mounted_spec(st, m, copy.deepcopy(ns)), "bind": m["bind"], "default": m["default"]})
        return path, list(range(first, first + len(mounts))), (nroots[0] if kind == "ns" else None)

    def after_module(res):
        """the essential continuation: one of the loaded copies is configured, the others (and the module's ns) are asked"""
        if res is None:
            return
        path, idxs, nsroot = res
        look([])
        if nsroot is not None and rng.random() < 0.7:
            look([], nsroot)
        if rng.random() < 0.75:
            tgt = path + [rng.choice(idxs)]
            node = spec_at(spec, tgt)
            cfg = base.gen_cfg(rng, True) or {"sec": {"a": rng.randint(10, 99)}}
            try:
                base.ref_merge_into(copy.deepcopy(node["cfg"]), cfg)
            except base.Clash:
                return
            base.ref_merge_into(node["cfg"], cfg)
            steps.append({"op": "configure", "at": tgt, "cfg": cfg})
            look([])
            if nsroot is not None:
                look([], nsroot)

    early = rng.random()
    if early < 0.2:  # pure construction: the modules are loaded before anything is asked
        serial[0] += 1
        res = add_module(serial[0])
        if res is not None and rng.random() < 0.5:
            serial[0] += 1
            add_module(serial[0])
    # prime whatever the objects may remember: through the root, and through some intermediate collections
    look([])
    for n, p in nodes():
        if p and n["colls"] and rng.random() < 0.5:
            look(p)
    if rng.random() < 0.5:
        look([])
    mount_at = rng.randrange(nsteps) if rng.random() < 0.35 else -1
    for stepno in range(nsteps):
        if stepno == mount_at:
            mount()
        r = rng.random()
        serial[0] += 1
        k = serial[0]
        if r < 0.14:
            after_module(add_module(k))
            continue
        if r < 0.26:
            shared_configure(k)
            continue
        if r < 0.55:
            node, path = pick_node(2.0)
            cfg = base.gen_cfg(rng, True)
            if (("sec" in cfg and not isinstance(cfg["sec"], dict)) or isinstance(cfg.get("k1"), dict)) and rng.random() < 0.7:
                cfg = base.gen_cfg(rng, True)  # dict-vs-leaf clashes put the paths below into the don't-care region: keep them rare
            if not cfg:
                cfg = {"sec": {"a": rng.randint(10, 99)}}
            try:
                base.ref_merge_into(copy.deepcopy(node["cfg"]), cfg)
            except base.Clash:
                continue  # configure() itself would raise AmbiguousMergeError half-way: not a state the property describes
            base.ref_merge_into(node["cfg"], cfg)
            steps.append({"op": "configure", "at": path, "cfg": cfg})
        elif r < 0.78:
            node, path = pick_node(1.5)
            ts = {"fn": "late_task%d" % k, "tname": None, "own": ["late_alias%d" % k] if rng.random() < 0.5 else [],
                  "bind": None, "extra": ["x_late%d" % k] if rng.random() < 0.4 else [], "default": None}
            if rng.random() < 0.4 and base.default_target_local(node) is None:
                ts["default"] = rng.choice(["add", "decl"])
            node["tasks"].append(ts)
            steps.append({"op": "add_task", "at": path, "task": copy.deepcopy(ts)})
        else:
            node, path = pick_node(1.0)
            opts = {"mixed": False, "clash": False, "rich": True}
            sub = None
            for _try in range(6):
                cand = base.methodsify(base.gen_node(rng, max(1, min(2, len(path) + 1)), root_ad, opts, name="late_sub%d" % k))
                if base.has_tasks(cand) and base.well_formed(cand):
                    sub = cand
                    break
            if sub is None:
                continue
            ks = {"node": sub, "bind": None, "default": False}
            if rng.random() < 0.4 and base.default_target_local(node) is None and has_default(sub):
                ks["default"] = True
            node["colls"].append(ks)
            steps.append({"op": "add_coll", "at": path, "kid": copy.deepcopy(ks)})
        # look again: through the root (mostly), sometimes also through an ancestor of the place that changed
        if rng.random() < 0.85:
            look([])
        if path and rng.random() < 0.35:
            look(path[:rng.randrange(len(path))] if rng.random() < 0.6 else path)
        for k2, mp in mounted:  # the change lies inside a collection that a second root mounts as well
            if path[:len(mp)] == mp and rng.random() < 0.9:
                look([], k2)
    look([])
    for k2, mp in mounted:
        look([], k2)
    return steps


def spec_at(spec, path):
    node = spec
    for i in path:
        node = node["colls"][i]["node"]
    return node


def mounted_spec(st, m, ns):
    """what Collection.from_module(module, name=given, config=config, auto_dash_names=ad) makes of the module's ns (or of
    its bare tasks), as a plain node: an independent copy, auto-dash on unless told otherwise, config merged over the ns's"""
    node = ns
    node["ad"] = True if m["ad"] is None else m["ad"]
    node["name"] = m["given"] or node["name"] or st["modname"].split(".")[-1]
    if m["config"]:
        base.ref_merge_into(node["cfg"], m["config"])
    node["via"] = "methods"
    return node


def has_default(node):
    return any(t["default"] for t in node["tasks"]) or any(k["default"] and has_default(k["node"]) for k in node["colls"])


def hist_features(spec, steps):
    """what a history exercises: depth of every mutation that is followed by a lookup through a strict ancestor"""
    f = []
    mounts = {}
    for i, st in enumerate(steps):
        if st["op"] == "mount":
            mounts[len(mounts) + 1] = st["at"]
            f.append("mount_depth%d" % len(st["at"]))
        if st["op"] == "add_module":
            f.append("module_%s_loaded_%dx" % (st["kind"], min(len(st["mounts"]), 3)))
            if any(m["config"] for m in st["mounts"]):
                f.append("module_loaded_with_config_arg")
            if any(m["config"] is None for m in st["mounts"]) and len(st["mounts"]) > 1 and st["kind"] == "ns":
                for s2 in steps[i + 1:]:
                    if s2["op"] == "configure" and s2["at"][:len(st["at"])] == st["at"] and len(s2["at"]) > len(st["at"]):
                        f.append("module_ns_loaded_twice_then_one_copy_configured")
                        break
            if i == 0:
                f.append("module_loaded_before_first_lookup")
        if st["op"] == "configure_shared":
            f.append("one_dict_configures_%d_collections" % len(st["ats"]))
            if any(s2["op"] == "configure" and s2["at"] in st["ats"] for s2 in steps[i + 1:]):
                f.append("one_dict_shared_then_one_collection_configured_again")
        if st["op"] == "look" and st.get("session") and i == 0:
            f.append("session_history(one Executor/Program kept alive)")
        if st["op"] in ("look", "mount", "add_module", "configure_shared"):
            continue
        for k2, mp in mounts.items():
            if st["at"][:len(mp)] == mp and any(s["op"] == "look" and s.get("root", 0) == k2 for s in steps[i + 1:]):
                f.append("%s_inside_shared_seen_from_second_root" % st["op"])
        later = [s for s in steps[i + 1:] if s["op"] == "look" and s.get("root", 0) == 0 and len(s["at"]) <= len(st["at"])
                 and st["at"][:len(s["at"])] == s["at"]]
        if not later:
            continue
        gap = max(len(st["at"]) - len(s["at"]) for s in later)
        f.append("%s_depth%d" % (st["op"], len(st["at"])))
        f.append("%s_seen_from_%d_levels_up" % (st["op"], min(gap, 3)))
    return f


def session_run(session, real, how, n):
    """run `n` on the Executor / Program object this history keeps alive for the collection `real`"""
    import contextlib
    import io
    from invoke import Config, Executor, Program
    key = (how, id(real))
    if key not in session:
        session[key] = Executor(real, config=Config()) if how == "executor" else Program(namespace=real)
    del base.RUNLOG[:]
    exc = None
    try:
        with contextlib.redirect_stdout(io.StringIO()), contextlib.redirect_stderr(io.StringIO()), base.wide_terminal():
            if how == "executor":
                session[key].execute(n)
            else:
                session[key].run(["prog", n], exit=False)
    except BaseException as e:  # noqa
        exc = "%s: %s" % (type(e).__name__, e)
    return list(base.RUNLOG), exc


def check_look(spec, root, b, st, hist, lines=None, session=None):
    """one lookup step through the collection at st['at'], judged against the spec AS IT IS NOW"""
    fails = []
    node, real = base.node_at(spec, root, st["at"])
    where = "/".join(addr_keys(spec, st["at"])) or "<root>"
    if st.get("root", 0):
        where = "<further root #%d (a second root mounting a collection of the tree / the ns object of a loaded module)>%s" % (
            st["root"], "" if where == "<root>" else "/" + where)
    infos = base.expected_bindings(node, real, b)
    # keyed by NAME: collections loaded from one module hold equal (deep-copied) or even the same Task objects
    by_name, want = {}, {}
    names = []
    for i in infos:
        for n in [i["primary"]] + i["aliases"] + [x for x in i["shortcuts"] if i["primary"].startswith(x + ".")]:
            if n not in by_name:
                by_name[n] = i
                names.append(n)
    how = st["how"]
    if how == "contexts":
        try:
            real.to_contexts()
        except Exception:  # noqa  (type-inconsistent settings on some path: the lookups below decide)
            pass
    runs = 0
    session_names = set(sorted(names, key=lambda x: (-x.count("."), x))[:8])
    for idx, n in enumerate(names):
        res, t, cfg = base.impl_lookup(real, n)
        if lines is not None:
            lines.append((st["at"], n, res))
        if t is None:
            hist["hist_dontcare_type_clash_on_path" if res == "ERR ambiguous" else "hist_name_unresolved(C10)"] += 1
            continue
        i = by_name[n]
        if t._vid != i["vid"]:
            hist["hist_name_other_task(C10)"] += 1
            continue
        if id(i) not in want:
            want[id(i)] = expected_cfg(i)
        exp = want[id(i)]
        if exp is None:
            hist["hist_dontcare_type_clash_on_path"] += 1
            continue
        got = cfg if how == "twc" else real.configuration(n)
        hist["hist_config_checked"] += 1
        hist["hist_config_checked_pathlen%d" % min(len(i["path_nodes"]), 4)] += 1
        d = diff_path(got, exp)
        if d is not None:
            tp = "/".join(k for _, k in i["path_keys"]) or "<same collection>"
            fails.append(("not-deep-merge", "asked through %s: %s(%r) (task #%d in %s) has %r at %s, the merge along the path "
                          "of the tree as it is now (outer wins) has %r"
                          % (where, "task_with_config" if how == "twc" else "configuration", n, t._vid, tp,
                             get_path(got, d), ".".join(d), get_path(exp, d)), [n]))
            continue
        in_session = session is not None and st.get("session") and how in ("program", "executor")
        if how in ("program", "executor") and ((in_session and n in session_names) or
                                               (not in_session and runs < 2 and (idx + st["pick"]) % max(1, len(names) // 2) == 0)):
            runs += 1
            if in_session:
                # ONE Executor / Program object serves the whole history: the same names run again after every change
                log, exc = session_run(session, real, how, n)
                hist["hist_session_runs_" + how] += 1
            elif how == "program":
                _o, _e, log, exc = base.quiet_run(real, [n])
            else:
                log, exc = executor_run(real, n)
            if len(log) == 1 and log[0][0] == t._vid:
                seen = log[0][1]
                expw = {k: v for k, v in exp.items() if k in base.WATCH_KEYS}
                d = diff_path(seen, expw)
                if d is not None:
                    fails.append(("body-sees-other-settings", "asked through %s: run by %s as %r the task body sees %r at %s, the "
                                  "merge along the path of the tree as it is now has %r"
                                  % (where, how, n, get_path(seen, d), ".".join(d), get_path(expw, d)), [n]))
                else:
                    hist["hist_body_config_checked_" + how] += 1
        if st["tamper"]:
            mutate(got)
            again = real.configuration(n)
            if diff_path(again, exp) is not None:
                fails.append(("mutation-leaks", "asked through %s: configuration(%r) differs after the mapping returned before "
                              "was changed" % (where, n), [n]))
            hist["hist_freshness_checked"] += 1
    # whatever was handed out (and possibly changed by the caller): every collection still stores what was configured
    for sn, sp in base.spec_nodes(node):
        _, sreal = base.node_at(node, real, sp)
        exp = base.eff_cfg(sn)
        if exp is not None and diff_path(sreal.configuration(), exp) is not None:
            fails.append(("stored-configuration-changed", "the collection at %s no longer stores what was configured: %r, expected %r"
                          % ("/".join(addr_keys(node, sp)) or where, sreal.configuration(), exp), []))
    return fails


def executor_run(coll, name):
    import contextlib
    import io
    from invoke import Config, Executor
    del base.RUNLOG[:]
    exc = None
    try:
        with contextlib.redirect_stdout(io.StringIO()), contextlib.redirect_stderr(io.StringIO()):
            Executor(coll, config=Config()).execute(name)
    except BaseException as e:  # noqa
        exc = "%s: %s" % (type(e).__name__, e)
    return list(base.RUNLOG), exc


def apply_op(spec, root, b, st):
    """the same operation on the spec tree and on the live tree"""
    node, real = base.node_at(spec, root, st["at"])
    if st["op"] == "configure":
        base.ref_merge_into(node["cfg"], st["cfg"])
        opts = copy.deepcopy(st["cfg"])
        real.configure(opts)
        return opts
    if st["op"] == "add_task":
        ts = copy.deepcopy(st["task"])
        t, vid = base.make_task(b, ts)
        ts["_vid"] = vid
        real.add_task(t, aliases=tuple(ts["extra"]) or None, default=True if ts["default"] == "add" else None)
        node["tasks"].append(ts)
        return None
    if st["op"] == "add_coll":
        ks = copy.deepcopy(st["kid"])
        sub = base.build(ks["node"], b, is_root=False)
        enc_sub = base.enc(sub) if base.encodable(sub) else None
        real.add_collection(sub, name=ks["bind"], default=True if ks["default"] else None)
        node["colls"].append(ks)
        return enc_sub
    if st["op"] == "add_module":
        import types
        from invoke import Collection
        nsb = copy.deepcopy(st["node"])
        mod = types.ModuleType(st["modname"])
        ns_real = None
        if st["kind"] == "ns":
            ns_real = base.build(nsb, b, is_root=False)
            setattr(mod, st["attr"], ns_real)
        else:
            for ts in nsb["tasks"]:
                t, vid = base.make_task(b, ts)
                ts["_vid"] = vid
                setattr(mod, "v_" + ts["fn"], t)
        encs = []
        for m in st["mounts"]:
            ks = {"node": mounted_spec(st, m, copy.deepcopy(nsb)), "bind": m["bind"], "default": m["default"]}
            if m["via"] == "module":
                real.add_collection(mod, name=m["bind"], default=True if m["default"] else None)
            else:
                loaded = Collection.from_module(mod, name=m["given"], config=copy.deepcopy(m["config"]), auto_dash_names=m["ad"])
                real.add_collection(loaded, name=m["bind"], default=True if m["default"] else None)
            node["colls"].append(ks)
            child = dict.get(real.collections, base.norm(base.eff_ad(node), base.kid_raw(ks)))
            encs.append((base.kid_raw(ks), 1 if m["default"] else 0, base.enc(child) if (child is not None and base.encodable(child)) else None))
        return encs, (nsb, ns_real)
    raise ValueError(st["op"])


def mount_second_root(spec, root, b, st):
    """a second root collection that mounts (the very object of) a collection of the first tree"""
    from invoke import Collection
    node, real = base.node_at(spec, root, st["at"])
    ospec = {"name": None, "ad": st["ad"], "tasks": [{"fn": "other_task", "tname": None, "own": [], "bind": None, "extra": [],
                                                       "default": None}],
             "colls": [{"node": node, "bind": st["bind"], "default": False}], "cfg": copy.deepcopy(st["cfg"]), "via": "methods"}
    other = Collection(auto_dash_names=st["ad"])
    t, vid = base.make_task(b, ospec["tasks"][0])
    ospec["tasks"][0]["_vid"] = vid
    other.add_task(t)
    if st["cfg"]:
        other.configure(copy.deepcopy(st["cfg"]))
    other.add_collection(real, name=st["bind"])
    return ospec, other


def run_history(tree, steps, hist=None, want_model=False):
    """-> (fails, index of the first failing step or None, model line or None, impl answers)"""
    from collections import Counter
    hist = hist if hist is not None else Counter()
    spec, root, b = base.build_case(tree)
    fails = []
    enc0 = base.enc(root) if (want_model and base.encodable(root)) else None
    msteps, answers = [], []
    roots = [(spec, root)]
    session = {}
    held = []  # dict objects the caller handed to configure(): (object, snapshot, step)
    for k, st in enumerate(steps):
        bad = [(o, snap, at0) for o, snap, at0 in held if o != snap]
        if bad:
            return [("caller-dict-mutated", "step %d: the options dict handed to configure() in step %d has been changed by the library: "
                     "it was %r, it is %r" % (k - 1, bad[0][2], bad[0][1], bad[0][0]), [])], k - 1, None, None
        if st["op"] == "configure_shared":
            # ONE dict object is handed to configure() of several collections (siblings, parent and child)
            opts = copy.deepcopy(st["cfg"])
            held.append((opts, copy.deepcopy(opts), k))
            for at in st["ats"]:
                node, real = base.node_at(spec, root, at)
                base.ref_merge_into(node["cfg"], st["cfg"])
                real.configure(opts)
                msteps.append("c%s@%s" % (".".join(addr_keys(spec, at)), base.enc_val(st["cfg"])))
            hist["hist_op_configure_shared"] += 1
        elif st["op"] == "mount":
            roots.append(mount_second_root(spec, root, b, st))
            hist["hist_op_mount"] += 1
        elif st["op"] == "look":
            rspec, rreal = roots[st.get("root", 0)]
            looked = [] if (enc0 is not None and not st.get("root", 0)) else None
            found = check_look(rspec, rreal, b, st, hist, looked, session)
            hist["hist_looks"] += 1
            for ri, (xspec, xreal) in enumerate(roots[1:], 1):  # second roots and the ns objects of loaded modules keep what they store
                xexp = base.eff_cfg(xspec)
                if not found and xexp is not None and diff_path(xreal.configuration(), xexp) is not None:
                    found = [("stored-configuration-changed", "the collection that is further root #%d (a second root / the ns object of a "
                              "loaded module) no longer stores what was configured: %r, expected %r" % (ri, xreal.configuration(), xexp), [])]
            if looked:
                addr = ".".join(addr_keys(spec, st["at"]))
                for at, n, res in sorted(looked, key=lambda x: -x[1].count("."))[:6]:
                    msteps.append("l%s@%s" % (addr, n))
                    answers.append(res)
            if found:
                return [(kind, "step %d: %s" % (k, why), inv) for kind, why, inv in found], k, None, None
        else:
            addr = ".".join(addr_keys(spec, st["at"]))
            node = base.node_at(spec, root, st["at"])[0]
            extra = apply_op(spec, root, b, st)
            hist["hist_op_" + st["op"]] += 1
            if st["op"] == "add_module":
                # from_module is CONSTRUCTION: for the model each loaded copy is a sub-tree added by add_collection
                encs, (nsb, ns_real) = extra
                if ns_real is not None:
                    roots.append((nsb, ns_real))
                for raw, dflt, e in encs:
                    if e is None:
                        enc0 = None
                    else:
                        msteps.append("k%s@%s:%d:%s" % (addr, raw, dflt, e))
            elif st["op"] == "configure":
                held.append((extra, copy.deepcopy(st["cfg"]), k))
                msteps.append("c%s@%s" % (addr, base.enc_val(st["cfg"])))
            elif st["op"] == "add_task":
                ts = st["task"]
                msteps.append("t%s@%s:%d:%s:%d" % (addr, ts["bind"] or ts["tname"] or ts["fn"], node["tasks"][-1]["_vid"],
                                                   ",".join(ts["own"] + ts["extra"]), 1 if ts["default"] else 0))
            else:
                if extra is None:
                    enc0 = None
                else:
                    msteps.append("k%s@%s:%d:%s" % (addr, base.kid_raw(st["kid"]), 1 if st["kid"]["default"] else 0, extra))
    bad = [(o, snap, at0) for o, snap, at0 in held if o != snap]
    if bad:
        return [("caller-dict-mutated", "step %d: the options dict handed to configure() in step %d has been changed by the library: "
                 "it was %r, it is %r" % (len(steps) - 1, bad[0][2], bad[0][1], bad[0][0]), [])], len(steps) - 1, None, None
    line = None
    if enc0 is not None and answers:
        line = enc0 + "\tH" + "|".join(msteps)
    return fails, None, line, answers


def run_histories(ctx, out, lines, expect):
    rng = ctx.rng
    count = ctx.n(110, 1500)
    done = 0
    tries = 0
    while done < count and tries < count * 6:
        tries += 1
        spec = base.strip(base.methodsify(base.gen_tree(rng, rich=True)))
        if not base.well_formed(spec) or not spec["colls"]:
            continue
        if base.depth_of(spec) < 3 and rng.random() < 0.7:
            continue  # mostly trees with a grandchild collection: that is where "an ancestor of an ancestor" exists
        steps = gen_history(rng, spec, rng.randint(3, 7))
        done += 1
        case = {"tree": spec, "names": [], "history": {"kind": "ops", "steps": steps}}
        feats = hist_features(spec, steps)
        for f in set(feats):
            out.hist["hist_" + f] += 1
        out.hist["histories"] += 1
        out.case(case, any(f.endswith("_levels_up") and not f.endswith("_0_levels_up") for f in feats))
        try:
            fails, at, line, answers = run_history(spec, steps, out.hist, want_model=ctx.model_ok)
        except ValueError:
            out.hist["hist_api_refused"] += 1
            continue
        except RecursionError:
            continue
        except Exception as e:  # noqa
            fails, at, line, answers = [("unexpected-exception", "history raised %s: %s" % (type(e).__name__, e), [])], None, None, None
        if line is not None:
            lines.append(line)
            expect.append((case, ["H"], ["|".join(answers)]))
        seen = set()
        for kind, why, involved in fails:
            out.hist["fail_" + kind] += 1
            if kind in seen:
                continue
            seen.add(kind)
            short = dict(case, history={"kind": "ops", "steps": steps[:at + 1] if at is not None else steps},
                         names=sorted(set(involved)), check=kind)
            out.fail(short, "%s [history on one tree]: %s" % (kind, why))


# ------------------------------------------------------------------------------------------ calls without an invocation name
# Pre-tasks, post-tasks (and the implicit default) carry no name; they still receive the settings of the namespace they
# LIVE in.  `Task.__eq__/__hash__` compare name and body, so equal-but-distinct Task objects exist: the same function
# wrapped twice under one name, a deep copy, the copies made when one module is loaded twice.  A case puts 2-3 such twins
# into different collections (with different settings) of a generated tree, makes them pre/post tasks of one or two main
# tasks - with different call arguments, or plainly with deduplication off - and runs the mains through ONE Executor
# (several execute() calls) or through Program.  Oracle: every body sees the deep merge along the path of ITS collection.

TWINLOG = []


def _snap(c):
    snap = {}
    for k in base.WATCH_KEYS:
        try:
            snap[k] = base.plain(c.config[k])
        except KeyError:
            pass
    return snap


def twin_helper(c, tag=None):
    TWINLOG.append((tag, _snap(c)))


def gen_unnamed(rng, spec):
    nodes = [list(p) for n, p in base.spec_nodes(spec)]
    if len(nodes) < 2:
        return None
    ntw = min(len(nodes), rng.choice([2, 2, 3]))
    ats = rng.sample(nodes, ntw)
    twins = [{"at": at, "how": rng.choice(["wrap", "wrap", "deepcopy"])} for at in ats]
    if rng.random() < 0.3:  # twins as the copies of one module's task, the module loaded into several collections
        for tw in twins:
            tw["how"] = "module"
    mode = rng.choice(["tags", "tags", "nodedupe"])
    mains = []
    for mi in range(rng.choice([1, 2, 2])):
        order = list(range(ntw))
        rng.shuffle(order)
        cut = rng.randrange(len(order) + 1)
        pre, post = order[:cut], order[cut:]
        if rng.random() < 0.4 and mode == "tags":
            pre = pre + [rng.choice(order)]  # the same twin twice, with another argument
        mains.append({"at": rng.choice(nodes), "pre": pre, "post": post})
    via = rng.choice(["executor", "executor", "program"])
    if mode == "nodedupe":
        via = "executor"  # a Program with a bundled namespace offers no --no-dedupe: the setting comes from the Config
    if via == "program" or mode == "nodedupe" or rng.random() < 0.5:
        runs = [[mi] for mi in range(len(mains))]
    else:
        runs = [list(range(len(mains)))]
    if via == "executor" and rng.random() < 0.4:
        runs = runs + [runs[0]]  # the same command again on the same Executor
    return {"twins": twins, "mains": mains, "mode": mode, "via": via, "runs": runs}


def run_unnamed(tree, u, hist=None):
    """-> list of (kind, why)"""
    import contextlib
    import io
    import types
    from collections import Counter
    from invoke import Collection, Config, Executor, Program, Task, call
    hist = hist if hist is not None else Counter()
    spec, root, b = base.build_case(tree)
    fails = []
    twins = []
    first = Task(twin_helper, name="helper")
    mod = types.ModuleType("pkg.helpers")
    mod.ns = Collection("helpers", first)  # from_module deep-copies the tasks of a module's ns at every load
    for k, tw in enumerate(u["twins"]):
        node, real = base.node_at(spec, root, tw["at"])
        b.next_id += 1
        vid = b.next_id
        if tw["how"] == "module":
            # the module's task is deep-copied by every load: equal, distinct objects
            real.add_collection(mod, name="hmod")
            sub = dict.get(real.collections, base.norm(base.eff_ad(node), "hmod"))
            t = sub.tasks["helper"]
            t._vid = vid
            node["colls"].append({"node": {"name": "helpers", "ad": True, "tasks": [
                {"fn": "helper", "tname": "helper", "own": [], "bind": None, "extra": [], "default": None, "_vid": vid}],
                "colls": [], "cfg": {}, "via": "methods"}, "bind": "hmod", "default": False})
        else:
            t = first if k == 0 else (copy.deepcopy(first) if tw["how"] == "deepcopy" else Task(twin_helper, name="helper"))
            t._vid = vid
            real.add_task(t)
            node["tasks"].append({"fn": "helper", "tname": "helper", "own": [], "bind": None, "extra": [], "default": None, "_vid": vid})
        twins.append((t, vid))
    if len(set(id(t) for t, _ in twins)) != len(twins) or any(twins[0][0] != t for t, _ in twins[1:]):
        return [("harness", "the twins are not equal-but-distinct Task objects")]
    tagmap = {}
    main_vids = []
    for mi, m in enumerate(u["mains"]):
        node, real = base.node_at(spec, root, m["at"])
        b.next_id += 1
        vid = b.next_id

        def body(c, _mi=mi):
            TWINLOG.append(("main%d" % _mi, _snap(c)))
        body.__name__ = "main%d" % mi

        def mk(pos, lst):
            out = []
            for j, ti in enumerate(lst):
                tag = "m%d-%s%d" % (mi, pos, j)
                tagmap[tag] = ti
                out.append(call(twins[ti][0], tag=tag) if u["mode"] == "tags" else twins[ti][0])
            return out
        t = Task(body, name="main%d" % mi, pre=mk("pre", m["pre"]), post=mk("post", m["post"]))
        t._vid = vid
        main_vids.append(vid)
        real.add_task(t)
        node["tasks"].append({"fn": "main%d" % mi, "tname": "main%d" % mi, "own": [], "bind": None, "extra": [], "default": None, "_vid": vid})
    infos = base.expected_bindings(spec, root, b)
    by_vid = {i["vid"]: i for i in infos}
    want = {}
    for i in infos:
        e = expected_cfg(i)
        want[i["vid"]] = None if e is None else {k: v for k, v in e.items() if k in base.WATCH_KEYS}
    main_names = [by_vid[vid]["primary"] for vid in main_vids]
    texp = [want[vid] for _, vid in twins]
    if len(set(json_key(x) for x in texp)) > 1:
        hist["unnamed_twins_with_different_settings"] += 1
    where = ["/".join(k for _, k in by_vid[vid]["path_keys"]) or "<root>" for _, vid in twins]
    overrides = {"tasks": {"dedupe": False}} if u["mode"] == "nodedupe" else {}
    ex = Executor(root, config=Config(overrides=overrides)) if u["via"] == "executor" else None
    for ri, run in enumerate(u["runs"]):
        del TWINLOG[:]
        names = [main_names[mi] for mi in run]
        exc = None
        try:
            with contextlib.redirect_stdout(io.StringIO()), contextlib.redirect_stderr(io.StringIO()), base.wide_terminal():
                if ex is not None:
                    ex.execute(*names)
                else:
                    Program(namespace=root).run(["prog"] + names, exit=False)
        except BaseException as e:  # noqa
            exc = "%s: %s" % (type(e).__name__, e)
        log = list(TWINLOG)
        if exc is not None:
            if "AmbiguousMergeError" in exc:
                hist["unnamed_dontcare_type_clash"] += 1
                continue
            fails.append(("unnamed-call-raises", "run %d (%s %r): %s" % (ri, u["via"], names, exc)))
            continue
        # which twin each logged helper call was: by its tag, or (no arguments, deduplication off) by its position
        seq = []
        if u["mode"] == "nodedupe":
            for mi in run:
                m = u["mains"][mi]
                seq += [("twin", ti) for ti in m["pre"]] + [("main", mi)] + [("twin", ti) for ti in m["post"]]
            if len(seq) != len(log):
                hist["unnamed_sequence_not_as_listed(C19)"] += 1
                continue
        else:
            for tag, _ in log:
                seq.append(("main", int(tag[4:])) if tag is not None and tag.startswith("main") else ("twin", tagmap.get(tag)))
        for (what, k), (tag, seen) in zip(seq, log):
            if k is None:
                continue
            vid = twins[k][1] if what == "twin" else main_vids[k]
            exp = want.get(vid)
            if exp is None:
                hist["unnamed_dontcare_type_clash"] += 1
                continue
            d = diff_path(seen, exp)
            hist["unnamed_body_checked_" + what] += 1
            if d is not None and what == "twin":
                others = [where[j] for j in range(len(twins)) if j != k and texp[j] is not None and diff_path(seen, texp[j]) is None]
                fails.append(("unnamed-call-sees-other-namespace",
                              "run %d (%s, %s, %r): the %s-task `helper` living in %s (called without a name%s) sees %r at %s, the merge "
                              "along the path of ITS collection has %r%s"
                              % (ri, u["via"], u["mode"], names, "pre/post", where[k], "" if tag is None else ", tag %s" % tag,
                                 get_path(seen, d), ".".join(d), get_path(exp, d),
                                 ("; what it sees are the settings of the equal-but-distinct task in %s" % others[0]) if others else "")))
            elif d is not None:
                fails.append(("body-sees-other-settings", "run %d: main%d invoked as %r sees %r at %s, expected %r"
                              % (ri, k, names, get_path(seen, d), ".".join(d), get_path(exp, d))))
    return fails


def json_key(x):
    import json
    return json.dumps(x, sort_keys=True, default=str)


def run_unnamed_calls(ctx, out):
    rng = ctx.rng
    count, done, tries = ctx.n(70, 1000), 0, 0
    while done < count and tries < count * 6:
        tries += 1
        spec = base.strip(base.methodsify(base.gen_tree(rng, rich=True)))
        if not base.well_formed(spec) or not spec["colls"]:
            continue
        u = gen_unnamed(rng, spec)
        if u is None:
            continue
        done += 1
        case = {"tree": spec, "names": [], "unnamed": u}
        out.hist["unnamed_cases"] += 1
        out.hist["unnamed_mode_" + u["mode"]] += 1
        out.hist["unnamed_via_" + u["via"]] += 1
        out.hist["unnamed_twins_" + "+".join(sorted(set(t["how"] for t in u["twins"])))] += 1
        if len(u["runs"]) > 1 and u["via"] == "executor":
            out.hist["unnamed_several_execute_calls_on_one_executor"] += 1
        out.case(case, True)
        try:
            fails = run_unnamed(spec, u, out.hist)
        except ValueError:
            out.hist["unnamed_api_refused"] += 1
            continue
        except RecursionError:
            continue
        except Exception as e:  # noqa
            fails = [("unexpected-exception", "unnamed-call case raised %s: %s" % (type(e).__name__, e))]
        seen = set()
        for kind, why in fails:
            out.hist["fail_" + kind] += 1
            if kind in seen:
                continue
            seen.add(kind)
            out.fail(dict(case, check=kind), "%s [calls without a name]: %s" % (kind, why))


# ------------------------------------------------------------------------------------------ several tasks in one run
# Every task body of a run sees the settings of ITS path, whatever ran before it in the same execute() / command line and
# whichever form it was invoked by.  A case = (tree in which most inner collections have a default, explicit list of runs);
# a run = 2-4 DISTINCT tasks named by full names, aliases, root-level and NESTED default shortcuts (`a.b`, `a.b.c`), built
# around a nested shortcut next to a task of the enclosing collection (both orders), next to tasks of sibling collections,
# of the root, and random mixtures with their reversals.

def with_defaults(rng, spec):
    """give most inner collections that have tasks (and no default yet) a default task: nested shortcuts exist"""
    for node, path in base.spec_nodes(spec):
        if path and node["tasks"] and base.default_target_local(node) is None and rng.random() < 0.75:
            rng.choice(node["tasks"])["default"] = "add"
    # a fourth level below some grandchild collection, with a default task: shortcuts of depth 3 (`a.b.c`)
    deep = [(n, p) for n, p in base.spec_nodes(spec) if len(p) == 2]
    if deep and rng.random() < 0.6:
        node, path = rng.choice(deep)
        opts = {"mixed": False, "clash": False, "rich": True}
        for _try in range(6):
            sub = base.methodsify(base.gen_node(rng, 2, base.eff_ad(spec), opts, name="lvl4"))
            if sub["tasks"] and base.well_formed(sub):
                if base.default_target_local(sub) is None:
                    sub["tasks"][0]["default"] = "add"
                if not sub["cfg"]:
                    sub["cfg"] = base.gen_cfg(rng, True) or {"sec": {"a": 4}}
                node["colls"].append({"node": sub, "bind": None, "default": False})
                break
    return spec


def name_forms(infos):
    """-> list of (name, form, info); form in full / alias / shortcut_root / shortcut_nested<depth>"""
    out, seen = [], set()
    for i in infos:
        forms = [(i["primary"], "full")] + [(a, "alias") for a in i["aliases"]]
        for x in i["shortcuts"]:
            if i["primary"].startswith(x + "."):
                forms.append((x, "shortcut_root" if "." not in x else "shortcut_nested%d" % min(x.count(".") + 1, 3)))
        for n, f in forms:
            if n not in seen:
                seen.add(n)
                out.append((n, f, i))
    return out


def gen_runs(rng, forms):
    """explicit runs (lists of names), no task twice in one run"""
    by_vid = {}
    for n, f, i in forms:
        by_vid.setdefault(i["vid"], []).append((n, f, i))
    vids = sorted(by_vid)
    if len(vids) < 2:
        return []

    def name_of(vid, prefer=None):
        c = by_vid[vid]
        if prefer:
            p = [x for x in c if x[1].startswith(prefer)]
            if p:
                return rng.choice(p)[0]
        return rng.choice(c)[0]
    runs = []
    nested = [(n, f, i) for n, f, i in forms if f.startswith("shortcut_nested")]
    rootsc = [(n, f, i) for n, f, i in forms if f == "shortcut_root"]
    anchors = rng.sample(nested, min(2, len(nested))) + rng.sample(rootsc, min(1, len(rootsc)))
    for n, f, i in anchors:
        encl = n.rpartition(".")[0]  # dotted path of the enclosing collection ("" = the root)
        depth_of_encl = len(encl.split(".")) if encl else 0
        same = [v for v in vids if v != i["vid"] and len(by_vid[v][0][2]["path_keys"]) == depth_of_encl
                and (by_vid[v][0][2]["primary"].rpartition(".")[0] == encl)]
        others = [v for v in vids if v != i["vid"] and v not in same]
        for v in rng.sample(same, min(2, len(same))):
            m = name_of(v, rng.choice(["full", "full", "alias"]))
            runs += [[n, m], [m, n]]
            if others:
                o = name_of(rng.choice(others))
                o2 = name_of(rng.choice(others))
                runs.append([o, n, m] + ([o2] if o2 != o else []))
                runs.append([m, n, o])
        for v in rng.sample(others, min(2, len(others))):
            m = name_of(v)
            runs += [[n, m], [m, n]]
    for _ in range(3):
        k = min(len(vids), rng.randint(2, 4))
        run = [name_of(v, rng.choice([None, "shortcut", "alias"])) for v in rng.sample(vids, k)]
        runs += [run, list(reversed(run))]
    # no task twice in a run (deduplication would drop the second call)
    # ... nor two tasks that compare EQUAL: the generated task bodies share one code object, so Task.__eq__ (name + code)
    # holds for same-named tasks of different collections and deduplication keeps only the first (C19's business)
    vid_of = {n: i["vid"] for n, f, i in forms}
    tname_of = {n: (i["spec"]["tname"] or i["spec"]["fn"]) for n, f, i in forms}
    out = []
    for r in runs:
        if len(set(vid_of[x] for x in r)) == len(r) and len(set(tname_of[x] for x in r)) == len(r) and r not in out:
            out.append(r)
    return out[:14]


def run_multi(tree, runs, via, hist=None):
    from collections import Counter
    hist = hist if hist is not None else Counter()
    spec, root, b = base.build_case(tree)
    infos = base.expected_bindings(spec, root, b)
    forms = {n: (f, i) for n, f, i in name_forms(infos)}
    fails = []
    for ri, names in enumerate(runs):
        if any(n not in forms for n in names):
            continue
        exps = []
        for n in names:
            e = expected_cfg(forms[n][1])
            exps.append(None if e is None else {k: v for k, v in e.items() if k in base.WATCH_KEYS})
        if via == "program":
            _o, _e, log, exc = base.quiet_run(root, list(names))
        else:
            log, exc = executor_run_many(root, names)
        if exc is not None or len(log) != len(names) or [v for v, _ in log] != [forms[n][1]["vid"] for n in names]:
            why = ("type_clash" if (exc and "AmbiguousMergeError" in exc) or any(e is None for e in exps) else
                   "raised" if exc else "other_tasks_ran(C10/C19)")
            hist["multi_run_skipped:" + why] += 1
            continue
        hist["multi_runs"] += 1
        hist["multi_run_len%d" % len(names)] += 1
        for k, (n, (vid, seen), exp) in enumerate(zip(names, log, exps)):
            f, i = forms[n]
            if exp is None:
                hist["multi_dontcare_type_clash"] += 1
                continue
            hist["multi_body_checked"] += 1
            hist["multi_form_" + f] += 1
            if k:
                pf, pi = forms[names[k - 1]]
                rel = ("same_collection" if pi["path_keys"] == i["path_keys"] else
                       "prev_in_enclosing" if pi["path_keys"] == i["path_keys"][:-1] else
                       "prev_in_child" if pi["path_keys"][:-1] == i["path_keys"] else "elsewhere")
                hist["multi_adjacent:%s_after_%s(%s)" % (f.rstrip("123"), pf.rstrip("123"), rel)] += 1
            d = diff_path(seen, exp)
            if d is not None:
                tp = "/".join(x for _, x in i["path_keys"]) or "<root>"
                fails.append(("body-sees-other-settings",
                              "run %r by %s: task #%d (living in %s) invoked as %r (%s)%s sees %r at %s, the merge along ITS path has %r"
                              % (names, via, vid, tp, n, f, (" right after %r" % names[k - 1]) if k else " first",
                                 get_path(seen, d), ".".join(d), get_path(exp, d)), ri))
    return fails


def executor_run_many(coll, names):
    import contextlib
    import io
    from invoke import Config, Executor
    del base.RUNLOG[:]
    exc = None
    try:
        with contextlib.redirect_stdout(io.StringIO()), contextlib.redirect_stderr(io.StringIO()):
            Executor(coll, config=Config()).execute(*names)
    except BaseException as e:  # noqa
        exc = "%s: %s" % (type(e).__name__, e)
    return list(base.RUNLOG), exc


def run_multi_task_runs(ctx, out):
    rng = ctx.rng
    count, done, tries = ctx.n(70, 1000), 0, 0
    while done < count and tries < count * 8:
        tries += 1
        spec = base.strip(with_defaults(rng, base.methodsify(base.gen_tree(rng, rich=True))))
        if not base.well_formed(spec) or not spec["colls"]:
            continue
        if base.depth_of(spec) < 3 and rng.random() < 0.75:
            continue
        try:
            spec2, root, b = base.build_case(spec)
            forms = name_forms(base.expected_bindings(spec2, root, b))
        except (ValueError, RecursionError):
            continue
        runs = gen_runs(rng, forms)
        if not runs:
            continue
        done += 1
        via = rng.choice(["executor", "executor", "program"])
        case = {"tree": spec, "names": [], "multi": {"runs": runs, "via": via}}
        out.hist["multi_cases"] += 1
        out.case(case, any("." in n and f.startswith("shortcut_nested") for n, f, _ in forms))
        try:
            fails = run_multi(spec, runs, via, out.hist)
        except Exception as e:  # noqa
            fails = [("unexpected-exception", "multi-task runs raised %s: %s" % (type(e).__name__, e), 0)]
        for kind, why, ri in fails[:1]:
            out.hist["fail_" + kind] += 1
            out.fail({"tree": spec, "names": [], "multi": {"runs": [runs[ri]], "via": via}, "check": kind},
                     "%s [several tasks in one run]: %s" % (kind, why))


# ------------------------------------------------------------------------------------------ reconfiguration inside one run
# One execute() / command line: a probe task is called, then a task whose BODY calls configure() on some collection of
# the tree, then the probe again with another argument (so that deduplication keeps it).  Each body sees the merge along
# its path of the tree AS IT IS at the time of the call.

def probe_body(c, tag=None):
    TWINLOG.append((tag, _snap(c)))


def gen_inrun(rng, spec):
    nodes = [(n, list(p)) for n, p in base.spec_nodes(spec)]
    pnode, ppath = rng.choice([x for x in nodes if x[1]] or nodes)
    # the collection reconfigured: mostly one on the probe's path (any level), sometimes one off it
    on_path = [ppath[:i] for i in range(len(ppath) + 1)]
    target = rng.choice(on_path) if rng.random() < 0.8 else rng.choice(nodes)[1]
    cfg = base.gen_cfg(rng, True) or {"sec": {"a": rng.randint(10, 99)}}
    try:
        base.ref_merge_into(copy.deepcopy(spec_at(spec, target)["cfg"]), cfg)
    except base.Clash:
        return None
    return {"probe_at": ppath, "reconf_at": rng.choice(nodes)[1], "target": target, "cfg": cfg,
            "via": rng.choice(["executor", "executor", "program"]), "calls": rng.choice([2, 2, 3])}


def run_inrun(tree, u, hist=None):
    import contextlib
    import io
    from collections import Counter
    from invoke import Config, Executor, Program, Task
    hist = hist if hist is not None else Counter()
    spec, root, b = base.build_case(tree)

    def add(path, name, body):
        node, real = base.node_at(spec, root, path)
        b.next_id += 1
        t = Task(body, name=name)
        t._vid = b.next_id
        real.add_task(t)
        node["tasks"].append({"fn": name, "tname": name, "own": [], "bind": None, "extra": [], "default": None, "_vid": b.next_id})
        return b.next_id
    tnode, treal = base.node_at(spec, root, u["target"])

    def reconf(c):
        treal.configure(copy.deepcopy(u["cfg"]))
    pvid = add(u["probe_at"], "probe", probe_body)
    rvid = add(u["reconf_at"], "reconf", reconf)

    def want():
        infos = base.expected_bindings(spec, root, b)
        i = [x for x in infos if x["vid"] == pvid][0]
        e = expected_cfg(i)
        return i, (None if e is None else {k: v for k, v in e.items() if k in base.WATCH_KEYS})
    pi, before = want()
    rname = [x for x in base.expected_bindings(spec, root, b) if x["vid"] == rvid][0]["primary"]
    base.ref_merge_into(tnode["cfg"], u["cfg"])
    _, after = want()
    if before is None or after is None:
        hist["inrun_dontcare_type_clash"] += 1
        return []
    if json_key(before) != json_key(after):
        hist["inrun_reconfiguration_changes_the_probe_settings"] += 1
    pname = pi["primary"]
    del TWINLOG[:]
    exc = None
    try:
        with contextlib.redirect_stdout(io.StringIO()), contextlib.redirect_stderr(io.StringIO()), base.wide_terminal():
            if u["via"] == "executor":
                seq = [(pname, {"tag": "1"}), rname] + [(pname, {"tag": str(k)}) for k in range(2, u["calls"] + 1)]
                Executor(root, config=Config()).execute(*seq)
            else:
                argv = ["prog", pname, "--tag", "1", rname]
                for k in range(2, u["calls"] + 1):
                    argv += [pname, "--tag", str(k)]
                Program(namespace=root).run(argv, exit=False)
    except BaseException as e:  # noqa
        exc = "%s: %s" % (type(e).__name__, e)
    log = list(TWINLOG)
    if exc is not None or [t for t, _ in log] != [str(k) for k in range(1, u["calls"] + 1)]:
        hist["inrun_not_as_listed(C19, or type clash)"] += 1
        return []
    fails = []
    for tag, seen in log:
        exp = before if tag == "1" else after
        hist["inrun_body_checked"] += 1
        d = diff_path(seen, exp)
        if d is not None:
            fails.append(("body-sees-other-settings",
                          "one run by %s: %r --tag 1, then %r (its body configures the collection at %s with %r), then %r again: call "
                          "with tag %s sees %r at %s, the merge along its path of the tree as it is %s has %r"
                          % (u["via"], pname, rname, "/".join(addr_keys(spec, u["target"])) or "<root>", u["cfg"], pname, tag,
                             get_path(seen, d), ".".join(d), "before the reconfiguration" if tag == "1" else "at the time of that call",
                             get_path(exp, d))))
            break
    return fails


def run_inrun_reconfigure(ctx, out):
    rng = ctx.rng
    count, done, tries = ctx.n(50, 700), 0, 0
    while done < count and tries < count * 6:
        tries += 1
        spec = base.strip(base.methodsify(base.gen_tree(rng, rich=True)))
        if not base.well_formed(spec) or not spec["colls"]:
            continue
        u = gen_inrun(rng, spec)
        if u is None:
            continue
        done += 1
        case = {"tree": spec, "names": [], "inrun": u}
        out.hist["inrun_cases"] += 1
        out.hist["inrun_target_%s" % ("on_path_depth%d" % len(u["target"]) if u["probe_at"][:len(u["target"])] == u["target"] else "off_path")] += 1
        out.case(case, True)
        try:
            fails = run_inrun(spec, u, out.hist)
        except ValueError:
            continue
        except Exception as e:  # noqa
            fails = [("unexpected-exception", "in-run reconfiguration case raised %s: %s" % (type(e).__name__, e))]
        for kind, why in fails[:1]:
            out.hist["fail_" + kind] += 1
            out.fail(dict(case, check=kind), "%s [reconfiguration inside one run]: %s" % (kind, why))


def run(ctx):
    out = Outcome()
    ODD.update(on=True, model_safe=True, orig=base.gen_cfg)
    base.gen_cfg = odd_gen_cfg  # C17's process only: every generator of every family draws its settings through it
    try:
        drv, lines, expect, nq = base.run_trees(ctx, out, True, oracle_c17, ctx.n(220, 3000), 200 if ctx.thorough else 90,
                                                nontrivial=lambda spec, feats: "shared_section_on_path" in feats)
        run_histories(ctx, out, lines, expect)
        ODD["model_safe"] = False  # the families below are judged by the oracle only: any character may occur in a key
        run_unnamed_calls(ctx, out)
        run_multi_task_runs(ctx, out)
        run_inrun_reconfigure(ctx, out)
    finally:
        base.gen_cfg = ODD["orig"]
        ODD["on"] = False
    for k, v in ODD["hist"].items():
        out.hist[k] += v
    ODD["hist"] = {}
    base.compare(ctx, out, drv, lines, expect)
    out.extra["queries"] = nq
    return out


def replay(case):
    if case.get("inrun"):
        try:
            fails = run_inrun(case["tree"], case["inrun"])
        except ValueError as e:
            return True, "the API refuses this tree (%s)" % e
        except Exception as e:
            return False, "unexpected-exception: in-run reconfiguration case raised %s: %s" % (type(e).__name__, e)
        if fails:
            return False, "; ".join("%s: %s" % (k, w) for k, w in fails[:3])
        return True, "ok (reconfiguration inside one run)"
    if case.get("multi"):
        try:
            fails = run_multi(case["tree"], case["multi"]["runs"], case["multi"]["via"])
        except ValueError as e:
            return True, "the API refuses this tree (%s)" % e
        except Exception as e:
            return False, "unexpected-exception: multi-task runs raised %s: %s" % (type(e).__name__, e)
        if fails:
            return False, "; ".join("%s: %s" % (k, w) for k, w, _ in fails[:3])
        return True, "ok (%d run(s) of several tasks)" % len(case["multi"]["runs"])
    if case.get("unnamed"):
        try:
            fails = run_unnamed(case["tree"], case["unnamed"])
        except ValueError as e:
            return True, "the API refuses this tree (%s)" % e
        except Exception as e:
            return False, "unexpected-exception: unnamed-call case raised %s: %s" % (type(e).__name__, e)
        kind = case.get("check")
        if kind:
            fails = [f for f in fails if f[0] == kind]
        if fails:
            return False, "; ".join("%s: %s" % (k, w) for k, w in fails[:3])
        return True, "ok (%d run(s) with unnamed calls)" % len(case["unnamed"]["runs"])
    if case.get("history"):
        try:
            fails, at, _, _ = run_history(case["tree"], case["history"]["steps"])
        except ValueError as e:
            return True, "the API refuses this tree (%s)" % e
        except Exception as e:
            return False, "unexpected-exception: history raised %s: %s" % (type(e).__name__, e)
        kind = case.get("check")
        if kind:
            fails = [f for f in fails if f[0] == kind]
        if fails:
            return False, "; ".join("%s: %s" % (k, w) for k, w, _ in fails[:3])
        return True, "ok (history of %d steps)" % len(case["history"]["steps"])
    try:
        spec, root, b = base.build_case(case["tree"])
    except ValueError as e:
        return True, "the API refuses this tree (%s)" % e
    try:
        fails = oracle_c17(spec, root, b, case["names"])
    except Exception as e:
        return False, "unexpected-exception: observing the tree raised %s: %s" % (type(e).__name__, e)
    kind = case.get("check")
    if kind:  # a replay file names the kind of failure it recorded: only that kind counts
        fails = [f for f in fails if f[0] == kind]
    if fails:
        return False, "; ".join("%s: %s" % (k, w) for k, w, _ in fails[:3])
    return True, "ok (%d names)" % len(case["names"])
