"""C17 - a task's namespace settings are the deep merge along its path, outer wins; the mapping returned is fresh.

Tree specs, the builder of the REAL `Collection`, the serialisation for `drv_coll` and the comparison loop are
shared with C10 (`props/c10.py`)."""
import copy

import common  # noqa: F401
from common import Outcome
from props import c10 as base

ID = "C17"
PROPS = ["Invoke/Props/C17.lean"]
TARGETS = ["drv_coll"]
DRIVER_ROOTS = ["Driver/Coll.lean"]
GENERATED = []
RULE = ("case = (namespace tree of depth <= 3 with a nested configuration dict per collection: overlapping sections, "
        "disjoint and conflicting keys inside shared sections two levels deep, leaves int/str/bool/None/list, a few "
        "dict-vs-leaf clashes; all candidate dotted names of the tree incl. every alias, default-task and "
        "default-sub-collection shortcut and dash/underscore spelling); observed at Collection.configuration / "
        "task_with_config, at the config the task body sees through Program.run, and by mutating the returned "
        "mapping; a case is non-trivial when some task lies below the root and two collections on its path share a "
        "section; distinct = distinct (tree, names)")
TRUSTED = ["Lean 4.33 kernel", "axioms propext/Classical.choice/Quot.sound only",
           "harness/props/c10.py + c17.py: tree builder, serialisation of the real object, canonicalisation",
           "models Invoke/Model/Collection.lean and Invoke/Model/Val.lean hand-written, tied to invoke.collection / "
           "invoke.config.merge_dicts by the correspondence run on every check",
           "CPython dict / copy.copy semantics (freshness is checked on the real objects, not modelled)"]
ASSUMPTIONS = ["per-path statement of the corollary needs type-consistent settings along the path (a key is a section "
               "in every collection defining it or a leaf in every one); the code raises AmbiguousMergeError otherwise "
               "and the oracle treats such paths as don't-care",
               "freshness is established by mutation + identity scan of the real result (lists nested inside list "
               "leaves are outside the statement: merge_dicts copies leaves with copy.copy)",
               "the theorems quantify over all trees; names are component lists (dot-free components)"]
LEVEL_TEXT = ("Lean 4 proofs over ALL namespace trees and names: whenever task_with_config resolves a name, the settings "
              "returned are the fold of merge_dicts over the configurations of exactly the collections on the path "
              "root..holder with the outer collection applied last (ns_config_is_deep_merge_outer_wins), hence at "
              "every key path the outermost collection defining it wins and inner settings are otherwise preserved "
              "(ns_config_leaf_outermost_wins, via getLeaf_mergeT), replacing any collection off the path changes "
              "nothing (siblings_contribute_nothing), and aliases / default shortcuts give the same settings as the "
              "primary name (same_for_alias_and_default_shortcut); the model is tied to invoke.collection + "
              "merge_dicts on every run by a differential check on generated trees and a direct recursive-merge oracle; "
              "freshness is proved on a minimal object model (dicts with addresses, copy_dict/merge_dicts allocating: "
              "configuration_fresh, configuration_fresh_for_lookup, shown to compute the value model) and established "
              "on the real result by mutation and identity scan")
TECHNIQUE = ("Lean 4 theorems by induction over the namespace tree on top of the nested-dict merge lemmas + "
             "model/implementation correspondence + direct Python oracle (independent recursive merge, mutation test)")


def expected_cfg(info):
    """reference: recursive merge of the configurations of the collections on the path, outer applied last"""
    cfgs = [base.eff_cfg(n) for n in info["path_nodes"]]
    if any(c is None for c in cfgs):
        return None
    acc = {}
    try:
        for cfg in reversed(cfgs):  # innermost first, so the outer collections win
            base.ref_merge_into(acc, cfg)
    except base.Clash:
        return None
    return acc


def diff_path(a, b, pre=()):
    """first key path at which two nested dicts differ"""
    if isinstance(a, dict) and isinstance(b, dict):
        for k in sorted(set(a) | set(b)):
            if k not in a or k not in b:
                return pre + (k,)
            d = diff_path(a[k], b[k], pre + (k,))
            if d is not None:
                return d
        return None
    return None if (a == b and type(a) is type(b)) else pre


def get_path(d, path):
    for k in path:
        if not isinstance(d, dict) or k not in d:
            return "<absent>"
        d = d[k]
    return d


def containers(v, acc):
    if isinstance(v, dict):
        acc[id(v)] = v
        for x in v.values():
            containers(x, acc)
    elif isinstance(v, list):
        acc[id(v)] = v
    return acc


def all_collections(root):
    yield root
    for sc in dict.values(root.collections):
        yield from all_collections(sc)


def stored_dicts(c):
    """the plain dicts a collection object holds (its stored configuration, whatever the attribute is called)"""
    return {k: v for k, v in vars(c).items() if type(v) is dict}


def mutate(d):
    """change the returned mapping everywhere a mapping can be changed"""
    for k in list(d.keys()):
        v = d[k]
        if isinstance(v, dict):
            mutate(v)
        elif isinstance(v, list):
            v.append("mutated")
        else:
            d[k] = ("mutated", k)
    d["__added__"] = 1
    if len(d) > 1:
        del d[sorted(k for k in d if k != "__added__")[0]]


def oracle_c17(spec, root, b, names, hist=None):
    fails = []
    if not base.well_formed(spec):
        if hist is not None:
            hist["oracle_skipped_illformed"] += 1
        return fails
    infos = base.expected_bindings(spec, root, b)
    want = {i["vid"]: expected_cfg(i) for i in infos}
    by_vid = {i["vid"]: i for i in infos}
    try:
        parser = base.impl_parser(root)
    except base.SettingsClash:
        parser = None
    accepted = set()
    if parser is not None:
        accepted = set(dict.keys(parser.contexts)) | set(parser.contexts.aliases.keys())
    todo = sorted(set(names) | accepted)
    fresh_done = 0
    for n in todo:
        res, t, cfg = base.impl_lookup(root, n)
        if t is None:
            continue
        exp = want.get(t._vid)
        if exp is None:
            if hist is not None:
                hist["dontcare_type_clash_on_path"] += 1
            continue
        if hist is not None:
            hist["config_checked"] += 1
            i = by_vid[t._vid]
            if len(i["path_nodes"]) > 1:
                hist["config_checked_nested"] += 1
                secs = [set(k for k, v in (base.eff_cfg(x) or {}).items() if isinstance(v, dict)) for x in i["path_nodes"]]
                if any(secs[a] & secs[c] for a in range(len(secs)) for c in range(a + 1, len(secs))):
                    hist["config_checked_shared_section"] += 1
        got = root.configuration(n)
        d = diff_path(got, exp)
        if d is not None:
            i = by_vid[t._vid]
            where = "/".join(k for _, k in i["path_keys"]) or "<root>"
            fails.append(("not-deep-merge", "configuration(%r) (task #%d in %s) has %r at %s, the merge along the path "
                          "(outer wins) has %r" % (n, t._vid, where, get_path(got, d), ".".join(d), get_path(exp, d)), [n]))
            continue
        # ---- freshness: identity scan, then mutate and re-read
        if fresh_done < 12:
            fresh_done += 1
            stored = {}
            for c in all_collections(root):
                for v in stored_dicts(c).values():
                    containers(v, stored)
            shared = [k for k in containers(got, {}) if k in stored]
            if shared:
                fails.append(("aliased", "configuration(%r) shares %d dict/list object(s) with a stored configuration" % (n, len(shared)), [n]))
            snap = [copy.deepcopy(stored_dicts(c)) for c in all_collections(root)]
            mutate(got)
            now = [stored_dicts(c) for c in all_collections(root)]
            if now != snap:
                fails.append(("mutation-leaks", "changing the mapping returned by configuration(%r) changed a stored configuration" % n, [n]))
                for c, s in zip(all_collections(root), snap):  # repair for the following checks
                    for k, v in s.items():
                        setattr(c, k, v)
            again = root.configuration(n)
            if diff_path(again, exp) is not None:
                fails.append(("mutation-leaks", "configuration(%r) differs after the previous result was changed" % n, [n]))
            if hist is not None:
                hist["freshness_checked"] += 1
    # ---- what the task body sees when invoked by each accepted name
    for n in sorted(accepted):
        res, t, cfg = base.impl_lookup(root, n)
        if t is None or want.get(t._vid) is None:
            continue
        out, err, log, exc = base.quiet_run(root, [n])
        if len(log) != 1 or log[0][0] != t._vid:
            continue  # which task runs is C10's business
        seen = log[0][1]
        exp = {k: v for k, v in want[t._vid].items() if k in base.WATCH_KEYS}
        d = diff_path(seen, exp)
        if d is not None:
            fails.append(("body-sees-other-settings", "invoked as %r the task body sees %r at %s, expected %r"
                          % (n, get_path(seen, d), ".".join(d), get_path(exp, d)), [n]))
        elif hist is not None:
            hist["body_config_checked"] += 1
    # ---- the same when another task (from any other namespace path) ran first in the same session:
    #      the settings a task receives are those of ITS path, not left-overs of the previous task
    acc = [n for n in sorted(accepted) if base.impl_lookup(root, n)[1] is not None and want.get(base.impl_lookup(root, n)[1]._vid) is not None]
    pairs = [(m, n) for m in acc for n in acc if m != n][:8] + [(m, n) for m in reversed(acc) for n in acc if m != n][:8]
    for m, n in pairs:
        tm, tn = base.impl_lookup(root, m)[1], base.impl_lookup(root, n)[1]
        if tm._vid == tn._vid:
            continue
        out, err, log, exc = base.quiet_run(root, [m, n])
        if len(log) != 2 or log[0][0] != tm._vid or log[1][0] != tn._vid:
            continue
        seen = log[1][1]
        exp = {k: v for k, v in want[tn._vid].items() if k in base.WATCH_KEYS}
        d = diff_path(seen, exp)
        if d is not None:
            fails.append(("body-sees-other-settings", "invoked as %r right after %r the task body sees %r at %s, expected %r"
                          % (n, m, get_path(seen, d), ".".join(d), get_path(exp, d)), [m, n]))
        elif hist is not None:
            hist["body_config_checked_after_other_task"] += 1
    return fails


def run(ctx):
    out = Outcome()
    drv, lines, expect, nq = base.run_trees(ctx, out, True, oracle_c17, ctx.n(220, 3000), 200 if ctx.thorough else 90,
                                            nontrivial=lambda spec, feats: "shared_section_on_path" in feats)
    base.compare(ctx, out, drv, lines, expect)
    out.extra["queries"] = nq
    return out


def replay(case):
    try:
        spec, root, b = base.build_case(case["tree"])
    except ValueError as e:
        return True, "the API refuses this tree (%s)" % e
    try:
        fails = oracle_c17(spec, root, b, case["names"])
    except Exception as e:
        return False, "unexpected-exception: observing the tree raised %s: %s" % (type(e).__name__, e)
    kind = case.get("check")
    if kind:  # a replay file names the kind of failure it recorded: only that kind counts
        fails = [f for f in fails if f[0] == kind]
    if fails:
        return False, "; ".join("%s: %s" % (k, w) for k, w, _ in fails[:3])
    return True, "ok (%d names)" % len(case["names"])
