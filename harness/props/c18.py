"""C18 - core options mean the same anywhere; task tokens and the remainder stay intact."""
import contextlib
import io
import json
import sys

import common
from common import Outcome, LeanDriver
from props import c07
from props.c07 import enc, enc_ctx, enc_registry, enc_argv, show_ctx, flag_of

ID = "C18"
PROPS = ["Invoke/Props/C18.lean", "Invoke/Props/C18Tables.lean"]
TARGETS = ["drv_parser"]
DRIVER_ROOTS = ["Driver/Parser.lean"]
GENERATED = ["Parser", "Program"]
RULE = ("metamorphic cases = (namespace, task invocation built by construction, core option x spelling, placement, remainder) run "
        "through the REAL invoke.Program (recording task bodies, configuration captured inside the body): every core option "
        "that is safe to execute (all but help/list/complete/version/debug/prompt-for-sudo-password/print-completion-script) x "
        "every spelling (long, short, '=', spaced, glued, combined short booleans) x every item boundary of every task of the "
        "invocation, with and without flags of the task shadowing the spelling, with and without a remainder after '--'; plus "
        "random argvs over an alphabet of core/task tokens for the model correspondence. Non-trivial = the moved option changes "
        "at least one core value w.r.t. the run without it; distinct = distinct (namespace, argv) pairs. Family CROSS: two or "
        "three task contexts in one command line, each carrying a combined/glued short block starting with the SAME letter, in "
        "a namespace whose tasks shadow core short flags with flags of a different kind (bool vs value vs optional value): "
        "each block must mean what it means in its own context (= the flag-by-flag spelling with the core part moved to the "
        "front). Family DASHVAL: values '--', '-', '---', '--x', '-x=y' ... for task value flags, optional-value flags and core "
        "value flags in the '=', glued and spaced spellings, before/inside the tasks, with and without a real remainder: value "
        "verbatim, later tokens intact, remainder = what follows the first bare '--' token of the original argv. Family BLOCK: "
        "combined short blocks of 3, 4 and 5 letters (core Booleans, task Booleans, mixed) with one value / optional-value flag "
        "in first, middle or last position, its value as the next token, glued at the end, or absent; before the first task, "
        "at every item boundary inside a task, with a second task and a remainder: the block means the same as its flag-by-flag "
        "spelling in the same place (incl. refusing both), and an all-core block the same as before the tasks. Family SHAPE: "
        "values containing '=' ('a=b', '=', '=x', 'x=', 'a=b=c', '--k=v', ...) and the explicitly EMPTY value, for task value "
        "flags whose short name shadows a BOOLEAN core short flag (-d, -e, -p), for an unshadowed task flag and for core value "
        "flags, in the '=', glued and spaced spellings (every owner x value x spelling at least once), the owner's task first / "
        "second / third, the item followed by a task name / a flag of the task / a core flag / the end, core flags before the "
        "tasks or not: value verbatim, every task receives exactly its expected arguments, core values as without the item. "
        "Family COREKIND: a Program SUBCLASS whose core_args() adds core options of the other kinds - list (repeatable), int, "
        "optional value, incrementable - each option group (one or more occurrences, '=', spaced, glued, inside combined short "
        "blocks, mixed with stock flags) before the first task and at every item boundary of every task (optional-value flags "
        "only where the task's positionals are filled): the core context must hold exactly the TYPED values the group denotes, "
        "every other core value, the tasks' arguments, the configuration they see and the remainder as without the group; plus "
        "groups split between 'before the tasks' and 'inside a task'. Two divergences of the unchanged implementation on this "
        "dimension (incrementable option before the tasks reset; split repeatable option keeps the inside part only) are "
        "counted in the histogram, demanded by replay, and listed in known_findings.d/C18.json")
TRUSTED = ["Lean 4.33 kernel", "axioms propext/Classical.choice/Quot.sound only",
           "harness/props/c18.py metamorphic generator + oracle + canonicalisation", "tools/extractors/parser.py (core argument table)",
           "models Invoke/Model/Parser.lean + Program.lean hand-written, tied by correspondence on every run",
           "Config defaults/merging and Executor (exercised, not modelled here)"]
ASSUMPTIONS = ["the task where the option is placed is not waiting for a flag value at that point (item boundary) - the property's "
               "own side condition", "optional-value core options (--help, --list) are outside the placement oracle (documented ambiguity)",
               "a task flag with the same spelling but a different arity than the core option is a don't-care of the shadowing oracle",
               "a plain value flag given twice in one context ('-L 3 -L 4') is refused by the parser wherever it stands - not a placement question"]
LEVEL_TEXT = ("Lean 4 proofs about the two-pass Program parse: remainder_verbatim (remainder = ' '.join of the tokens after the first "
              "'--', and nothing else depends on them), unparsed_is_suffix (once the core pass meets a non-core token, every later "
              "token reaches task parsing verbatim and in order), core_flag_in_task_partial / shadowing_flag_wins_partial (one-step "
              "statements: an unshadowed boolean core flag inside a task context sets exactly the core argument and leaves the task "
              "context alone; a spelling the task declares goes to the task and leaves the core context alone), and the regenerated "
              "core-argument table is well-formed; models tied to invoke.Program on every run by a metamorphic + differential "
              "correspondence check through the real Program.run")
TECHNIQUE = "Lean 4 theorems on the Program/Parser models + metamorphic placement x spelling generator through the real Program + model/implementation correspondence"

SNAP_KEYS = ["warn", "pty", "echo", "dry", "hide", "dedupe", "timeout"]
UNSAFE_CORE = {"help", "list", "complete", "version", "debug", "prompt-for-sudo-password", "print-completion-script"}

NAMESPACES = [
    {"id": "N1", "tasks": [
        {"name": "t1", "params": [["flag", False], ["name", "n"], ["count", 0]]},
        {"name": "t2", "params": [["pos"], ["verbose", False]]}]},
    # every flag of `s` shadows a core spelling: --echo/-e, --hide/-h, -T, --warn-only/-w, --pty/-p
    {"id": "N2", "tasks": [
        {"name": "s", "params": [["echo", False], ["hide", "x"], ["T", 0], ["warn_only", False], ["pty", False]]},
        {"name": "plain", "params": [["arg", "d"]]}]},
    {"id": "N3", "tasks": [
        {"name": "o", "params": [["opt", None], ["lst", None], ["v", 0]], "optional": ["opt"], "iterable": ["lst"], "incrementable": ["v"]},
        {"name": "p2", "params": [["one"], ["two"], ["dry", False]]}]},
    {"id": "N4", "tasks": [
        {"name": "q", "params": [["pos"], ["name", "n"], ["flag", False]], "auto_shortflags": False},
        {"name": "w", "params": [["R", False], ["config", "c"], ["D", 1]]}]},
]

VALUES = ["zed", "5", "x.y", "both"]


# ------------------------------------------------------------------ real Program with recording bodies

SINK = []


def _snap(c):
    cfg = c.config
    return {"warn": cfg.run.warn, "pty": cfg.run.pty, "echo": cfg.run.echo, "dry": cfg.run.dry, "hide": cfg.run.hide,
            "dedupe": cfg.tasks.dedupe, "timeout": cfg.timeouts.command}


def _rec(name, c, kwargs):
    SINK.append({"task": name, "kwargs": kwargs, "snap": _snap(c)})


def mk_rec_task(td):
    from invoke import Task
    parts, names = ["c"], []
    for p in td["params"]:
        parts.append(p[0] if len(p) == 1 else "%s=%r" % (p[0], p[1]))
        names.append(p[0])
    scope = {"__rec__": _rec}
    exec("def body(%s):\n    __rec__(%r, c, dict(%s))\n" % (", ".join(parts), td["name"], ", ".join("%s=%s" % (n, n) for n in names)), scope)
    return Task(scope["body"], name=td["name"], aliases=tuple(td.get("aliases", ())), positional=td.get("positional"),
                optional=tuple(td.get("optional", ())), iterable=td.get("iterable"), incrementable=td.get("incrementable"),
                auto_shortflags=td.get("auto_shortflags", True))


_NS_CACHE = {}


def extra_core_args(ns):
    """the additional core options of a Program SUBCLASS (fabric-style `core_args()` override), fresh Argument objects"""
    from invoke import Argument
    kinds = {"str": str, "int": int, "bool": bool, "list": list}
    return [Argument(names=tuple(a["names"]), kind=kinds[a.get("kind", "str")], default=a.get("default"),
                     optional=a.get("optional", False), incrementable=a.get("incrementable", False))
            for a in ns.get("core_extra", [])]


def program_class(ns, base=None):
    from invoke import Program
    base = base or Program
    if not ns.get("core_extra"):
        return base

    class Sub(base):
        def core_args(self):
            return super().core_args() + extra_core_args(ns)
    return Sub


def namespace(ns):
    from invoke import Collection
    key = common.h(ns)
    if key not in _NS_CACHE:
        coll = Collection()
        for td in ns["tasks"]:
            coll.add_task(mk_rec_task(td), name=td["name"])
        _NS_CACHE[key] = coll
    return _NS_CACHE[key]


def run_program(ns, argv):
    """Runs the REAL Program.run on argv.  Returns a JSON-able outcome dict."""
    from invoke import Program
    from invoke.exceptions import ParseError

    stage = {}

    class Rec(Program):
        def parse_core_args(self):
            try:
                super().parse_core_args()
            except BaseException as e:
                stage["core"] = type(e).__name__
                raise
            stage["core"] = None

        def parse_tasks(self):
            try:
                super().parse_tasks()
            except BaseException as e:
                stage["tasks"] = type(e).__name__
                raise
            stage["tasks"] = None

    del SINK[:]
    p = program_class(ns, Rec)(namespace=namespace(ns))
    exc = None
    dwb = sys.dont_write_bytecode
    out, err = io.StringIO(), io.StringIO()
    a = list(argv)
    with contextlib.redirect_stdout(out), contextlib.redirect_stderr(err):
        try:
            p.run(["prog"] + a, exit=False)
        except SystemExit as e:
            exc = "SystemExit"
        except ParseError:
            exc = "ParseError"
        except Exception as e:  # noqa
            exc = type(e).__name__
    sys.dont_write_bytecode = dwb
    res = {"exc": exc, "stage": dict(stage), "calls": [dict(c) for c in SINK], "argv_same": a == list(argv)}
    core = getattr(p, "core", None)
    if core is not None and len(core):
        res["core"] = dict((x.name, x.value) for x in core[0].args.values())
        res["core_ctx"] = show_ctx(core[0])
        res["unparsed"] = list(core.unparsed)
        res["remainder"] = core.remainder
    if stage.get("tasks", "unset") is None:
        res["tasks"] = [show_ctx(c) for c in p.tasks]
    return res


def canon_impl(res):
    """canonical parse outcome of the implementation, comparable with the driver's `G` answer (without the :O part)"""
    if res["stage"].get("core", "unset") == "ParseError" or res["stage"].get("tasks", "unset") == "ParseError":
        return "E:parse"
    if res["stage"].get("core", "unset") not in (None,) or "tasks" not in res["stage"]:
        return None  # left before task parsing (e.g. --version): not comparable
    if res["stage"]["tasks"] is not None:
        return "E:other:" + str(res["stage"]["tasks"])
    return "OK:%s:%s:U%s:R%s" % (res["core_ctx"], "&".join(res["tasks"]), ",".join(enc(t) for t in res["unparsed"]), enc(res["remainder"]))


def canon_model(line):
    if line.startswith("E:parse:"):
        return "E:parse", None
    if line.startswith("OK:"):
        head, _, o = line.rpartition(":O")
        return head, o
    return line, None


def expected_snap(baseline, o):
    """apply the model's overrides (string w?p?e?d?x?/h<val>/t<val>) to the baseline snapshot"""
    flags, h, t = o.split("/")
    b = dict(baseline)
    bits = dict((flags[i], flags[i + 1] == "1") for i in range(0, len(flags), 2))
    if bits["w"]:
        b["warn"] = True
    if bits["p"]:
        b["pty"] = True
    if bits["e"]:
        b["echo"] = True
    if bits["d"]:
        b["dry"] = True
    if bits["x"]:
        b["dedupe"] = False
    if h[1:] != "N":
        b["hide"] = "".join(chr(int(x)) for x in h[2:].split(".") if x)
    if t[1:] != "N":
        b["timeout"] = int(t[2:])
    return b


# ------------------------------------------------------------------ what the generator knows about the signatures

class NsView:
    def __init__(self, ns):
        from invoke import Program
        self.ns = ns
        coll = namespace(ns)
        self.ctxs = coll.to_contexts()
        self.initial = program_class(ns)(namespace=coll).initial_context
        self.view = c07.View(self.initial, self.ctxs, False)
        self.header = "G %s %s " % (enc_ctx(self.initial), enc_registry(self.ctxs))
        self.core_opts = []  # (name, arg view, [spellings])
        for a in self.view.initial["args"]:
            if a["names"][0] in UNSAFE_CORE or a["optional"]:
                continue
            self.core_opts.append(a)

    def spellings(self, a, rng):
        """all spellings of core option a: list of (token list, pieces) where pieces = [(flag spelling, value|None)]"""
        longs = [flag_of(n) for n in a["names"] if len(n) > 1]
        shorts = [flag_of(n) for n in a["names"] if len(n) == 1]
        out = []
        if c07.View.takes_value(a):
            v = "5" if a["kind"] == "int" else "nonexistent.yaml" if a["names"][0] == "config" else rng.choice(["both", "out", "zed"])
            for f in longs + shorts:
                out.append(([f, v], [(f, v)]))
                out.append(([f + "=" + v], [(f, v)]))
            for f in shorts:
                out.append(([f + v], [(f, v)]))
                if a["kind"] == "str" and a["names"][0] != "config":
                    # value glued to a core short flag and containing '=' (fixed finding C18-glued-core-value-with-equals)
                    out.append(([f + "x=y"], [(f, "x=y")]))
        else:
            for f in longs + shorts:
                out.append(([f], [(f, None)]))
            others = [flag_of(n) for b in self.core_opts if b is not a and not c07.View.takes_value(b) for n in b["names"] if len(n) == 1]
            for f in shorts:
                for g in others[:3]:
                    out.append((["-" + f[1] + g[1]], [(f, None), (g, None)]))
                    out.append((["-" + g[1] + f[1]], [(g, None), (f, None)]))
        return out


def build_call(task, rng):
    """one task invocation by construction: [task name] + items; each item is a token group"""
    items, keys = [], []
    for a in task["args"]:
        if c07.View.must_fill(a):
            items.append([rng.choice(VALUES)])
            keys.append(a["key"])
    flags = []
    for a in task["args"]:
        if c07.View.must_fill(a) or rng.random() < 0.55:
            continue
        spell = [f for f, x in task["flags"].items() if x is a]
        fl = rng.choice(spell)
        short = not fl.startswith("--")
        keys.append(a["key"])
        if a["incrementable"]:
            flags.append([fl])
        elif a["kind"] == "bool":
            flags.append([fl])
        elif a["kind"] == "list":
            flags.append([fl, rng.choice(VALUES)])
        else:
            v = "7" if a["kind"] == "int" or isinstance(a["default"], int) else rng.choice(VALUES)
            form = rng.choice(["sp", "eq", "glued" if short else "sp"])
            flags.append([fl, v] if form == "sp" else [fl + "=" + v] if form == "eq" else [fl + v])
    rng.shuffle(flags)
    return {"task": task["name"], "items": items + flags, "keys": keys}


def flat(calls):
    out = []
    for c in calls:
        out.append(c["task"])
        for i in c["items"]:
            out += i
    return out


REMAINDERS = [["x"], ["--echo", "y  z"], ["t1", "-T9", "--", ""], ["a b", "--hide=out"], ["-e"], ["s", "--pty"]]


# ------------------------------------------------------------------ oracle

def same_effect(a, b):
    return a.get("core") == b.get("core") and a["calls"] == b["calls"] and a["exc"] == b["exc"]


def oracle_case(nv, case, runs=None):
    """case: {"ns", "calls", "sp", "pieces", "k", "j", "rem"}.  Runs the real Program; returns (why|None, info)."""
    ns, calls, sp, pieces, k, j, rem = case["ns"], case["calls"], case["sp"], case["pieces"], case["k"], case["j"], case["rem"]
    tail = (["--"] + rem) if rem is not None else []
    body_base = sp + flat(calls)
    ck = calls[k]
    moved_call = [ck["task"]] + sum(ck["items"][:j], []) + sp + sum(ck["items"][j:], [])
    body_moved = flat(calls[:k]) + moved_call + flat(calls[k + 1:])
    cache = runs if runs is not None else {}

    def run(argv):
        key = json.dumps(argv)
        if key not in cache:
            cache[key] = run_program(ns, argv)
        return cache[key]

    info = {"argvs": [body_base + tail, body_moved + tail]}
    B0 = run(body_base)
    if B0["exc"] is not None or B0["stage"].get("tasks", "unset") is not None or len(B0["calls"]) == 0:
        info["dontcare"] = "base-invocation-not-accepted"
        return None, info
    B = run(body_base + tail)
    # remainder verbatim, influences nothing
    if rem is not None:
        if not same_effect(B, B0) or B.get("unparsed") != B0.get("unparsed"):
            return "tokens after '--' changed the core values / task arguments / unparsed tokens", info
        if B.get("remainder") != " ".join(rem):
            return "remainder %r is not the tokens after '--' joined by spaces (%r)" % (B.get("remainder"), rem), info
    # everything from the first task name onward reaches task parsing intact
    if B.get("unparsed") != flat(calls):
        return "core pass handed %r to task parsing, the command line from the first task name on is %r" % (B.get("unparsed"), flat(calls)), info
    V = run(body_moved + tail)
    if V.get("unparsed") != body_moved:
        return "core pass handed %r to task parsing, the command line from the first task name on is %r" % (V.get("unparsed"), body_moved), info
    if rem is not None and V.get("remainder") != " ".join(rem):
        return "remainder %r is not the tokens after '--' joined by spaces (%r)" % (V.get("remainder"), rem), info
    # shadowing?
    task = nv.view.names[ck["task"]]
    shadow = [(f, v) for f, v in pieces if f in task["flags"] or f in task["inverse"]]
    if not shadow:
        info["kind"] = "placement"
        if not same_effect(B, V):
            return ("core option %r placed inside task %r (position %d) does not mean the same as before the tasks: core/kwargs/config "
                    "%r vs %r" % (sp, ck["task"], j, _brief(V), _brief(B))), info
        return None, info
    # the task declares the spelling: it receives it, the core is unchanged
    for f, v in shadow:
        a = task["flags"].get(f)
        if a is None or c07.View.takes_value(a) != (v is not None) or a["incrementable"] or a["optional"]:
            info["dontcare"] = "shadowing-flag-of-different-arity"
            return None, info
        if a["key"] in ck.get("keys", ()):
            info["dontcare"] = "shadowed-parameter-already-given-in-this-invocation"
            return None, info
    if len(set(c["task"] for c in calls)) != len(calls):
        info["dontcare"] = "shadowing-with-the-same-task-invoked-twice (deduplication is another property)"
        return None, info
    info["kind"] = "shadowing"
    rest_pieces = [(f, v) for f, v in pieces if (f, v) not in shadow]
    ref_sp = sum(([f] if v is None else [f, v] for f, v in rest_pieces), [])
    R = run(ref_sp + flat(calls) + tail)
    if R["exc"] is not None or len(R["calls"]) != len(B["calls"]):
        info["dontcare"] = "reference-run-not-accepted"
        return None, info
    if V.get("core") != R.get("core"):
        return "core values changed although task %r declares %r itself: %r vs %r" % (ck["task"], [f for f, _ in shadow], V.get("core"), R.get("core")), info
    if len(V["calls"]) != len(R["calls"]):
        return "task list changed by a shadowed flag: %r vs %r" % (_brief(V), _brief(R)), info
    idx = [i for i, c in enumerate(R["calls"]) if c["task"] == ck["task"]]
    for i, (cv, cr) in enumerate(zip(V["calls"], R["calls"])):
        if cv["snap"] != cr["snap"]:
            return "configuration seen by %r changed by a flag the task declares itself" % cv["task"], info
        want = dict(cr["kwargs"])
        if cv["task"] == ck["task"] and (len(idx) == 1 or cv["kwargs"] != cr["kwargs"]):
            for f, v in shadow:
                a = task["flags"][f]
                want[a["key"]] = True if v is None else (int(v) if a["kind"] == "int" else v)
        if cv["kwargs"] != want:
            return "task %r should have received its own flag(s) %r: kwargs %r, expected %r" % (cv["task"], [f for f, _ in shadow], cv["kwargs"], want), info
    return None, info


def _brief(r):
    return {"core": dict((k, v) for k, v in (r.get("core") or {}).items() if v not in (None, False, "", 0, "flat")),
            "calls": [(c["task"], c["kwargs"], dict((k, v) for k, v in c["snap"].items() if v not in (None, False))) for c in r["calls"]]}


def oracle_random(nv, argv, res):
    """direct statements that need no reference run: when the command line starts with a task name the core pass must hand
    over everything up to '--' untouched; the remainder is the tokens after the first '--' joined by spaces"""
    if res["stage"].get("core", "unset") is not None or "unparsed" not in res:
        return None
    body = argv[:argv.index("--")] if "--" in argv else argv
    rem = argv[argv.index("--") + 1:] if "--" in argv else []
    if res.get("remainder") != " ".join(rem):
        return "remainder %r is not the tokens after '--' joined by spaces (%r)" % (res.get("remainder"), rem)
    if body and body[0] in nv.view.names and res["unparsed"] != body:
        return "core pass handed %r to task parsing, the command line from the first task name on is %r" % (res["unparsed"], body)
    return None


_LIST_NS = []


def listing_ns():
    if not _LIST_NS:
        from invoke import Collection, task

        @task
        def top(c, flag=False, name="n"):
            pass

        @task
        def mid(c):
            pass

        @task(default=True)
        def leaf(c, pos):
            pass
        deeper = Collection("deeper", leaf)
        sub = Collection("sub", mid, deeper)
        _LIST_NS.append(Collection(top, sub))
    return _LIST_NS[0]


def listing_stdout(argv):
    from invoke import Program
    out, err = io.StringIO(), io.StringIO()
    exc = None
    with contextlib.redirect_stdout(out), contextlib.redirect_stderr(err):
        try:
            Program(namespace=listing_ns()).run(["prog"] + list(argv), exit=False)
        except SystemExit:
            exc = "SystemExit"
        except Exception as e:  # noqa
            exc = type(e).__name__
    return {"out": out.getvalue(), "exc": exc}


def listing_effect(case):
    """the listing options (-l/--list, -F/--list-format, -D/--list-depth) have the same effect before the first
    task and inside a task's argument list.  `ref` = options before the call; each variant = (position, options)."""
    call = case["call"]
    ref = listing_stdout(case["ref"] + call)
    for j, opts in case["variants"]:
        argv = call[:j] + opts + call[j:]
        got = listing_stdout(argv)
        if got != ref:
            return "[listing-placement] %r and %r differ: %r... instead of %r..." % (
                case["ref"] + call, argv, (got["exc"] or got["out"])[:80], (ref["exc"] or ref["out"])[:80])
    return None


# ------------------------------------------------------------------ family: same-letter short blocks in DIFFERENT contexts

# tasks shadow core SHORT flags with a flag of a DIFFERENT kind: `-F` (core: value, list-format) is boolean in `build`,
# `-e` (core: boolean, echo) takes a value in `pack`, `-w` (core: boolean) takes an optional value in `wopt`
CROSS_NS = {"id": "X1", "tasks": [
    {"name": "build", "params": [["F", False], ["a", False], ["b", False]]},
    {"name": "deploy", "params": [["x", False], ["a", False], ["b", False]]},
    {"name": "pack", "params": [["e", "none"], ["a", False]]},
    {"name": "other", "params": [["a", False], ["b", False], ["g", False]]},
    {"name": "wopt", "params": [["w", None], ["a", False]], "optional": ["w"]}]}
CROSS_BLOCKS = ["-Fab", "-Fba", "-eab", "-eba", "-wab", "-ea", "-Fa", "-wa", "-abe", "-bae"]


def decompose(nv, task, block):
    """the meaning of a multi-character short token IN ITS OWN CONTEXT: the two-character prefix is the task's flag if the
    task defines that short name, else the core flag; a value-taking flag gets the rest as its value, otherwise every
    further letter is a flag of its own.  -> ([core items], [task items]) with item = (flag, value|None), or None when
    some letter means nothing in that context (no statement then)."""
    core, own = [], []
    tflags, cflags = task["flags"], nv.view.initial["flags"]
    first = block[:2]
    a = tflags.get(first)
    where = own
    if a is None:
        a, where = cflags.get(first), core
    if a is None or a["names"][0] in UNSAFE_CORE or a["incrementable"]:
        return None
    if c07.View.takes_value(a):
        where.append((first, block[2:]))
        return core, own
    where.append((first, None))
    for ch in block[2:]:
        fl = "-" + ch
        b = tflags.get(fl)
        w2 = own
        if b is None:
            b, w2 = cflags.get(fl), core
        if b is None or c07.View.takes_value(b) or b["incrementable"] or b["names"][0] in UNSAFE_CORE:
            return None
        w2.append((fl, None))
    return core, own


def cross_case_argvs(nv, case):
    """-> (argv as written, reference argv: core part moved to the front and spelled spaced, task parts flag by flag)"""
    argv, ref_core, ref_tasks = [], [], []
    for tname, block in case["calls"]:
        d = decompose(nv, nv.view.names[tname], block)
        if d is None:
            return None
        core, own = d
        argv += [tname, block]
        for f, v in core:
            ref_core += [f] if v is None else [f, v]
        ref_tasks.append(tname)
        for f, v in own:
            ref_tasks += [f] if v is None else [f, v]
    return argv, ref_core + ref_tasks


def oracle_cross(nv, case, runs):
    av = cross_case_argvs(nv, case)
    if av is None:
        return None, "dontcare:a-letter-of-the-block-means-nothing-in-its-context"
    argv, ref = av
    for key_argv in (argv, ref):
        key = json.dumps(key_argv)
        if key not in runs:
            runs[key] = run_program(case["ns"], key_argv)
    A, R = runs[json.dumps(argv)], runs[json.dumps(ref)]
    if R["exc"] is not None or R["stage"].get("tasks", "unset") is not None or len(R["calls"]) != len(case["calls"]):
        return None, "dontcare:reference-spelling-not-accepted"
    if not same_effect(A, R):
        return ("each short block must be read in ITS OWN context (task flag if the task defines that short name, else the core "
                "flag): %r gave %r, the flag-by-flag spelling %r gives %r" % (argv, _brief(A), ref, _brief(R))), "cross"
    return None, "cross"


def cross_cases(nv, rng, n):
    names = [t["name"] for t in nv.view.tasks]
    out, seen = [], set()
    # every ordered pair of different tasks x every pair of blocks starting with the same letter, both orders
    pairs = [(t1, t2) for t1 in names for t2 in names if t1 != t2]
    combos = [(b1, b2) for b1 in CROSS_BLOCKS for b2 in CROSS_BLOCKS if b1[1] == b2[1]]
    allc = [(p, c) for p in pairs for c in combos]
    rng.shuffle(allc)
    for (t1, t2), (b1, b2) in allc:
        calls = [[t1, b1], [t2, b2]]
        if rng.random() < 0.15:
            t3 = rng.choice([t for t in names if t not in (t1, t2)])
            calls.append([t3, rng.choice([b for b in CROSS_BLOCKS if b[1] == b1[1]])])
        case = {"kind": "cross", "ns": nv.ns, "calls": calls}
        if cross_case_argvs(nv, case) is None:
            continue
        out.append(case)
        if len(out) >= n:
            break
    return out


# ------------------------------------------------------------------ family: combined short blocks of 3-5 letters

BLOCK_NS = {"id": "X3", "tasks": [
    {"name": "build", "params": [["verbose", False], ["quiet", False], ["name", "n"], ["opt", None], ["keep", False]], "optional": ["opt"]},
    {"name": "ship", "params": [["pos"], ["x", False], ["yes", False], ["zone", "z"]]}]}


def block_flagwise(nv, task, block):
    """the flag-by-flag spelling of a multi-character short token read in its context (`task` = None: core context): if its
    two-character prefix is a value-taking flag there, the rest is that flag's value; otherwise every further character
    is a flag of its own, in the order written"""
    first = block[:2]
    a = None
    if task is not None:
        a = task["flags"].get(first)
    if a is None:
        a = nv.view.initial["flags"].get(first)
    if a is not None and c07.View.takes_value(a):
        return [first, block[2:]]
    return ["-" + ch for ch in block[1:]]


def block_cases(nv, rng, n):
    core = nv.view.initial
    def shorts(ctx, pred):
        return sorted(set(f[1] for f, a in ctx["flags"].items() if len(f) == 2 and pred(a) and a["names"][0] not in UNSAFE_CORE
                          and not a["incrementable"]))
    cb = shorts(core, lambda a: not c07.View.takes_value(a))
    cv = shorts(core, lambda a: c07.View.takes_value(a) and not a["optional"] and a["names"][0] != "config")
    cases = []
    tasks = nv.view.tasks
    while len(cases) < n:
        task = rng.choice(tasks)
        tb = shorts(task, lambda a: not c07.View.takes_value(a))
        tv = shorts(task, lambda a: c07.View.takes_value(a))
        kind = rng.choice(["core", "core", "task", "mixed", "mixed"])
        k = rng.choice([3, 3, 4, 5])
        bools = cb if kind == "core" else tb if kind == "task" else cb + tb
        vals = cv if kind == "core" else tv if kind == "task" else cv + tv
        bools = [b for b in bools if not (kind != "core" and b in cb and ("-" + b) in task["flags"] and b not in tb)]
        with_value = rng.random() < 0.8 and vals
        nb = k - 1 if with_value else k
        if len(bools) < nb:
            continue
        letters = rng.sample(bools, nb)
        vletter = None
        if with_value:
            vletter = rng.choice(vals)
            pos = rng.choice([0, nb // 2 if nb > 1 else nb, nb, nb, nb])  # first, middle, last (last most often)
            letters.insert(pos, vletter)
        block = "-" + "".join(letters)
        vtok = None
        mode = "none"
        if vletter is not None:
            a = (task["flags"].get("-" + vletter) if kind != "core" else None) or core["flags"].get("-" + vletter)
            vtok = "5" if a["kind"] == "int" else rng.choice(["zed", "json", "x.y"])
            mode = rng.choice(["next", "next", "next", "glued", "none"]) if letters[-1] == vletter else rng.choice(["next", "none"])
        placement = "front" if kind == "core" and rng.random() < 0.35 else "inside"
        call = build_call(task, rng)
        # do not mention a parameter twice
        used = set(letters)
        if any(len(i[0]) >= 2 and i[0].startswith("-") and not i[0].startswith("--") and i[0][1] in used for i in call["items"]) or \
           any(a["key"] in call["keys"] for f, a in task["flags"].items() if len(f) == 2 and f[1] in used):
            continue
        second = build_call(rng.choice(tasks), rng) if rng.random() < 0.4 else None
        if second is not None and second["task"] == call["task"]:
            second = None
        j = rng.randint(0, len(call["items"]))
        rem = rng.choice(REMAINDERS) if rng.random() < 0.25 else None
        cases.append({"kind": "block", "ns": nv.ns, "block": block, "mode": mode, "vtok": vtok, "placement": placement,
                      "call": call, "second": second, "j": j, "rem": rem, "flavour": kind})
    return cases


def block_argvs(nv, case):
    """-> (argv with the block, argv with the flag-by-flag spelling in the same place, argv with the block moved to the front | None)"""
    task = nv.view.names[case["call"]["task"]]
    block = case["block"] + (case["vtok"] if case["mode"] == "glued" else "")
    extra = [case["vtok"]] if case["mode"] == "next" else []
    ctx_task = None if case["placement"] == "front" else task
    wise = block_flagwise(nv, ctx_task, block)
    ck = case["call"]
    tail = (flat([case["second"]]) if case["second"] else []) + ((["--"] + case["rem"]) if case["rem"] is not None else [])

    def place(toks):
        if case["placement"] == "front":
            return toks + extra + flat([ck]) + tail
        j = case["j"]
        return [ck["task"]] + sum(ck["items"][:j], []) + toks + extra + sum(ck["items"][j:], []) + tail
    front = None
    # moving the block to the front is only a statement about a COMPLETE option: no value flag in the block, or the value
    # flag is its last letter and its value is supplied (next token / glued).  A value flag followed by further letters, or
    # left without a value, takes "whatever token comes next" - which token that is depends on the place, and inside a task a
    # core flag token is then taken as the value while before the tasks it is a flag (reported, not demanded).
    letters = case["block"][1:]
    cflags = nv.view.initial["flags"]
    vl = [ch for ch in letters if c07.View.takes_value(cflags.get("-" + ch) or {"kind": "bool", "incrementable": False})]
    complete = not vl or (vl == [letters[-1]] and case["mode"] in ("next", "glued"))
    if case["placement"] == "inside" and case["flavour"] == "core" and complete:
        front = [block] + extra + flat([ck]) + tail
    return place([block]), place(wise), front


def oracle_block(nv, case, runs):
    a, w, f = block_argvs(nv, case)
    for argv in (a, w) + ((f,) if f else ()):
        key = json.dumps(argv)
        if key not in runs:
            runs[key] = run_program(case["ns"], argv)
    A, W = runs[json.dumps(a)], runs[json.dumps(w)]
    ran = W["exc"] is None and W["stage"].get("tasks", "unset") is None and len(W["calls"]) > 0
    if not same_effect(A, W) or A["stage"] != W["stage"] or A.get("remainder") != W.get("remainder"):
        return ("the combined short block in %r does not mean the same as its flag-by-flag spelling %r: %r (stage %r) vs %r (stage %r)"
                % (a, w, _brief(A), A["stage"], _brief(W), W["stage"])), ran
    if f is not None and ran:
        F = runs[json.dumps(f)]
        if not same_effect(A, F):
            return ("the block of core flags inside the task (%r) does not mean the same as before the tasks (%r): %r vs %r"
                    % (a, f, _brief(A), _brief(F))), ran
    return None, ran


# ------------------------------------------------------------------ family: value shapes ('=' inside, empty) for shadowing flags

SHAPE_NS = {"id": "X4", "tasks": [
    # value flags whose automatic short name is a BOOLEAN core short flag: -d/--debug, -e/--echo, -p/--pty
    {"name": "build", "params": [["dir", "."], ["keep", False]]},
    {"name": "deploy", "params": [["env", "dev"], ["path", "/"]]},
    {"name": "pack", "params": [["e", "none"], ["a", False]]},
    {"name": "test", "params": [["mode", "lo"]]}]}
SHAPE_DEFAULTS = {"build": {"dir": ".", "keep": False}, "deploy": {"env": "dev", "path": "/"}, "pack": {"e": "none", "a": False},
                  "test": {"mode": "lo"}}
# (where, task, long spelling, short spelling, key)
SHAPE_OWNERS = [("task", "build", "--dir", "-d", "dir"), ("task", "deploy", "--env", "-e", "env"), ("task", "deploy", "--path", "-p", "path"),
                ("task", "pack", None, "-e", "e"), ("task", "test", "--mode", "-m", "mode"),
                ("core", None, "--hide", None, "hide"), ("core", None, "--list-format", "-F", "list-format")]
EQ_VALUES = ["a=b", "=", "=x", "x=", "a=b=c", "--k=v", "KEY=prod", "/a=b"]
SHAPE_VALUES = EQ_VALUES + [""]
# what may stand next to the item: (tokens, task it belongs to | None = core flag, effect on that task's kwargs)
SHAPE_FILLERS = {"build": (["--keep"], {"keep": True}), "deploy": (["--path", "pp"], {"path": "pp"}), "pack": (["-a"], {"a": True}),
                 "test": (["--mode=hi"], {"mode": "hi"})}
SHAPE_OWN_FLAG = {("build", "dir"): (["--keep"], {"keep": True}), ("deploy", "env"): (["--path", "pp"], {"path": "pp"}),
                  ("deploy", "path"): (["--env", "ee"], {"env": "ee"}), ("pack", "e"): (["-a"], {"a": True})}


def shape_forms(lng, sht, v):
    """every spelling that delivers the value v to the flag: `--long=v`, `-s=v`, glued `-sv` (a glued value cannot start
    with '=' and cannot be empty), spaced `--long v` / `-s v` (a value given as its own token is never split)"""
    forms = []
    if lng:
        forms += [("eq-long", [lng + "=" + v]), ("spaced-long", [lng, v])]
    if sht:
        forms += [("eq-short", [sht + "=" + v]), ("spaced-short", [sht, v])]
        if v and not v.startswith("="):
            forms.append(("glued", [sht + v]))
    return forms


def shape_cases(nv, rng, n):
    """owner x value x spelling, each at least once (the rest of the case drawn at random); then random combinations.
    Rest of the case: the owner's task is the first / second / third task of the command line; the item is followed by a
    task name, by a flag (of the task, or a core flag) or by the end; core flags before the tasks or not."""
    names = [t["name"] for t in nv.ns["tasks"]]
    must = [(o, v, f) for o in SHAPE_OWNERS for v in SHAPE_VALUES for f in shape_forms(o[2], o[3], v)]

    def draw(o, v, f):
        where, task, lng, sht, key = o
        pos = rng.choice([0, 0, 1, 2])
        follow = rng.choice(["task", "flag", "end"])
        host = task or rng.choice(names)
        others = [t for t in names if t != host]
        rng.shuffle(others)
        before = others[:pos]
        after = [others[pos]] if follow == "task" or (follow == "flag" and rng.random() < 0.4) else []
        placement = "inside"
        if where == "core" and rng.random() < 0.3:
            placement, pos, before = "front", 0, []
        corefollow = follow == "flag" and (where == "core" or (task, key) not in SHAPE_OWN_FLAG or rng.random() < 0.35)
        return {"kind": "shape", "ns": nv.ns, "where": where, "host": host, "key": key, "value": v, "form": f[0], "toks": f[1],
                "before": before, "after": after, "follow": follow, "corefollow": corefollow, "placement": placement,
                "around": rng.choice([[], [], ["-e"], ["--warn-only"]]), "fill": [rng.random() < 0.5 for _ in range(3)]}
    cases = [draw(o, v, f) for o, v, f in must]
    while len(cases) < n:
        o, v, f = rng.choice(must)
        cases.append(draw(o, v, f))
    return cases


def shape_argv(case):
    """-> (argv, expected calls [(task, kwargs)], reference argv for the core values: the core flags of argv alone + one task)"""
    item = case["toks"]
    argv, want = list(case["around"]), []
    ref = list(case["around"])
    if case["placement"] == "front":
        argv += item
        if case["follow"] == "flag":
            argv += ["--pty"]
            ref += ["--pty"]
    fill = list(case["fill"])

    def filler(t):
        kw = dict(SHAPE_DEFAULTS[t])
        toks = [t]
        if fill.pop(0):
            toks += SHAPE_FILLERS[t][0]
            kw.update(SHAPE_FILLERS[t][1])
        return toks, kw
    for t in case["before"]:
        toks, kw = filler(t)
        argv += toks
        want.append((t, kw))
    host = case["host"]
    kw = dict(SHAPE_DEFAULTS[host])
    argv.append(host)
    ref.append("test")
    if case["placement"] == "inside":
        argv += item
        if case["where"] == "task":
            kw[case["key"]] = case["value"]
        if case["follow"] == "flag":
            if case["corefollow"]:
                nxt, eff = ["--pty"], {}
                ref += nxt
            else:
                nxt, eff = SHAPE_OWN_FLAG[(host, case["key"])]
            argv += nxt
            kw.update(eff)
    want.append((host, kw))
    for t in case["after"]:
        toks, kw2 = filler(t)
        argv += toks
        want.append((t, kw2))
    return argv, want, ref


def oracle_shape(nv, case, runs):
    argv, want, ref = shape_argv(case)
    for a in (argv, ref):
        key = json.dumps(a)
        if key not in runs:
            runs[key] = run_program(case["ns"], a)
    r, R = runs[json.dumps(argv)], runs[json.dumps(ref)]
    v = case["value"]
    what = "%s value %r for %s given as %r in %r" % (case["where"], v, case["key"], case["toks"], argv)
    if r["exc"] is not None or r["stage"].get("tasks", "unset") is not None or r["stage"].get("core", "unset") is not None:
        return "%s was refused (%s, stage %r): an explicitly given value is taken verbatim whatever it contains" % (what, r["exc"], r["stage"])
    got = [(c["task"], c["kwargs"]) for c in r["calls"]]
    if got != want:
        return "%s: tasks received %r, expected %r (value verbatim, the tokens after it intact)" % (what, got, want)
    core, rcore = dict(r.get("core") or {}), dict(R.get("core") or {})
    if case["where"] == "core":
        if core.get(case["key"]) != v:
            return "%s: core %s = %r, expected %r verbatim" % (what, case["key"], core.get(case["key"]), v)
        core.pop(case["key"], None)
        rcore.pop(case["key"], None)
    if core != rcore:
        diff = dict((k, (core.get(k), rcore.get(k))) for k in set(core) | set(rcore) if core.get(k) != rcore.get(k))
        return "%s: core values differ from those of its core flags alone (%r): %r" % (what, ref, diff)
    if r.get("remainder") != "":
        return "%s: remainder %r, expected ''" % (what, r.get("remainder"))
    return None


# ------------------------------------------------------------------ family: core options of the other kinds (Program subclasses)

KIND_NS = {"id": "K1", "tasks": [
    {"name": "build", "params": [["name", "x"], ["flag", False]]},
    {"name": "ship", "params": [["pos"], ["verbose", False]]}],
    "core_extra": [{"names": ["tag", "t"], "kind": "list"}, {"names": ["level", "L"], "kind": "int", "default": 1},
                   {"names": ["maybe", "m"], "optional": True},
                   {"names": ["loud", "u"], "kind": "int", "default": 0, "incrementable": True}]}
KIND_DEFAULTS = {"tag": [], "level": 1, "maybe": None, "loud": 0}
# (option group = all occurrences of the options, complete: no value left open; typed values the core context must hold)
KIND_GROUPS = [
    (["--tag", "a"], {"tag": ["a"]}), (["-t", "a"], {"tag": ["a"]}), (["--tag=a"], {"tag": ["a"]}), (["-ta"], {"tag": ["a"]}),
    (["-t=a"], {"tag": ["a"]}), (["--tag", "a", "-t", "b"], {"tag": ["a", "b"]}), (["-t", "a", "-e", "-t", "b"], {"tag": ["a", "b"], "echo": True}),
    (["--tag=a", "--tag=b", "-tc"], {"tag": ["a", "b", "c"]}), (["--tag", "5"], {"tag": ["5"]}),
    (["--level", "3"], {"level": 3}), (["-L", "3"], {"level": 3}), (["--level=3"], {"level": 3}), (["-L3"], {"level": 3}),
    (["-L=3"], {"level": 3}), (["-L", "0"], {"level": 0}),
    (["--maybe=v"], {"maybe": "v"}), (["-m=v"], {"maybe": "v"}), (["-mv"], {"maybe": "v"}), (["-m", "-e"], {"maybe": True, "echo": True}),
    (["--maybe", "--pty"], {"maybe": True, "pty": True}),
    (["-u"], {"loud": 1}), (["-uu"], {"loud": 2}), (["--loud"], {"loud": 1}), (["-u", "-u", "--loud"], {"loud": 3}),
    (["-ue"], {"loud": 1, "echo": True}), (["-eu"], {"loud": 1, "echo": True}), (["-ut", "a"], {"loud": 1, "tag": ["a"]}),
    (["-uL", "3"], {"loud": 1, "level": 3}), (["-t", "a", "-L", "2", "-u", "--maybe=v"], {"tag": ["a"], "level": 2, "loud": 1, "maybe": "v"}),
]
# the same option given BOTH before the first task and inside a task's argument list: (front part, inside part, combined values,
# values of the inside part alone)
KIND_SPLITS = [
    (["--tag", "a"], ["--tag", "b"], {"tag": ["a", "b"]}, {"tag": ["b"]}), (["-t", "a", "-t", "b"], ["-tc"], {"tag": ["a", "b", "c"]}, {"tag": ["c"]}),
    (["-u"], ["-u"], {"loud": 2}, {"loud": 1}), (["-uu"], ["--loud"], {"loud": 3}, {"loud": 1}),
    (["-L", "3"], ["-L", "4"], {"level": 4}, {"level": 4}), (["--maybe=v"], ["--maybe=w"], {"maybe": "w"}, {"maybe": "w"}),
    (["-e"], ["-e"], {"echo": True}, {"echo": True}),
    # a plain value option given before AND inside: the later (inside) occurrence wins, whatever its value - in particular a
    # value EQUAL TO THE OPTION'S DEFAULT is a given value (stock str / int options, subclass int option; both directions)
    (["-F", "json"], ["-F", "flat"], {"list-format": "flat"}, {"list-format": "flat"}),
    (["-F", "flat"], ["--list-format=json"], {"list-format": "json"}, {"list-format": "json"}),
    (["--list-format=nested"], ["-Fflat"], {"list-format": "flat"}, {"list-format": "flat"}),
    (["-D", "2"], ["-D", "0"], {"list-depth": 0}, {"list-depth": 0}), (["--list-depth=0"], ["-D2"], {"list-depth": 2}, {"list-depth": 2}),
    (["-D", "2", "-F", "json"], ["--list-depth=0", "-F", "flat"], {"list-depth": 0, "list-format": "flat"}, {"list-depth": 0, "list-format": "flat"}),
    (["-L", "3"], ["-L", "1"], {"level": 1}, {"level": 1}), (["--level=1"], ["-L3"], {"level": 3}, {"level": 3}),
    (["-L", "3", "-e"], ["--level", "1", "-w"], {"level": 1, "echo": True, "warn-only": True}, {"level": 1, "warn-only": True}),
    (["--hide", "out"], ["--hide=both"], {"hide": "both"}, {"hide": "both"}), (["-T", "5"], ["-T", "7"], {"command-timeout": 7}, {"command-timeout": 7}),
]
# Divergences of the UNCHANGED implementation on this dimension (witnesses reported; printed as histogram lines, demanded by
# `replay` and - once listed as known findings - by the run as well):
#   gap-1  an INCREMENTABLE core option given before the first task is reset: incrementable arguments are born with
#          `_value = default`, so the never-given copy of the task pass always counts as `got_value` and `_update_core_context`
#          overwrites the core pass's count (`-uu build` -> 0, `build -uu` -> 2)
#   gap-2  a list / incrementable core option given both before and inside the tasks keeps only the inside occurrences
#          (`--tag a build --tag b` -> ['b'], `--tag a --tag b build` -> ['a', 'b'])
DEMAND_KNOWN_GAPS = True


def corekind_cases(nv, rng, n_calls):
    cases = []
    tasks = nv.view.tasks
    for toks, expect in KIND_GROUPS:
        for _ in range(n_calls):
            calls = [build_call(rng.choice(tasks), rng) for _ in range(rng.choice([1, 2]))]
            rem = rng.choice(REMAINDERS) if rng.random() < 0.25 else None
            cases.append({"kind": "corekind", "ns": nv.ns, "toks": toks, "front": [], "expect": expect, "calls": calls, "rem": rem})
    for front, inside, expect, alone in KIND_SPLITS:
        calls = [build_call(rng.choice(tasks), rng) for _ in range(rng.choice([1, 2]))]
        cases.append({"kind": "corekind", "ns": nv.ns, "toks": inside, "front": front, "expect": expect, "alone": alone,
                      "calls": calls, "rem": None})
    return cases


def corekind_argvs(nv, case):
    """-> [(placement label, argv)]: the group before the first task, and at every item boundary of every task (a bare
    optional-value flag, with or without a value, only where every positional of the task is filled - the documented
    ambiguity rule: before that, `check_ambiguity` refuses its value)"""
    calls, toks, front = case["calls"], case["toks"], case["front"]
    tail = (["--"] + case["rem"]) if case["rem"] is not None else []
    bare_opt = any(t.startswith("-m") or t.startswith("--maybe") for t in toks)
    # (a split group has no "everything before the first task" placement of its own: that is the group given together)
    out = [("front", toks + flat(calls) + tail)] if not front else []
    for k, ck in enumerate(calls):
        task = nv.view.names[ck["task"]]
        npos = sum(1 for a in task["args"] if c07.View.must_fill(a))
        for j in range(len(ck["items"]) + 1):
            if bare_opt and j < npos:
                continue
            body = flat(calls[:k]) + [ck["task"]] + sum(ck["items"][:j], []) + toks + sum(ck["items"][j:], []) + flat(calls[k + 1:])
            out.append(("call%d:%d" % (k, j), front + body + tail))
    return out


def oracle_corekind(nv, case, runs):
    """-> [(why, gap tag | None, label, argv)] for every placement that does not give the core context exactly the typed
    values the option group denotes (and the tasks exactly what they get without it)"""
    def run(argv):
        key = json.dumps(argv)
        if key not in runs:
            runs[key] = run_program(case["ns"], argv)
        return runs[key]
    tail = (["--"] + case["rem"]) if case["rem"] is not None else []
    plain = run(flat(case["calls"]) + tail)
    if plain["exc"] is not None or plain["stage"].get("tasks", "unset") is not None or not plain["calls"]:
        return [("the task invocations %r alone are refused" % (flat(case["calls"]),), None, "plain", flat(case["calls"]))]
    incr = set(a["names"][0] for a in case["ns"]["core_extra"] if a.get("incrementable"))
    lists = set(a["names"][0] for a in case["ns"]["core_extra"] if a.get("kind") == "list")
    defaults = dict((a["names"][0], [] if a.get("kind") == "list" else a.get("default")) for a in case["ns"]["core_extra"])
    bad = []
    placements = corekind_argvs(nv, case)
    snaps = None
    for label, argv in placements:
        r = run(argv)
        what = "core option group %r %s in %r" % (case["front"] + case["toks"], "before the first task" if label == "front" and not case["front"]
                                                  else "split %r | %r" % (case["front"], case["toks"]) if case["front"] and label != "front" else label, argv)
        if r["exc"] is not None or r["stage"].get("tasks", "unset") is not None or r["stage"].get("core", "unset") is not None:
            bad.append(("%s was refused (%s, stage %r)" % (what, r["exc"], r["stage"]), None, label, argv))
            continue
        if [(c["task"], c["kwargs"]) for c in r["calls"]] != [(c["task"], c["kwargs"]) for c in plain["calls"]] or \
                r.get("remainder") != plain.get("remainder"):
            bad.append(("%s: tasks / remainder differ from the command line without it: %r" % (what, _brief(r)), None, label, argv))
            continue
        core = r.get("core") or {}
        want = dict(plain.get("core") or {})
        want.update(case["expect"])
        diff = dict((k, (core.get(k), want[k])) for k in want if repr(core.get(k)) != repr(want[k]))
        these = [c["snap"] for c in r["calls"]]
        if snaps is None:
            snaps = these
        elif these != snaps and not diff:
            diff = {"<configuration seen by the tasks>": (these, snaps)}
        if not diff:
            continue
        gap = None
        if not case["front"] and label == "front" and all(k in incr and v[0] == defaults[k] for k, v in diff.items()):
            gap = "gap-1:incrementable-before-tasks-reset"
        elif case["front"] and label != "front" and all(k in (incr | lists) and v[0] == dict(plain["core"], **case["alone"]).get(k)
                                                          for k, v in diff.items()):
            gap = "gap-2:split-occurrences-inside-part-only"
        bad.append(("%s: core values (got, expected) differ: %r - a core option means the same wherever it is written" % (what, diff),
                    gap, label, argv))
    return bad


# ------------------------------------------------------------------ family: values that look like the sentinel

DASH_NS = {"id": "X2", "tasks": [
    {"name": "val", "params": [["pos"], ["name", "n"], ["opt", None]], "optional": ["opt"]},
    {"name": "after", "params": [["flag", False]]}]}
DASH_VALUES = ["--", "-", "---", "--x", "-x=y", "--=", "-- ", "a\nb", "\n"]
DASH_VALUES_EQ = ["a=b", "=", "=x", "x=", "a=b=c", "--k=v", ""]   # shapes of family SHAPE, here for the optional-value owner too


def dash_cases(nv):
    """a value-taking flag (task flag, optional-value task flag, core flag) given a value that looks like the remainder
    sentinel or like a flag, in every spelling that delivers it INSIDE one token or as the next token"""
    owners = [("task", "--name", "-n", "name"), ("task", "--opt", "-o", "opt"),
              ("core", "--hide", None, "hide"), ("core", "--list-format", "-F", "list-format")]
    cases = []
    for where, lng, sht, key in owners:
        for v in DASH_VALUES + DASH_VALUES_EQ:
            forms = [[lng + "=" + v]]
            if sht:
                forms.append([sht + "=" + v])
                if v and not v.startswith("="):
                    forms.append([sht + v])     # glued: cannot be empty, cannot start with '=' (that is the '=' spelling)
            if v != "--":
                forms.append([lng, v])          # spaced: a bare `--` token IS the sentinel, every other value is verbatim
            for form in forms:
                for placement in (["front", "inside"] if where == "core" else ["inside"]):
                    for rem in ((None, ["r1", "--", "-e"]) if v in DASH_VALUES else (None,)):
                        cases.append({"kind": "dashval", "ns": nv.ns, "where": where, "key": key, "value": v, "form": form,
                                      "placement": placement, "rem": rem})
    return cases


def dash_argv(case):
    item = case["form"]
    body = (item if case["placement"] == "front" else []) + ["val", "posv"] + (item if case["placement"] == "inside" else []) + \
        ["after", "--flag"]
    return body + ((["--"] + case["rem"]) if case["rem"] is not None else [])


def oracle_dash(nv, case, runs):
    argv = dash_argv(case)
    key = json.dumps(argv)
    if key not in runs:
        runs[key] = run_program(case["ns"], argv)
    r = runs[key]
    v = case["value"]
    if r["exc"] is not None:
        return None
    want_rem = " ".join(argv[argv.index("--") + 1:]) if "--" in argv else ""
    if r.get("remainder") != want_rem:
        return ("remainder %r, but what follows the first bare '--' token of the command line %r is %r (a flag VALUE that "
                "looks like the sentinel is not the sentinel)" % (r.get("remainder"), argv, want_rem))
    if r["stage"].get("tasks", "unset") is not None or r["stage"].get("core", "unset") is not None:
        return "value %r for %s given as %r was refused (it must be taken verbatim)" % (v, case["key"], case["form"])
    got_calls = [(c["task"], c["kwargs"]) for c in r["calls"]]
    want_val = {"name": "n", "opt": None, "pos": "posv"}
    if case["where"] == "task":
        want_val[case["key"]] = v
    want_calls = [("val", want_val), ("after", {"flag": True})]
    if got_calls != want_calls:
        return "value %r for %s given as %r: tasks received %r, expected %r (value verbatim, later tokens intact)" % (
            v, case["key"], case["form"], got_calls, want_calls)
    if case["where"] == "core" and (r.get("core") or {}).get(case["key"]) != v:
        return "core value %s = %r, expected %r verbatim (given as %r)" % (case["key"], (r.get("core") or {}).get(case["key"]), v, case["form"])
    return None


def match_known(entry, failure):
    """known findings on the dimension "core options of other kinds": only the exact divergence patterns (see KIND_SPLITS)"""
    case = failure.get("case", {})
    if case.get("kind") != "corekind":
        return False
    gap = case.get("gap") or ""
    return bool(gap) and entry.get("id", "").endswith(gap.split(":", 1)[1])


def replay(case):
    if case.get("kind") == "block":
        why, _ = oracle_block(NsView(case["ns"]), case, {})
        return why is None, why or "ok"
    if case.get("kind") == "cross":
        why, _ = oracle_cross(NsView(case["ns"]), case, {})
        return why is None, why or "ok"
    if case.get("kind") == "dashval":
        why = oracle_dash(NsView(case["ns"]), case, {})
        return why is None, why or "ok"
    if case.get("kind") == "corekind":
        bad = oracle_corekind(NsView(case["ns"]), case, {})
        only = case.get("placement")
        bad = [b for b in bad if only is None or b[2] == only]
        return not bad, (bad[0][0] if bad else "ok")
    if case.get("kind") == "shape":
        why = oracle_shape(NsView(case["ns"]), case, {})
        return why is None, why or "ok"
    if case.get("kind") == "listing":
        why = listing_effect(case)
        return why is None, why or "ok"
    if case.get("kind") == "random":
        res = run_program(case["ns"], case["argv"])
        if not res["argv_same"]:
            return False, "Program.run modified argv"
        why = oracle_random(NsView(case["ns"]), case["argv"], res)
        if why:
            return False, why
        return True, "ok"
    nv = NsView(case["ns"])
    why, info = oracle_case(nv, case)
    return why is None, why or "ok %s" % (info.get("kind") or info.get("dontcare"))


# ------------------------------------------------------------------ run

def compare_with_model(nv, runs, ctx, out, drv, baseline):
    """every real run of this namespace is also given to the Lean model of the two-pass parse"""
    keys = list(runs)
    argvs = [json.loads(k) for k in keys]
    if not ctx.model_ok or not keys:
        return
    line = nv.header + ";".join(enc_argv(a) for a in argvs)
    parts = drv.run([line])[0].split(";")
    if len(parts) != len(keys) + 1 or parts[0] not in ("W0", "W1"):
        out.disagree({"kind": "random", "ns": nv.ns, "argv": []}, "namespace accepted by the real constructors", parts[0][:200])
        return
    out.hist["spec_wf" if parts[0] == "W1" else "spec_not_wf"] += 1
    if parts[0] != "W1":
        out.fail({"kind": "random", "ns": nv.ns, "argv": []}, "core context + task contexts fall outside specWF")
    for key, argv, m in zip(keys, argvs, parts[1:]):
        res = runs[key]
        impl = canon_impl(res)
        if impl is None:
            out.hist["model:not-comparable(exit before task parsing)"] += 1
            continue
        head, o = canon_model(m)
        out.traces += 1
        case = {"kind": "random", "ns": nv.ns, "argv": argv}
        if impl != head:
            out.disagree(case, impl, m)
            continue
        if o is not None and res["calls"] and res["exc"] is None:
            want = expected_snap(baseline, o)
            if res["calls"][0]["snap"] != want:
                out.disagree(case, "config seen by the task: %r" % (res["calls"][0]["snap"],), "overrides %s over %r" % (o, baseline))


def run(ctx):
    out = Outcome()
    rng = ctx.rng
    drv = LeanDriver("drv_parser")
    n_inv = ctx.n(10, 60)
    for ns in NAMESPACES:
        nv = NsView(ns)
        runs = {}
        base = run_program(ns, [ns["tasks"][1]["name"]] + (["zed"] * sum(1 for p in ns["tasks"][1]["params"] if len(p) == 1)))
        baseline = base["calls"][0]["snap"] if base["calls"] else dict((k, None) for k in SNAP_KEYS)
        tasks = nv.view.tasks
        for inv in range(n_inv):
            ncalls = rng.choice([1, 1, 2])
            calls = [build_call(rng.choice(tasks), rng) for _ in range(ncalls)]
            noopt = run_program(ns, flat(calls))
            for a in nv.core_opts:
                spells = nv.spellings(a, rng)
                if not (ctx.thorough or ctx.escalated):
                    spells = rng.sample(spells, min(len(spells), 3))
                for sp, pieces in spells:
                    rem = rng.choice(REMAINDERS) if rng.random() < 0.35 else None
                    for k, ck in enumerate(calls):
                        for j in range(len(ck["items"]) + 1):
                            case = {"kind": "move", "ns": ns, "calls": calls, "sp": sp, "pieces": pieces, "k": k, "j": j, "rem": rem}
                            why, info = oracle_case(nv, case, runs)
                            key = json.dumps(info["argvs"][0])
                            nontrivial = key in runs and runs[key].get("core") != noopt.get("core")
                            out.case(case, nontrivial)
                            out.hist[info.get("kind") or ("dontcare:" + info.get("dontcare", "?")) if why is None else "oracle-failure"] += 1
                            if why:
                                out.fail(case, why)
        # random argvs for the model correspondence (and: nothing but ParseError / Exit ever leaves Program.run)
        alpha = c07.alphabet(nv.view, rich_initial=False)[0]
        alpha = [t for t in alpha if t.split("=")[0] not in ("--debug", "-d", "--prompt-for-sudo-password", "--complete",
                                                               "--print-completion-script", "--version", "-V")
                 and not (t.startswith("-") and not t.startswith("--") and ("d" in t[1:] or "V" in t[1:]))]
        alpha += ["-T5", "-T=5", "--hide=out", "-ew", "-we", "--command-timeout=7", "-f=x.yml", "-F", "json", "-F=flat", "-D", "2", "--", "zed"]
        names = list(nv.view.names)
        for _ in range(ctx.n(330, 6000)):
            if rng.random() < 0.5:
                argv = flat([build_call(rng.choice(tasks), rng) for _ in range(rng.choice([1, 2]))])
                for _ in range(rng.choice([0, 1, 1, 2])):
                    argv.insert(rng.randint(0, len(argv)), rng.choice(alpha))
            else:
                argv = [rng.choice(alpha) for _ in range(rng.randint(0, 7))]
                if argv and rng.random() < 0.5:
                    argv[rng.randrange(len(argv))] = rng.choice(names)
            key = json.dumps(argv)
            case = {"kind": "random", "ns": ns, "argv": argv}
            if key not in runs:
                runs[key] = run_program(ns, argv)
            res = runs[key]
            out.case(case, bool(res["calls"]))
            out.hist["random:%s" % ("ran %d task(s)" % len(res["calls"]) if res["calls"] else (res["stage"].get("tasks") or res["stage"].get("core") or "no-task"))] += 1
            if res["exc"] is not None:
                out.hist["random:exception outside parsing (%s)" % res["exc"]] += 1
            if not res["argv_same"]:
                out.fail(case, "Program.run modified argv")
            why = oracle_random(nv, argv, res)
            if why:
                out.fail(case, why)
        compare_with_model(nv, runs, ctx, out, drv, baseline)
    # same-letter short blocks in different contexts / values that look like the sentinel (each run also goes to the model)
    for ns, family in ((CROSS_NS, "cross"), (DASH_NS, "dashval"), (SHAPE_NS, "shape"), (BLOCK_NS, "block"), (NAMESPACES[0], "block")):
        nv = NsView(ns)
        runs = {}
        first = ns["tasks"][1]
        base = run_program(ns, [first["name"]] + (["zed"] * sum(1 for p in first["params"] if len(p) == 1)))
        baseline = base["calls"][0]["snap"] if base["calls"] else dict((k, None) for k in SNAP_KEYS)
        cases = (cross_cases(nv, rng, ctx.n(260, 4000)) if family == "cross" else dash_cases(nv) if family == "dashval"
                 else shape_cases(nv, rng, ctx.n(0, 4000)) if family == "shape" else block_cases(nv, rng, ctx.n(220, 3000)))
        for case in cases:
            if family == "block":
                why, ran = oracle_block(nv, case, runs)
                letters = case["block"][1:]
                vpos = "no-value-flag" if case["vtok"] is None else "value-flag-%s" % (
                    "first" if case["vtok"] is not None and block_flagwise(nv, None if case["placement"] == "front" else
                                                                           nv.view.names[case["call"]["task"]], case["block"])[0:1] == [case["block"][:2]]
                    and len(block_flagwise(nv, None if case["placement"] == "front" else nv.view.names[case["call"]["task"]], case["block"])) == 2
                    else "later")
                out.hist["block:%s:len%d:%s:%s:%s%s" % (case["flavour"], len(letters), vpos, case["mode"], case["placement"],
                                                        "" if ran else ":refused-both") if why is None else "oracle-failure"] += 1
                out.case(case, ran)
            elif family == "cross":
                why, tag = oracle_cross(nv, case, runs)
                out.hist[tag if why is None else "oracle-failure"] += 1
                out.case(case, tag == "cross")
            elif family == "shape":
                why = oracle_shape(nv, case, runs)
                shape = "empty" if case["value"] == "" else "with-equals"
                out.hist["shape:%s:%s:%s:then-%s" % (case["where"], shape, case["form"], case["follow"]) if why is None else "oracle-failure"] += 1
                out.case(case, True)
            else:
                why = oracle_dash(nv, case, runs)
                out.hist["dashval:%s" % case["where"] if why is None else "oracle-failure"] += 1
                out.case(case, True)
            if why:
                out.fail(case, why)
        compare_with_model(nv, runs, ctx, out, drv, baseline)
    # core options of the other kinds (list, int, optional value, incrementable) added by a Program subclass
    nv = NsView(KIND_NS)
    runs = {}
    for case in corekind_cases(nv, rng, ctx.n(2, 12)):
        bad = oracle_corekind(nv, case, runs)
        out.case(case, True)
        out.hist["corekind:%s" % ("split" if case["front"] else "together")] += 1
        for why, gap, label, argv in bad:
            if gap and not DEMAND_KNOWN_GAPS:
                out.hist["corekind:%s (unchanged implementation diverges: witness reported, demanded by replay)" % gap] += 1
                continue
            out.fail(dict(case, placement=label, gap=gap), why)
    base = run_program(KIND_NS, ["build"])
    compare_with_model(nv, runs, ctx, out, drv, base["calls"][0]["snap"] if base["calls"] else dict((k, None) for k in SNAP_KEYS))
    # listing options: same effect wherever they are written
    fmts = [["-F", "nested"], ["--list-format=json"], ["-F=flat"], ["--list-format", "nested"], []]
    depths = [["-D", "1"], ["--list-depth=2"], ["-D1"], []]
    lists = [["-l"], ["--list"], ["-l", "sub"], ["--list=sub"]]
    # calls as item lists: options are only inserted at item boundaries (never between a flag and its value)
    calls = [[["top"]], [["top"], ["--flag"]], [["top"], ["--name", "x"]], [["sub.mid"]], [["top"], ["--flag"], ["sub.mid"]],
             [["top"], ["-n", "x"], ["-f"]]]
    for f in fmts:
        for d in depths:
            for l in lists:
                for items in calls:
                    call = [t for it in items for t in it]
                    bounds = []
                    acc = 0
                    for it in items:
                        acc += len(it)
                        bounds.append(acc)
                    bare = len(l) == 1 and "=" not in l[0]
                    if bare:
                        # a bare optional-value flag is only unambiguous before another flag or at the very end:
                        # reference `-l <other core flags> call`, variant `call <other core flags> -l`
                        if not (f or d):
                            continue
                        # ... and, since a core flag directly after a bare core optional-value flag is recognised inside a task
                        # context too (fixed finding C18-core-optional-then-core-flag): `call[:j] -l <other core flags> call[j:]`
                        ref, variants = l + d + f, [(len(call), f + d + l)] + [(j, l + d + f) for j in bounds]
                    else:
                        ref = (f + d + l) if rng.random() < 0.5 else (l + d + f)
                        variants = [(j, ref) for j in bounds]
                    case = {"kind": "listing", "ref": ref, "call": call, "variants": variants}
                    out.case(case, bool(f or d))
                    out.hist["listing"] += 1
                    why = listing_effect(case)
                    if why:
                        out.fail(case, why)
    return out
